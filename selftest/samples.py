"""Small pure-Python functions over integers: the symbolic executor's encoding of each construct is compared with CPython
(engine/selftest.py).  Not part of numpoly; every function takes two integers a, b.  Functions whose name starts with
`refused_` use constructs the executor does not encode: it must say so (status unsupported), never guess."""


def chained(a, b):
    if 0 <= a < b <= 5:
        return 1
    if a < b < 0 or a == b != 3:
        return 2
    return 3


def short_circuit(a, b):
    x = a and b
    y = a or b
    z = not a
    return x * 100 + y * 10 + (1 if z else 0)


def conditional_expression(a, b):
    return (a if a > b else b) - (b if a > b else a)


def arithmetic(a, b):
    x = -a + 3 * b - (a - b) * 2
    y = x - -b
    return x * y - a * a + abs(-b)


def tuple_swap(a, b):
    a, b = b, a + b
    a, b = b - a, a
    return a * 7 + b


def augmented(a, b):
    x = a
    x += b
    x -= 2 * b
    x *= 3
    y = x
    y -= x - 1
    return x * 10 + y


def builtins_min_max_abs(a, b):
    return min(a, b) * 100 + max(a, b, 0) * 10 + abs(a - b)


def nested_if(a, b):
    if a > 0:
        if b > 0:
            r = 1
        elif b == 0:
            r = 2
        else:
            r = 3
    else:
        if a == 0 and b == 0:
            return 0
        r = 4
    return r * 10 + (1 if a > b else 0)


def try_except(a, b):
    try:
        if a < 0:
            raise ValueError("negative")
        r = a + b
    except ValueError:
        r = -1
    return r


def refused_except_other_class(a, b):
    try:
        if a < b:
            raise KeyError("k")
        r = 1
    except ValueError:
        r = 2
    return r


def try_finally(a, b):
    r = 0
    try:
        if b == 0:
            return -7
        r = a - b
    finally:
        r = r + 1
    return r


def try_finally_reraise(a, b):
    r = 0
    try:
        try:
            if a > b:
                raise ValueError("v")
            r = 5
        finally:
            r = r + 1
    except ValueError:
        r = r + 10
    return r


def raise_kind(a, b):
    if a == b:
        raise KeyError("same")
    if a > b:
        raise ValueError("greater")
    return b - a


def list_indexing(a, b):
    xs = [a, b, a + b, a - b]
    t = (b, a)
    return xs[-1] * 1000 + xs[2] * 10 + len(xs) + t[0] - t[-1]


def none_and_identity(a, b):
    x = None if a > b else a
    if x is None:
        return 1 if a > 0 else 0
    if x is not None and b != 0:
        return x + 1
    return x


def comparison_of_comparisons(a, b):
    p = (a > b) == (b < a)
    q = (a >= b) != (a < b)
    return (1 if p else 0) + (2 if q else 0) + (4 if a != b else 0)


def while_count(a, b):
    n = a if a >= 0 else -a
    if n > 6:
        n = 6
    total = 0
    i = 0
    while i < n:
        total += b
        i += 1
    return total * 10 + i


def for_range_sum(a, b):
    n = a if 0 <= a <= 5 else 3
    acc = 0
    for i in range(n):
        acc = acc + b + 1
    return acc


def for_continue(a, b):
    n = a if 0 <= a <= 5 else 4
    acc = 0
    for i in range(n):
        if i == b:
            continue
        acc += 1
    return acc


def for_break(a, b):
    n = a if 0 <= a <= 5 else 4
    found = -1
    for i in range(n):
        if i >= b:
            found = i
            break
    return found


def concrete_loop(a, b):
    acc = 0
    for i in range(4):
        if i == 2:
            continue
        acc += i * a + b
    for x, y in zip((1, 2, 3), (a, b, a)):
        acc += x * y
    for k, v in enumerate([a, b]):
        acc -= k * v
    return acc


def closure_and_lambda(a, b):
    def f(x, y):
        return x * y + a
    g = lambda t: t - b
    return f(b, 2) + f(a, 3) + g(a)


def floordiv_mod(a, b):
    if b == 0:
        raise ZeroDivisionError("b")
    return (a // b) * 1000 + (a % b)


def division_by_zero(a, b):
    return a // (b - 2) + a % (b + 3)


def divmod_identity(a, b):
    if b == 0:
        return 0
    q = a // b
    r = a % b
    return (q * b + r - a) * 1000 + (1 if (r == 0 or (r > 0) == (b > 0)) else 0) + (2 if abs(r) < abs(b) else 0)


def modulo_constant(a, b):
    return (a % 7) * 100 + (b // 3) * 10 + (-a) % 4 + a // -2


def bool_arithmetic(a, b):
    return (a > 0) + (b > 0) * 2 + (a == b) * 4 - (a < b)


def unary_plus(a, b):
    return +a - +(-b)


def for_else_concrete(a, b):
    for i in range(3):
        if i == a:
            break
    else:
        return -1
    return b + i


def try_else(a, b):
    r = 0
    try:
        if a < 0:
            raise ValueError("v")
    except ValueError:
        r = 1
    else:
        r = 2
        if b < 0:
            r = 3
    finally:
        r += 10
    return r


def tuple_order(a, b):
    x = 1 if (a, b) < (b, a) else 2
    y = 1 if (a, b, 0) >= (a, 1) else 2
    z = 1 if (a,) < (a, b) else 2
    return x * 100 + y * 10 + z + (5 if (a, b) == (b, a) else 0) + (7000 if (a, 1) != (b, 1) else 0)


def closure_defaults(a, b):
    k = 3

    def f(x, y=2, *, z=k):
        return x * y + z
    k = 100
    return f(a) + f(a, b) + f(b, y=a) + f(1, z=b)


def refused_except_other_class2(a, b):
    try:
        if a < b:
            raise KeyError("k")
        r = 1
    except LookupError:
        r = 2
    return r


def refused_for_else_symbolic(a, b):
    n = a if 0 <= a <= 5 else 3
    for i in range(n):
        if i == b:
            break
    else:
        return -1
    return i


def refused_float_floordiv(a, b):
    return (a * 0.5) // 2


def refused_stale_loop_value(a, b):
    n = a if 0 <= a <= 5 else 3
    acc = 0
    carry = 0
    for i in range(n):
        acc = acc + carry          # the value the PREVIOUS iteration left behind
        carry = b
    return acc
