"""Which contracts, static scans and bounded stand-ins decide which property."""
from __future__ import annotations
from engine.registry import Registry
from engine import sortmodel, polymodel
from contracts import option, sorting, align, compare

_CONTRACT_MODULES = [option, sorting, align, compare]

ALL_CONTRACTS = {}
for _m in _CONTRACT_MODULES:
    for _c in _m.CONTRACTS:
        ALL_CONTRACTS[_c.name] = _c


def build_registry():
    reg = Registry()
    sortmodel.install(reg)
    polymodel.install(reg)
    for c in ALL_CONTRACTS.values():
        def model(ex, args, kw, node, _c=c):
            ex.reg.used.add("contract:" + _c.name)
            return _c.apply(ex, args, kw, node)
        reg.fn[c.name] = model
    return reg


COMMON_TRUSTED = [
    "z3 5.1.0 / cvc5 1.0.3 (solvers)",
    "the VC generator of /verif/engine (guarded by mutation self-test and CPython cross-check)",
    "CPython 3.12 semantics of the executed subset (DESIGN 2.5)",
]

PROPS = {
    "C14": dict(
        level="proof",
        contracts=["numpoly.get_options", "numpoly.set_options", "numpoly.global_options"],
        statics=[option.static_frame_obligations],
        trusted_base=COMMON_TRUSTED + ["contextlib.contextmanager protocol (single yield; finally on both exits)"],
        assumptions=["A7: option values are immutable (str/bool) so a shallow dict copy is a detached copy",
                     "A9: the quantifier over arbitrary call histories (nesting, set_options inside blocks) is by structural "
                     "induction over histories; the block body is modelled as havoc of the option state subject to the "
                     "module invariant; the per-event rule obligations are what is mechanised"],
        explanation="All clauses of C14 are postconditions/invariants of get_options, set_options, global_options and a "
                    "whole-repository frame scan; every obligation is discharged by z3 with dicts as arrays.",
    ),
    "C18": dict(
        level="other",
        contracts=["numpoly.glexsort"],
        trusted_base=COMMON_TRUSTED + ["numpy.lexsort / numpy.argsort(kind='stable') / fancy indexing axioms (engine/sortmodel.py)",
                                       "order axioms for lexle/meq/mrev (conformance-tested against conc/model.col_key)"],
        assumptions=["A3: numpy axioms (lexsort stable, last key primary; argsort stable only with kind='stable')"],
        explanation="glexsort: contract proved for all key matrices (any number of rows/columns, symbolic flags). "
                    "glexindex/_glexindex, bindex, cross_truncate, monomial: shape algebra and a floating-point L_q norm, "
                    "outside the VC generator's reach -> bounded-exhaustive stand-in over the stated grid, labelled bounded.",
        not_decided=["cross_truncate floating-point norm (bounded only)", "_glexindex grid construction (bounded only)"],
    ),
}
