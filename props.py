"""Which contracts, static scans and bounded stand-ins decide which property."""
from __future__ import annotations
from engine.registry import Registry
from engine import sortmodel, polymodel
from contracts import option, sorting, align, compare, order_lemmas, leading, dispatch, construct, dispatchfn, baseclass, derivative, division, statics, call, codec, shapefn, display, polynomial, numeric, multiply, indexing, linalg

_CONTRACT_MODULES = [option, sorting, align, compare, leading, dispatch, construct, dispatchfn, baseclass, derivative, division, call, codec, shapefn, polynomial, numeric, multiply, indexing, display, linalg]

ALL_CONTRACTS = {}
for _m in _CONTRACT_MODULES:
    for _c in _m.CONTRACTS:
        ALL_CONTRACTS[_c.name] = _c


def build_registry():
    reg = Registry()
    sortmodel.install(reg)
    polymodel.install(reg)      # (numpy.array: polymodel's axiom covers index vectors too)
    polymodel.install_clean(reg)
    polymodel.install_align(reg)
    from engine import codecmodel, mulmodel
    codecmodel.install(reg)
    mulmodel.install(reg)
    codec.install_axioms(reg)
    shapefn.install_axioms(reg)
    numeric.install_axioms(reg)
    polynomial.install_axioms(reg)
    call.install_axioms(reg)
    display.install_axioms(reg)
    indexing.install_axioms(reg)
    from engine import textmodel
    textmodel.install(reg)
    for c in ALL_CONTRACTS.values():
        def model(ex, args, kw, node, _c=c):
            ex.reg.used.add("contract:" + _c.name)
            return _c.apply(ex, args, kw, node)
        reg.fn[c.name] = model
        parts = c.name.split(".")
        if len(parts) == 3 and parts[0] == "numpoly" and not parts[1].startswith("ndpoly") and f"numpoly.{parts[2]}" not in ALL_CONTRACTS:
            reg.fn.setdefault(f"numpoly.{parts[2]}", model)        # module-private helper called by its bare name
    # ndpoly methods that merely forward to a numpoly function (read from baseclass.py each run)
    import os
    from engine.forwarders import forwarders
    from engine.extract import REPO
    reg.static_methods = set()
    for meth, fw in forwarders(os.environ.get("NUMPOLY_REPO", REPO)).items():
        if fw["target"] not in reg.fn or fw["star_kwargs"]:
            continue

        def alias(ex, args, kw, node, fw=fw):
            bound = dict(fw["defaults"])
            bound.update(zip(fw["params"], args))
            bound.update({k: v for k, v in kw.items() if k != "**"})
            missing = [a for a in fw["args"] + list(fw["kwargs"].values()) if a not in bound]
            if missing:
                from engine.values import U
                raise U(f"forwarding method called without {missing}", node)
            return ex.reg.fn[fw["target"]](ex, [bound[a] for a in fw["args"]], {k: bound[v] for k, v in fw["kwargs"].items()}, node)
        reg.fn[f"numpoly.ndpoly.{meth}"] = alias
        if fw["static"]:
            reg.static_methods.add(meth)
    return reg


COMMON_TRUSTED = [
    "z3 5.1.0 / cvc5 1.0.3 (solvers)",
    "the VC generator of /verif/engine (guarded by mutation self-test and CPython cross-check)",
    "CPython 3.12 semantics of the executed subset (DESIGN 2.5)",
]

PROPS = {
    "C08": dict(
        level="other",
        contracts=["numpoly.ndpoly.__array_ufunc__", "numpoly.ndpoly.__array_function__"],
        statics=[dispatch.static_obligations],
        trusted_base=COMMON_TRUSTED + [
            "A5 numpy protocol: operators, ndarray methods and numpy API calls reach __array_ufunc__/__array_function__ as "
            "documented by numpy (numpy C code); which callables take part is sampled by the bounded sweep",
            "registries reconstructed from the @implements* decorators in the AST (import-time execution of decorators trusted)"],
        assumptions=["A5 (numpy override protocol)", "logging calls are effect-free"],
        explanation="__array_ufunc__ and __array_function__ are under contract for every method string and symbolic "
                    "registries: they return exactly the registered implementation applied to the unchanged arguments and "
                    "raise FeatureNotSupported and nothing else otherwise (dictionary lookups are obligations, so a KeyError "
                    "path fails a named obligation). A static exhaustive enumeration of the registries proves that numpy.f is "
                    "implemented by the function exported as numpoly.f (division trio: the documented poly_* functions) and "
                    "that the operator methods forward to the documented functions with operands in order; hence the spellings "
                    "agree by identity of the callee, given numpy's protocol. The sweep over numpy's public API (which callables "
                    "dispatch) is a bounded run-time check.",
        not_decided=["that numpy consults the hooks for each public callable (numpy C code): bounded sweep only"],
    ),
    "C14": dict(
        level="proof",
        contracts=["numpoly.get_options", "numpoly.set_options", "numpoly.global_options"],
        statics=[option.static_frame_obligations],
        trusted_base=COMMON_TRUSTED + ["contextlib.contextmanager protocol (single yield; finally on both exits)"],
        assumptions=["A7: option values are immutable (str/bool) so a shallow dict copy is a detached copy",
                     "A9: the quantifier over arbitrary call histories (nesting, set_options inside blocks) is by structural "
                     "induction over histories; the block body is modelled as havoc of the option state subject to the "
                     "module invariant; the per-event rule obligations are what is mechanised"],
        explanation="All clauses of C14 are postconditions/invariants of get_options, set_options, global_options and a "
                    "whole-repository frame scan; every obligation is discharged by z3 with dicts as arrays.",
    ),
    "C01": dict(level="other",
                contracts=["numpoly.simple_dispatch", "numpoly.add", "numpoly.subtract", "numpoly.negative", "numpoly.positive",
                           "numpoly.multiply", "numpoly.square", "numpoly.power", "numpoly.align_indeterminants"],
                explanation="simple_dispatch is proved for an arbitrary column function F (arity 1-2): the filled polynomial has "
                "the rows/names of the aligned operands, EVERY coefficient column is F of the operands' columns of the same term "
                "(loop invariant; definedness), shape/dtype are numpy's, result is the cleaning of it (fresh, well-formed). "
                "add/subtract/negative/positive apply the numpy namesake to the operands in order with where forwarded; their value "
                "clause (ring operation of the abstract values, broadcast) follows by bridge B5. multiply is proved from its source on "
                "BOTH paths at coefficient level: rows = exactly the distinct sums of an exponent row of each operand, every coefficient "
                "= the convolution sum over the pairs adding up to its row (nested loop invariants over symbolic term counts with the "
                "set of keys seen so far; uint32 key arithmetic with wrap-around), every field written, compiled path only under the "
                "established preconditions of the assumed cmultiply contract (handled dtype equal to the field dtype, one-byte code points, at most "
                "255 indeterminates, C-contiguous target); value = product by bridge B9. multiply with out=target is proved as well: for a target "
                "that has exactly the fields of the product - whatever its dtype, memory layout and previous content - the target is returned "
                "and every field holds its convolution sum, nothing of the previous content being read. square = multiply(x, x). "
                "power with a non-negative integer scalar exponent: invariant out = x**k over the multiply contract, start = constant "
                "one (B10). Mixed operand kinds, array-valued exponents, compositions and ring laws on concrete operands: bounded "
                "run-time checks against the exact sparse-polynomial oracle (conc/checks_c01.py).",
                trusted_base=COMMON_TRUSTED + ["contracts of align_* (C04), clean_attributes/from_attributes/ndpoly (C03)",
                                               "assumed contract of the compiled cmultiply (Cython; same specification as the verified fallback loop)",
                                               "numpy axioms: tile/repeat/unique pairing, uint32 arithmetic, unicode views"],
                assumptions=["B5, B9, B10 (coefficient-level definitions of sum, product and constant)", "A1",
                             "out=None for add/subtract/negative/positive (multiply: also out=target); kwargs other than where=True pass through to numpy unverified",
                             "precondition of multiply: every exponent sum is storable (otherwise the constructor raises, C20)"],
                not_decided=["array-valued exponents of power, mixed operand kinds (bounded)", "the compiled kernel itself (assumed)"]),
    "C15": dict(level="other", contracts=["numpoly.postprocess_attributes", "numpoly.polynomial_from_attributes", "numpoly.clean_attributes"],
                explanation="Every verification condition of the construct/align/compare/leading contracts is generated with the "
                "option dictionary symbolic (get_options() is a contract returning an arbitrary map satisfying the module invariant); "
                "the retain_* options enter postconditions only through the pruning clauses, the sort_* options only as the order "
                "parameter. Here the construct contracts are re-posed (results well-formed, values kept, no failure under any "
                "setting); the operation catalogue under random option settings is a bounded run-time check with the default-options "
                "run as oracle.", trusted_base=COMMON_TRUSTED),
    "C17": dict(level="other", statics=[statics.module_state_obligations], contracts=["numpoly.multiply", "numpoly.derivative", "numpoly.poly_divmod", "numpoly.align_shape", "numpoly.align_exponents", "numpoly.greater", "numpoly.equal",
                                          "numpoly.not_equal", "numpoly.lead_coefficient", "numpoly.lead_exponent",
                                          "numpoly.any", "numpoly.all", "numpoly.count_nonzero", "numpoly.nonzero", "numpoly.true_divide",
                                          "numpoly.floor_divide", "numpoly.array_repr.to_string", "numpoly.array_repr._to_string",
                                          "numpoly.ndpoly.__getitem__", "numpoly.ndpoly.__iter__"],
                explanation="Frame obligations: at every write statement of a function under contract the executor poses "
                "'target region is fresh or a declared output', with regions tracked through views (.values columns, ravel). "
                "Re-posed here for functions whose anchors the property names; byte-level snapshots of arguments around 82 public "
                "operations are the bounded run-time check.", trusted_base=COMMON_TRUSTED),
    "C02": dict(level="other", contracts=["numpoly.call", "numpoly.outer"],
                explanation="call (real source) is proved for numeric evaluation at scalar points: for ANY number of terms, exponents, "
                "coefficient values and polynomial array shape, result[i] = sum over all terms of C(t,i) * prod_d a_d**E(t,d) (ghost "
                "sum defined by recursion; loop invariant over the term loop, first iteration peeled), where a_d is the point the "
                "caller designated for the d-th indeterminate by position or by name; plain array of shape poly.shape; TypeError "
                "and nothing else for a name supplied twice or an unknown keyword. Enumerated: indeterminate tuples (q0,), (q0,q1) "
                "and 10 ways of supplying the points. x**e is uninterpreted, so what is proved is binding, completeness of the term "
                "sum, coefficient/exponent pairing, int() conversion of stored exponents and the shape. Array-valued points are proved "
                "too (3 binding patterns, argument shapes symbolic and broadcasting): the result has shape poly.shape + broadcast("
                "argument shapes) and element (i ++ j) is  sum_t C(t,i) * prod_d a_d[j] ** E(t,d)  (numpy.outer + reshape as an "
                "index-concatenation axiom, ufunc broadcasting). Polynomial substitution is "
                "proved as well, for scalar (0-d) polynomial arguments, each indeterminate either given one or left standing for itself - "
                "partial evaluation, also through a None placeholder - (7 binding patterns, D <= 2): the "
                "result - a polynomial, or the plain array tonumpy gives when it comes out constant - has the shape of poly and the "
                "value  sum_t C(t,i) * prod_d a_d ** E(t,d)  in the polynomial ring (ghost sum over PV, loop invariant with the first "
                "iteration peeled, through the value-level contracts of power, multiply, add, clean_attributes and "
                "align_indeterminants and outer (element (i, j) = a.ravel()[i] * b.ravel()[j], contracts/linalg.py), all proved from their source; "
                "the reshape of that outer product to a.shape + b.shape is numpy's ndarray.reshape (axiom)). "
                "Array-valued polynomial arguments are covered by three further cases (result[i ++ j] with the arguments' shapes "
                "broadcasting). Numbers mixed with polynomial arguments, staged evaluation, machine-number "
                "kinds and array points spelled as Python lists / tuples: bounded run-time checks (conc/checks_c02.py, exact oracle).",
                trusted_base=COMMON_TRUSTED + ["numpy axioms: ones/zeros, ufunc broadcasting, array ** integer element-wise, "
                                               "outer(a, b).reshape(a.shape + b.shape)[i ++ j] == a[i] * b[j]",
                                               "assumed shape-only contract of numpoly.polynomial(number)"],
                assumptions=["A1 (reals; x**e uninterpreted)", "machine integer arithmetic outside int64 is out of scope (numpy semantics)",
                             "D <= 2 and binding patterns enumerated",
                             "numpy axiom: outer(a, b).reshape(a.shape + b.shape)[i ++ j] is outer(a, b)[position of i in a.ravel(), position of j in b.ravel()]; "
                             "B10 (a constant polynomial denotes the constant tonumpy returns)"],
                not_decided=["numbers mixed with polynomial arguments, partial evaluation with array arguments, staged evaluation (bounded)",
                             "independence of the numeric type carrying an argument (bounded)",
                             "array points spelled as (nested) Python lists or tuples (bounded; the proof models reals, arrays and polynomials)"]),
    "C04": dict(
        level="other",
        contracts=["numpoly.align_shape", "numpoly.align_indeterminants", "numpoly.align_exponents", "numpoly.align_polynomials"],
        trusted_base=COMMON_TRUSTED + [
            "CPython set/sorted semantics for the union of the name tuples (axiom sorted_union), A6 canonical names",
            "contract of polynomial_from_attributes (proved under C03) and the ndpoly accessor model",
            "numpy axioms: broadcast_shapes, ones, ufunc broadcasting, vstack, unique(axis=0), tolist, dict get"],
        assumptions=["bridge axioms B1, B2, B3, B4 (definition of the abstract value under cleaning, broadcasting, re-indexing of "
                     "exponent columns by name and addition of "
                     "all-zero terms); each use is preceded by obligations establishing its premises on the real code",
                     "variadic *polys: arities 1..3 (align_shape: 1..2) enumerated for the proof; higher arities bounded"],
        explanation="align_shape: every rebuilt operand is built from its own exponents/names and from coefficients that are the "
                    "broadcast copies (obligation at coefficient level), dtype kept (ones of dtype bool), unchanged operands only "
                    "when their shape already is the common one. align_exponents: results are fresh, retain every term and name, "
                    "share rows and names, each term of an operand is present with its coefficient (explicit position witness through "
                    "vstack/unique) and all other rows are zero. align_polynomials: composition. align_indeterminants (arity 1-2): the common "
                    "names are the index-sorted union of the operands' names (distinct, containing every operand name), an operand is "
                    "returned unchanged only if it already has them, otherwise it is rebuilt on them with retain flags on (nothing "
                    "pruned under any option setting), its own coefficients, each exponent moved to the column of its name and zero "
                    "exponents for names it does not mention. Arguments are never written (frame obligations at every write). "
                    "Idempotence and higher arities: bounded run-time check.",
        not_decided=["idempotence clause (bounded only)", "arity >= 3 of align_indeterminants, >= 4 of the others (bounded only)"],
    ),
    "C05": dict(level="other", contracts=["numpoly.poly_divmod", "numpoly.get_division_candidate", "numpoly.poly_divide",
                                          "numpoly.poly_remainder", "numpoly.multiply", "numpoly.where", "numpoly.zeros", "numpoly.prod",
                                          "numpoly._prod"],
                explanation="poly_divmod (real source) is proved at the level of abstract polynomial values in a commutative ring: "
                "loop invariant dividend0 = quotient*divisor0 + dividend_ for every element (initiation from numpoly.zeros and the "
                "aligned operands, preservation through add/subtract/where/multiply and the re-alignment, exit through the "
                "`candidates is None` break), divisor value unchanged, common broadcast shape, operands kept aligned (precondition "
                "of get_division_candidate), the forced-zero write targets a fresh array and an existing field; postcondition: the "
                "identity relative to the broadcast arguments; 0-d operands: recursion on the raveled aligned operands, element 0 "
                "of each result. poly_divide / poly_remainder are proved to return the quotient / remainder component of "
                "poly_divmod on the same operands in order; the operator methods' routing is proved under C08. Termination, and "
                "the clauses resting on it (constant divisors, exact multiples, degree of the remainder), rounding: bounded run-time "
                "checks (conc/checks_c05.py: exact-arithmetic oracle, iteration counter, state-repeat detection).",
                trusted_base=COMMON_TRUSTED + ["get_division_candidate, multiply, where, zeros, prod (literal axis) and _prod are proved from "
                                               "their source (the clauses the loop uses); the monomial reading of "
                                               "prod(indeterminants ** row, 0) combines them with the definition of pmono (B11)",
                                               "contracts of add/subtract (C01), align_polynomials (C04), __getitem__ (C09)"],
                assumptions=["PV is a commutative ring (ring axioms as hypotheses; MvPolynomial in Mathlib)",
                             "B8: the forced-zero write does not change the polynomial denoted (exact arithmetic)", "A1"],
                not_decided=["termination (bounded)", "constant divisor / exact multiple / degree clauses (bounded)",
                             "floating-point rounding (bounded)", "numpy scalar on the left of / % divmod: open finding"]),
    "C06": dict(level="other", contracts=["numpoly.derivative", "numpoly.gradient", "numpoly.hessian"],
                explanation="derivative (real source) is proved for any number of terms and indeterminates, symbolic options, the variable "
                "designated by position, by name or by an indeterminate polynomial (any stored polynomial with exactly one term of non-zero "
                "coefficient, x_d**1 - further stored terms, the constant one included, may be all-zero), one or two successive variables "
                "(name+name, position+name, position+position; a position designates the same indeterminate of the ARGUMENT in every step, "
                "whatever the alignment in between does to the order of the names): at the point "
                "where the differentiated attributes are handed to the constructor the obligations establish that they are EXACTLY "
                "the terms involving the variable, each with the exponent of that variable lowered by one (unsigned 32-bit "
                "arithmetic modelled with wrap-around: no wrap can occur) and the coefficient multiplied by the old exponent, or the "
                "single zero term when no term involves it; that the constructor's preconditions hold (storable exponents, no "
                "duplicate rows, every coefficient defined); that nothing but ValueError for an unknown name is raised under any "
                "option setting; that the in-place decrement hits a fresh array. The step from these facts to 'the formal partial "
                "derivative of the denoted polynomial' is bridge B7 (definition of pdiff at coefficient level); successive variables "
                "compose through the proved contract of align_polynomials. gradient is proved: shape (D,)+p.shape and, for an "
                "arbitrary position d, slice d is derivative(p, names[d])[newaxis] stacked along axis 0, so it holds the partial by "
                "the d-th indeterminate (stacking contract of concatenate over a list of symbolic length, B6). hessian is proved from its "
                "source through the `with` statement: both gradients are taken while retain_names=True is in force (contract of "
                "global_options as a context manager, proved under C14), the result is the gradient of the gradient of the operand, "
                "its shape is (D, D)+p.shape, entry (d1, d2) holds the second partial by the d2-th then the d1-th indeterminate, and "
                "the caller's option set is back in place on exit; that the inner gradient keeps the operand's indeterminate tuple "
                "under retain_names=True is assumption N1 (bounded clause hessian.* checks it). Linearity, product "
                "rule and commuting partials on concrete polynomials: bounded run-time checks (conc/checks_c06.py) under all 16 "
                "settings of the boolean options.",
                trusted_base=COMMON_TRUSTED + ["contracts of polynomial_from_attributes (C03) and align_polynomials (C04)",
                                               "numpy axioms: boolean row masks, column read/write of an integer matrix, transpose, scalar*array"],
                assumptions=["B7 (coefficient-level definition of the formal partial derivative)", "A1",
                             "N1: with retain_names=True gradient(p) has p's indeterminate tuple (bounded only)"],
                not_decided=["negative positions (bounded only)",
                             "ring-level laws of pdiff (linearity, product rule, symmetry): facts of MvPolynomial.pderiv, not re-proved"]),
    "C09": dict(level="other", contracts=["numpoly.ndpoly.__getitem__", "numpoly.ndpoly.__iter__", "numpoly.ndpoly.__array_finalize__", "numpoly.full",
                                          "numpoly.full_like"] + [
                    f"numpoly.{f}" for f in ("reshape", "transpose", "repeat", "tile", "expand_dims", "diag", "diagonal", "atleast_1d",
                                             "atleast_2d", "atleast_3d", "split", "array_split", "hsplit", "vsplit", "dsplit",
                                             "concatenate", "stack", "hstack", "vstack", "dstack", "moveaxis", "where", "choose",
                                             "broadcast_arrays", "zeros", "ones", "zeros_like", "ones_like")],
                explanation="ndpoly.__getitem__ (any index expression) rebuilds the result from the polynomial's own rows and names "
                "with EVERY coefficient column indexed by the same index. The 15 raw movers (reshape, transpose, repeat, tile, "
                "expand_dims, atleast_1/2/3d, diag, diagonal, split family) are proved to hand the whole raw storage of their operand "
                "to the numpy function of the same name, forward every user parameter to the numpy parameter of the same name using "
                "only keywords/positions the INSTALLED numpy accepts (signature read from the installed numpy each run), and "
                "rebuild with the operand's names. The 5 column-wise joins are proved to align exponents, apply the numpy namesake "
                "to the t-th columns of all operands in order for every term t with the axis forwarded, and build from the aligned "
                "rows/names. moveaxis goes through simple_dispatch (every column, parameters forwarded). That numpy's movers/joins "
                "are dtype-agnostic and that moving all columns with one index map moves whole polynomial elements is bridge B6 "
                "(trusted). where (a column-wise select with ONE condition), full / full_like, choose (numpy.choose on the whole raw "
                "storage of the choices, selection array and mode forwarded) and broadcast_arrays (ONE numpy.broadcast_arrays call on "
                "all raw storages in order, piece k rebuilt under operand k's names) are proved from their source as well, and so is "
                "iteration (__iter__: len(self) items, item k built from the polynomial's own rows and names with every coefficient "
                "column indexed at k along the first axis; TypeError for a 0-d array). "
                "A list of choice arrays, ravel/flatten/.T and the numpy-level element "
                "placement: bounded run-time contracts (conc/checks_c09.py, numpy on an object array of model polynomials).",
                trusted_base=COMMON_TRUSTED + ["numpy movers/joins/indexing are dtype-agnostic (index map depends on shapes and arguments only)",
                                               "polynomial/aspolynomial of a raw structured array plus names decodes every field "
                                               "(proved: contracts/polynomial.py, codec under C20)",
                                               "inspect.signature of the installed numpy (asked from /venv/bin/python each run)"],
                assumptions=["B6 (column-wise / record-wise moves with one index map move whole polynomial elements)"],
                not_decided=["choose with a list of choice arrays (bounded only)",
                             "which element numpy places where (numpy semantics: bounded conformance)"]),
    "C10": dict(level="other", contracts=["numpoly.simple_dispatch", "numpoly.sum", "numpoly.cumsum", "numpoly.mean", "numpoly.diff",
                                          "numpoly.multiply", "numpoly._prod", "numpoly.prod", "numpoly.outer"],
                statics=[statics.instance_state_obligations],
                explanation="sum/cumsum/mean are proved to apply numpy.sum/cumsum/mean to every coefficient column of the operand with "
                "axis/dtype/keepdims forwarded unchanged (contract of simple_dispatch: every column written, rows/names kept); that a "
                "linear column-wise reduction denotes the finite sum of the elements is bridge B5. diff is proved: the operands "
                "(a, append, prepend) are aligned to common terms, numpy.diff is applied to the columns of ONE term of each with n and "
                "axis forwarded, for every term (first iteration peeled: allocation; loop invariant: definedness), result dtype = "
                "numpy's promotion. multiply (on which prod, outer, inner, matmul, det are built) is proved at coefficient level "
                "(C01); _prod, the core of prod, is proved for axis 0 and 1 to return the product of ALL slices along the axis, each "
                "once, in index order (loop invariant over the multiply contract). prod itself is proved, for a literal axis 0 or 1, to be "
                "exactly one application of _prod to the operand along the requested axis (and, with keepdims, that result with the "
                "axis put back). outer is proved: shape (a.size, b.size), element (i, j) = a.ravel()[i] * b.ravel()[j], over the contracts of "
                "align_exponents, __getitem__ and multiply and numpy's axioms for ravel, [:, newaxis] and column-against-row broadcasting. "
                "prod with axis=None / negative axes / several axes, ediff1d, inner, "
                "matmul, det (axis/index algebra): bounded run-time checks "
                "(conc/checks_c10.py).",
                trusted_base=COMMON_TRUSTED),
    "C11": dict(level="other", contracts=["numpoly.isconstant", "numpoly.tonumpy", "numpoly.absolute", "numpoly.ceil", "numpoly.floor",
                                          "numpoly.rint", "numpoly.around", "numpoly.true_divide", "numpoly.floor_divide",
                                          "numpoly.remainder", "numpoly.divmod", "numpoly.any", "numpoly.all", "numpoly.count_nonzero",
                                          "numpoly.nonzero", "numpoly.logical_and", "numpoly.logical_or", "numpoly.isclose", "numpoly.allclose"],
                explanation="isconstant/tonumpy (on which every 'constant' clause rests) are proved. The numeric division family is "
                "proved from its source: true_divide/floor_divide raise FeatureNotSupported exactly for a non-constant divisor and "
                "otherwise fill EVERY coefficient column with numpy's quotient by the divisor's value (loop invariant, definedness); "
                "remainder/divmod raise exactly when an operand is not constant and otherwise return polynomial(numpy.f(x1.tonumpy(), "
                "x2.tonumpy(), where=...)). any/all/count_nonzero/nonzero/logical_and/logical_or are proved to apply the numpy "
                "namesake to the non-zero mask of each operand (mask[i] <=> element i is not the zero polynomial; for constants: "
                "numpy's truth value) with every parameter forwarded. isclose/allclose are proved to apply numpy's closeness test to every coefficient of "
                "the aligned operands, `a` against the reference `b` (the test is not symmetric), with rtol/atol/equal_nan forwarded "
                "(loop invariants; allclose's early return). absolute/ceil/floor/rint/around go through simple_dispatch. "
                "The rest of the catalogue of mirrored functions on constant arrays (argmax/amax, isclose/allclose, reductions, "
                "shape functions ...) is a bounded run-time check against numpy on the plain arrays (conc/checks_c11.py).",
                trusted_base=COMMON_TRUSTED + ["numpy axioms: any over the stacked coefficients, ufuncs with out=, common_type"],
                assumptions=["A1; floor division uninterpreted", "out=None, where=True for true_divide/floor_divide"],
                not_decided=["numeric values of the mirrored catalogue on constants (bounded)"]),
    "C12": dict(level="other", contracts=["numpoly.polynomial_from_attributes", "numpoly.clean_attributes", "numpoly.ndpoly.astype",
                                          "numpoly.polynomial", "numpoly.aspolynomial", "numpoly.multiply", "numpoly.true_divide",
                                          "numpoly.floor_divide", "numpoly.full", "numpoly.full_like", "numpoly.result_type", "numpoly.common_type",
                                          "numpoly.zeros_like", "numpoly.ones_like"],
                explanation="Definedness ghost state: polynomial_from_attributes (through which every constructor and operation "
                "returns) is proved to write every coefficient on every path (compiled setter only under its precondition, numpy "
                "fallback, empty case) and to carry the requested dtype; clean_attributes requires defined input. The dtype "
                "catalogue (14 dtypes, casts, promotion) is a bounded run-time check with 0xA5-poisoned buffers.",
                trusted_base=COMMON_TRUSTED + ["assumed contract of ndpoly.__new__ and of the compiled cfrom_attributes"]),
    "C19": dict(level="other", contracts=["numpoly.lead_coefficient", "numpoly.lead_exponent", "numpoly.isconstant", "numpoly.tonumpy",
                                          "numpoly.glexsort", "numpoly.ndpoly.todict", "numpoly.decompose", "numpoly.set_dimensions"],
                explanation="lead_exponent/lead_coefficient (largest non-zero term under the symbolic (graded, reverse) order, zeros "
                "for the zero polynomial), isconstant, tonumpy (raises exactly for non-constants), todict are proved; decompose: shape "
                "(N,)+shape and, for an arbitrary t, slice t is built from the single exponent row t and coefficient column t with "
                "nothing pruned; set_dimensions with fewer (or as many) indeterminates: exactly the terms free of the dropped "
                "indeterminates survive, with their kept exponents and coefficients, first k names, dtype kept, zero polynomial only "
                "when nothing survives. Adding indeterminates, sortable_proxy, argmax/argmin/amax/amin: bounded run-time checks "
                "(conc/checks_c19.py).",
                trusted_base=COMMON_TRUSTED + ["glexsort contract (proved, C18)", "ndpoly accessor model"]),
    "C20": dict(level="other", contracts=["numpoly.ndpoly", "numpoly.ndpoly.exponents", "numpoly.derivative", "numpoly.multiply",
                                          "numpoly.power"],
                explanation="The storage-key codec is proved from the real source of baseclass.py, with KEY_OFFSET read from the class "
                "body on every run: ndpoly.__new__ stores row t under the field name whose code points are exactly E(t,d)+KEY_OFFSET "
                "(no wrap-around in uint32, no NUL; valid unicode for one-character keys - numpy accepts larger code points in longer "
                "keys and the row is then stored exactly as well), different rows get different field names, and for ARBITRARY integer "
                "exponents it either does that or raises ValueError/SystemError for a real reason (an entry outside the storable range "
                "or a repeated row) - a different monomial is never stored; the `exponents` property decodes exactly the stored rows "
                "(decode(encode(row)) == row, no truncation). All contracts above it are phrased on exponent VALUES with no bound "
                "below the storable range, so construction, alignment, differentiation (derivative: storability of the lowered "
                "exponents is an obligation) and pickling carry any storable exponent. multiply: the result rows are exactly the exponent "
                "SUMS (computed in int64, range-tested by the constructor), the key the fallback loop computes in uint32 arithmetic is "
                "proved to be the name of the field holding the sum row, and the compiled kernel is used only when every code point "
                "fits one byte - so (c*q0**a)*(d*q0**b) has the single exponent a+b with coefficient c*d for ALL storable a, b; powers "
                "by the loop invariant over multiply. Evaluation at large exponents, the compiled kernel itself and text I/O: "
                "exhaustive / bounded run-time checks (conc/checks_c20.py).",
                trusted_base=COMMON_TRUSTED + ["numpy axioms of engine/codecmodel.py: uint32 wrap-around, 'U<w>' <-> uint32 views, "
                                               "astype padding, numpy.dtype field-name rules; a code point above 0x10FFFF raises in a one-character name and is accepted OR raises in a longer one (observed on numpy 2.5.3: accepted)",
                                               "assumed contract of numpoly.symbols (default names)"],
                assumptions=["A3 numpy axioms (conformance: the exhaustive single-exponent sweep of the bounded part)"],
                not_decided=["compiled cmultiply kernel (assumed; exhaustive products to exponent sum 600 at run time)", "savetxt/loadtxt of keys (bounded)"]),
    "C13": dict(level="other", contracts=["numpoly.ndpoly.__reduce__", "numpoly.ndpoly.__array_finalize__",
                                          "numpoly.polynomial_from_attributes"],
                statics=[statics.instance_state_obligations],
                explanation="__reduce__ (real source) is proved to return polynomial_from_attributes together with the polynomial's "
                "own exponents, coefficients, names, dtype and allocation and retain_coefficients=False; the round-trip lemma applies the "
                "proved contract of polynomial_from_attributes to exactly that tuple under a symbolic option map: reconstruction "
                "cannot fail, shape, dtype and value are the original's, the surviving terms are exactly the non-zero or constant "
                "terms with their coefficients, names are unchanged when retain_names is on. __array_finalize__ (used by .copy() and "
                "every numpy-made view) is proved to inherit keys, names, allocation and dtype from the parent. That pickle/copy/"
                "deepcopy call __reduce__ and re-apply the tuple is CPython's protocol (trusted). savetxt/loadtxt (text, regex, "
                "encodings, numpy I/O) have no contract within the solver's reach: bounded run-time check (conc/checks_c13.py).",
                trusted_base=COMMON_TRUSTED + ["pickle/copy protocol of CPython and numpy's array pickling", "contract of polynomial_from_attributes (proved under C03)"],
                assumptions=["B1 (abstract value depends only on the sparse coefficient map)"],
                not_decided=["savetxt/loadtxt round trip (bounded only)", ".copy() itself is numpy's ndarray.copy (trusted) + __array_finalize__ (proved)"]),
    "C16": dict(level="other", contracts=["numpoly.glexsort", "numpoly.array_repr._to_string", "numpoly.array_repr.to_string"],
                statics=[display.static_obligations, statics.instance_state_obligations],
                explanation="Order clause: static obligations (AST of array_repr.py, every run) establish that _to_string visits the "
                "terms in the order numpoly.glexsort returns for the exponent rows with graded/reverse taken from the display_graded/"
                "display_reverse options of the current option map, reversed exactly when display_inverse is set, one chunk appended "
                "per visited term and the chunks joined in list order; glexsort's contract (a permutation sorting in (graded)(reverse) "
                "lexicographic order) is re-posed here. Denotation clause, for ONE polynomial (the unit every array display is made "
                "of): _to_string is executed symbolically for any number of terms, arbitrary real coefficients and exponents, arbitrary "
                "display option strings, 1 and 2 indeterminates, suppress_small off or symbolic; at every `output.append` the chunk "
                "(a sequence of tokens: literal signs, str(coefficient), names, option strings, str(exponent)) is read back by an "
                "independent token-level reader and the obligations say: the number printed - or the elided 1 / -1 - IS the coefficient "
                "of the visited term; every indeterminate occurs at most once and with exactly its stored exponent (absent iff 0); only "
                "the polynomial's names occur; a chunk is never empty; every chunk after the first starts with a sign and '+' is put "
                "only before a non-negative number; a term is left out only if its coefficient is zero or (on request) below the "
                "suppression threshold; the visiting order is a permutation of all stored terms. to_string (0-d) is proved to take a missing "
                "precision / suppress_small from numpy's print options, to join exactly the chunks of _to_string for this polynomial "
                "without separator, and to print the zero of the dtype when there is no chunk - reading the polynomial only. What the characters of str(number) "
                "are, numpy.array2string for arrays, complex coefficients and to_sympy: bounded run-time check with an independent "
                "character-level parser (conc/checks_c16.py).", trusted_base=COMMON_TRUSTED + [
                    "text axioms of engine/textmodel.py: str(c) is never '', '+' or '-' and starts with '-' exactly for c < 0; names are identifiers"],
                assumptions=["A1 (real coefficients)", "token-level reading: option strings act as separators (characters: bounded check)",
                             "indeterminate counts 1 and 2 enumerated"],
                not_decided=["characters of str(number) and of numpy.array2string (array layout), complex / NaN coefficients, to_sympy (bounded only)"]),
    "C03": dict(
        level="other",
        contracts=["numpoly.remove_redundant_coefficients", "numpoly.remove_redundant_names", "numpoly.postprocess_attributes",
                   "numpoly.polynomial_from_attributes", "numpoly.clean_attributes", "numpoly.ndpoly", "numpoly.ndpoly.exponents",
                   "numpoly.ndpoly.coefficients", "numpoly.ndpoly.values", "numpoly.ndpoly.__array_finalize__", "numpoly.ndpoly.todict",
                   "numpoly.polynomial", "numpoly.aspolynomial"],
        statics=[statics.instance_state_obligations],
        trusted_base=COMMON_TRUSTED + [
            "ndpoly.__new__ and the accessors .exponents/.coefficients/.values are verified from their source (contracts/codec.py) "
            "against the model engine/polymodel.py uses for them at call sites; numpy axioms of engine/codecmodel.py",
            "assumed contract of the compiled numpoly.cfrom_attributes (Cython, cannot be rebuilt here)",
            "numpy axioms: asarray, any/all, zeros/zeros_like, unique(return_counts), boolean column masks, tolist (engine/polymodel.py)"],
        assumptions=["A1 casts are identity on values", "B1: the abstract value of a polynomial depends only on its sparse "
                     "coefficient map (dropping all-zero terms / unused names preserves it)",
                     "input kinds proved: exponent matrix + list of equally shaped arrays, names None / tuple / ndpoly; "
                     "str names, dict/sympy/nested-list construction: bounded only"],
        explanation="remove_redundant_coefficients / remove_redundant_names: exact selection rule (a term is kept iff it has a "
                    "non-zero coefficient or is the constant term; a name iff some term involves it; fallbacks) proved for any "
                    "number of terms/names. postprocess_attributes: raises PolynomialConstructionError exactly for the documented "
                    "reasons (a repeated exponent among the rows as given counts whatever its coefficient: accepted attributes have "
                    "pairwise distinct rows before and after pruning), prunes as selected by the retain arguments or (symbolic) options. "
                    "polynomial_from_attributes: result "
                    "is fresh, well-formed (WF), carries the post-processed rows/names, requested dtype, every coefficient written "
                    "(both compiled and numpy path, and the empty case). clean_attributes: cannot fail on a WF polynomial under any "
                    "option setting and keeps the abstract value. Regeneration: polynomial(todict()) and polynomial(raw structured view, "
                    "names) are proved to hand exactly the stored exponent rows (field names decoded with the KEY_OFFSET they were "
                    "encoded with, every field, in field order) and coefficient columns to polynomial_from_attributes, and a requested dtype "
                    "reaches the constructor for every kind of input; equality of the "
                    "regenerated object under == and WF of the results of the whole public API: bounded run-time checks.",
        not_decided=["compose_polynomial_array (nested lists of polynomials), sympy input (bounded)",
                     "WF of the results of every public function (bounded catalogue)"],
    ),
    "C07": dict(
        level="other",
        contracts=["numpoly.greater", "numpoly.greater_equal", "numpoly.less", "numpoly.less_equal",
                   "numpoly.maximum", "numpoly.minimum", "numpoly.equal", "numpoly.not_equal", "numpoly.glexsort", "numpoly.where"],
        lemmas=[order_lemmas.obligations],
        trusted_base=COMMON_TRUSTED + [
            "contracts of align_polynomials / align_exponents (proved under C04)",
            "numpoly.where: proved from its source (one mask for every column); value level through bridge B6",
            "assumed contracts of ndpoly.coefficients / .exponents / .values / .ravel (baseclass model, engine/polymodel.py)",
            "numpy ufunc / masked-assignment / zeros / ones axioms (engine/polymodel.py)"],
        assumptions=["A1: coefficients are mathematical reals (no NaN, no complex order)",
                     "the order laws are proved on the specification of the contracts for operands sharing exponent rows; "
                     "that pairwise alignment does not change the order (adding all-zero rows) is part of align's contract (C04)"],
        explanation="greater/greater_equal/less/less_equal/equal: loop invariant with ghost `last differing term`, postcondition = "
                    "the documented order on the aligned operands, proved for arrays of >=1 dimensions with and without out=; "
                    "the 0-d branch is proved to recurse into its own contract on raveled operands (value clause of that branch: "
                    "bounded only). maximum/minimum: same invariant + where() contract. not_equal: complement of equal (peeled loop). "
                    "Order laws (trichotomy, complements, antisymmetry, transitivity, constants) are lemmas over the contract's spec. "
                    "All under symbolic sort options. Bounded run-time cross-check of the same clauses.",
        not_decided=["complex / NaN coefficients", "value clause of the 0-d recursion (bounded only)"],
    ),
    "C18": dict(
        level="other",
        contracts=["numpoly.glexsort", "numpoly.bindex", "numpoly.monomial"],
        statics=[statics.module_state_obligations],
        trusted_base=COMMON_TRUSTED + ["numpy.lexsort / numpy.argsort(kind='stable') / fancy indexing axioms (engine/sortmodel.py)",
                                       "order axioms for lexle/meq/mrev (conformance-tested against conc/model.col_key)"],
        assumptions=["A3: numpy axioms (lexsort stable, last key primary; argsort stable only with kind='stable')"],
        explanation="glexsort: contract proved for all key matrices (any number of rows/columns, symbolic flags). bindex: the "
                    "ordering letters are decoded exactly and every other parameter is forwarded to glexindex. monomial (dimensions "
                    "given as names): the exponent rows of the result ARE the index array glexindex returns for the forwarded "
                    "start/stop/graded/reverse/cross_truncation and dimensions = number of names, under the given names, one array "
                    "element per row, coefficient column t the t-th unit vector with every entry written (loop invariant) - so "
                    "element k is the monomial with row k. glexindex/_glexindex and cross_truncate themselves: index-grid algebra "
                    "and a floating-point L_q norm, outside the VC generator's reach -> bounded-exhaustive stand-in over the "
                    "stated grid, labelled bounded; their contract (pairwise different storable rows) is assumed by monomial.",
        not_decided=["cross_truncate floating-point norm (bounded only)", "_glexindex grid construction (bounded only)"],
    ),
}
