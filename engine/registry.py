"""Registry of call models: Python builtins, numpy axioms, numpoly contracts."""
from __future__ import annotations
import z3
from . import values as V
from .values import U
from .logic import simplify_bool


class Registry:
    def __init__(self):
        self.fn = {}
        self.builtins = {}
        self.methods = {}
        self.modules = {"numpy", "numpoly", "numpy.linalg", "numpy.char", "numpy.typing", "numpoly.align",
                        "numpoly.construct", "numpoly.ndpoly", "numpy.ndarray"}
        self.types = {"numpoly.ndpoly", "numpy.ndarray", "numpy.generic", "numpoly.FeatureNotSupported",
                      "numpoly.PolynomialConstructionError", "numpy.uint32", "numpy.dtype"}
        self.constants = {"numpy.newaxis": None, "numpy.inf": float("inf"), "numpoly.ndpoly.KEY_OFFSET": "read from numpoly/baseclass.py on every run (engine.values._constant)"}
        self.modules.discard("numpoly.ndpoly")
        self.modules.discard("numpy.ndarray")
        self.used = set()          # names of axioms / contracts actually applied (for evidence)
        install_builtins(self)
        # logging is effect-free on values (extraction drops logger.* statements; the logger object itself is opaque)
        self.fn["logging.getLogger"] = lambda ex, args, kw, node: V.ModuleConst("logging", "logger", None)

    def axiom(self, name):
        def deco(f):
            def wrapped(ex, args, kw, node, _f=f, _n=name):
                ex.reg.used.add(_n)
                return _f(ex, args, kw, node)
            self.fn[name] = wrapped
            return f
        return deco

    def builtin(self, name):
        def deco(f):
            self.builtins[name] = f
            return f
        return deco

    def method(self, tname, attr):
        def deco(f):
            self.methods[(tname, attr)] = f
            return f
        return deco


TYPE_TESTS = {}


def type_test(name):
    def deco(f):
        TYPE_TESTS[name] = f
        return f
    return deco


def isinstance_(ex, v, t, node):
    if isinstance(t, tuple):
        rs = [isinstance_(ex, v, x, node) for x in t]
        return any(rs)
    name = t.name if isinstance(t, (V.TypeRef, V.BuiltinRef, V.FnRef)) else None
    if name is None:
        raise U("isinstance with unknown type", node)
    if hasattr(v, "sx_isinstance"):
        r = v.sx_isinstance(ex, name)
        if r is not None:
            return r
    if name == "str":
        from .logic import Name
        return isinstance(v, (str, V.SymStr)) or (isinstance(v, z3.ExprRef) and v.sort() == Name)
    if name == "int":
        return (isinstance(v, int) or (isinstance(v, z3.ArithRef) and v.is_int()))
    if name == "bool":
        return isinstance(v, (bool, z3.BoolRef))
    if name == "float":
        return isinstance(v, float) or (isinstance(v, z3.ArithRef) and v.is_real())
    if name == "dict":
        return isinstance(v, dict) or getattr(v, "is_dict", False)
    if name == "tuple":
        return isinstance(v, tuple)
    if name == "list":
        return isinstance(v, list)
    if name in ("bytes",):
        return False
    if name in ("numpy.integer", "numpy.floating", "numpy.number", "numpy.bool_") and isinstance(v, (int, float, bool, str, tuple, list, type(None))):
        return False                  # a Python literal is not a numpy scalar
    if name in ("numpoly.ndpoly", "numpy.ndarray", "numpy.generic"):
        return False
    raise U(f"isinstance(_, {name}) on {type(v).__name__}", node)


def install_builtins(reg: Registry):
    b = reg.builtin

    @b("len")
    def _len(ex, args, kw, node):
        return V.length(ex, args[0], node)

    @b("isinstance")
    def _isinstance(ex, args, kw, node):
        return isinstance_(ex, args[0], args[1], node)

    @b("range")
    def _range(ex, args, kw, node):
        if all(isinstance(a, int) for a in args):
            return list(range(*args))
        if len(args) == 1:
            n = args[0]
            if isinstance(n, z3.ArithRef) and n.is_real():
                n = z3.simplify(z3.ToInt(n))          # an integer-valued array element (numpy int scalar)
            return V.Seq(z3.If(n >= 0, n, 0), lambda k: k)
        if len(args) == 2:
            lo, hi = args
            return V.Seq(z3.If(hi >= lo, hi - lo, 0), lambda k: k + lo)
        raise U("range with symbolic step", node)

    @b("zip")
    def _zip(ex, args, kw, node):
        if len(args) == 1 and isinstance(args[0], V.StarSeq):
            seq = args[0].seq
            probe = seq.item(z3.Int(ex.ctx.fresh("probe")))
            if not isinstance(probe, tuple):
                raise U("zip(*seq) of non-tuple items", node)
            return V.Unzipped(seq, len(probe))
        concs = [V.try_concrete_iter(ex, a) for a in args]
        if all(c is not None for c in concs):
            return list(zip(*concs))
        seqs = []
        for a, c in zip(args, concs):
            if c is not None:
                seqs.append(V.Seq(len(c), (lambda k, c=c: _pick(c, k))))
            else:
                seqs.append(V.as_seq(ex, a, node))
        n = seqs[0].n
        for s in seqs[1:]:
            n = _min(n, s.n)
        return V.Seq(n, lambda k: tuple(s.item(k) for s in seqs))

    @b("enumerate")
    def _enumerate(ex, args, kw, node):
        c = V.try_concrete_iter(ex, args[0])
        if c is not None:
            return list(enumerate(c))
        s = V.as_seq(ex, args[0], node)
        return V.Seq(s.n, lambda k: (k, s.item(k)))

    @b("list")
    def _list(ex, args, kw, node):
        if not args:
            return []
        if isinstance(args[0], V.Unzipped):
            return args[0]
        c = V.try_concrete_iter(ex, args[0])
        if c is not None:
            return list(c)
        s = V.as_seq(ex, args[0], node)
        out = V.Seq(s.n, s.item, "list")
        if hasattr(s, "source"):
            out.source = s.source          # list(poly.coefficients): the same arrays
        return out

    @b("iter")
    def _iter(ex, args, kw, node):
        if len(args) == 1 and isinstance(args[0], (V.Seq, list, tuple)):
            return args[0]              # an iterator over the sequence: consumed as the sequence itself
        raise U("iter() of this value", node)

    @b("tuple")
    def _tuple(ex, args, kw, node):
        if not args:
            return ()
        if hasattr(args[0], "sx_tuple"):
            return args[0].sx_tuple(ex, node)
        c = V.try_concrete_iter(ex, args[0])
        if c is not None:
            return tuple(c)
        s = V.as_seq(ex, args[0], node)
        return V.Seq(s.n, s.item, "tuple")

    @b("reversed")
    def _reversed(ex, args, kw, node):
        c = V.try_concrete_iter(ex, args[0])
        if c is not None:
            return list(reversed(c))
        s = V.as_seq(ex, args[0], node)
        return V.Seq(s.n, lambda k: s.item(s.n - 1 - k))

    @b("all")
    def _all(ex, args, kw, node):
        c = V.try_concrete_iter(ex, args[0])
        if c is not None:
            return V.and_all([V.truth(ex, x) for x in c])
        s = V.as_seq(ex, args[0], node)
        return ex.ctx.forall_range(0, s.n, lambda k: _asbool(V.truth(ex, s.item(k))))

    @b("any")
    def _any(ex, args, kw, node):
        if hasattr(args[0], "sx_any"):
            return args[0].sx_any(ex, node)
        c = V.try_concrete_iter(ex, args[0])
        if c is not None:
            ts = [simplify_bool(V.truth(ex, x)) for x in c]
            if any(t is True for t in ts):
                return True
            ts = [t for t in ts if t is not False]
            if not ts:
                return False
            return z3.Or(*ts) if len(ts) > 1 else ts[0]
        s = V.as_seq(ex, args[0], node)
        return z3.Not(ex.ctx.forall_range(0, s.n, lambda k: z3.Not(_asbool(V.truth(ex, s.item(k))))))

    @b("bool")
    def _bool(ex, args, kw, node):
        if not args:
            return False
        if len(args) != 1 or kw:
            raise U("bool() with these arguments", node)
        return V.truth(ex, args[0])         # the truth value as Python defines it for the kind of value (bool, number, sequence, array)

    @b("int")
    def _int(ex, args, kw, node):
        v = args[0]
        if isinstance(v, bool):
            return int(v)
        if isinstance(v, z3.BoolRef):
            return z3.If(v, 1, 0)
        if isinstance(v, (int, float, str)):
            return int(v)
        if isinstance(v, z3.ArithRef) and v.is_int():
            return v
        if hasattr(v, "sx_int"):
            return v.sx_int(ex, node)
        raise U("int() of symbolic value", node)

    @b("str")
    def _str(ex, args, kw, node):
        v = args[0]
        if isinstance(v, str):
            return v
        if isinstance(v, int):
            return str(v)
        if hasattr(v, "sx_str"):
            return v.sx_str(ex, node)
        from .logic import Name
        if isinstance(v, z3.ExprRef) and v.sort() == Name:
            return v                      # an indeterminate name is a string already
        return V.SymStr(("str", v))

    @b("max")
    def _max(ex, args, kw, node):
        vals = args if len(args) > 1 else V.iterate(ex, args[0], node)
        if all(isinstance(v, (int, float)) for v in vals):
            return max(vals)
        out = vals[0]
        for v in vals[1:]:
            out = z3.If(v > out, v, out)
        return out

    @b("min")
    def _min_(ex, args, kw, node):
        vals = args if len(args) > 1 else V.iterate(ex, args[0], node)
        if all(isinstance(v, (int, float)) for v in vals):
            return min(vals)
        out = vals[0]
        for v in vals[1:]:
            out = z3.If(v < out, v, out)
        return out

    @b("sum")
    def _sum(ex, args, kw, node):
        vals = V.iterate(ex, args[0], node)
        out = 0
        for v in vals:
            out = V.binop(ex, "Add", out, v, node)
        return out

    @b("abs")
    def _abs(ex, args, kw, node):
        v = args[0]
        if isinstance(v, (int, float)):
            return abs(v)
        if hasattr(v, "sx_abs"):
            return v.sx_abs(ex, node)
        return z3.If(v >= 0, v, -v)

    @b("dict")
    def _dict(ex, args, kw, node):
        if not args:
            return dict(kw)
        if hasattr(args[0], "sx_dict"):
            return args[0].sx_dict(ex, node)
        c = V.try_concrete_iter(ex, args[0])
        if c is not None:
            try:
                return {k: v for k, v in c}
            except TypeError:
                pass
        hook = getattr(ex.reg, "make_dict", None)
        if hook:
            return hook(ex, V.as_seq(ex, args[0], node), node)
        raise U("dict() of symbolic content", node)

    @b("slice")
    def _slice(ex, args, kw, node):
        return slice(*args)

    @b("set")
    def _set(ex, args, kw, node):
        if not args:
            factory = getattr(ex, "empty_set_factory", None)      # a contract may ask for a symbolic set (keys seen so far)
            return factory(ex) if factory else V.PySet([])
        if hasattr(args[0], "sx_set"):
            return args[0].sx_set(ex, node)
        return V.PySet(V.iterate(ex, args[0], node))

    @b("sorted")
    def _sorted(ex, args, kw, node):
        if hasattr(args[0], "sx_sorted"):
            return args[0].sx_sorted(ex, kw, node)
        c = V.try_concrete_iter(ex, args[0])
        if c is not None and V._all_concrete(c) and not kw:
            return sorted(c)
        raise U("sorted of symbolic content", node)

    @b("hasattr")
    def _hasattr(ex, args, kw, node):
        if hasattr(args[0], "sx_hasattr"):
            return args[0].sx_hasattr(ex, args[1])
        return False

    @b("getattr")
    def _getattr(ex, args, kw, node):
        return V.getattr_(ex, args[0], args[1], node)

    @b("float")
    def _float(ex, args, kw, node):
        v = args[0]
        if isinstance(v, (int, float)):
            return float(v)
        if hasattr(v, "sx_float"):
            return v.sx_float(ex, node)
        if isinstance(v, z3.ArithRef):
            return z3.ToReal(v) if v.is_int() else v
        raise U("float() of symbolic value", node)

    # --- methods of concrete python containers
    m = reg.method

    @m("list", "append")
    def _append(ex, obj, args, kw, node):
        obj.append(args[0])

    @m("list", "insert")
    def _insert(ex, obj, args, kw, node):
        obj.insert(args[0], args[1])

    @m("list", "extend")
    def _extend(ex, obj, args, kw, node):
        obj.extend(V.iterate(ex, args[0], node))

    @m("tuple", "index")
    def _tindex(ex, obj, args, kw, node):
        if V._all_concrete(obj) and V._all_concrete(args[0]):
            if args[0] in obj:
                return obj.index(args[0])
            from .sx import RaiseSig
            raise RaiseSig("ValueError", node)
        raise U("tuple.index on symbolic content", node)

    @m("dict", "get")
    def _dget(ex, obj, args, kw, node):
        k = args[0]
        if V._all_concrete(k):
            return obj.get(k, args[1] if len(args) > 1 else None)
        raise U("dict.get with symbolic key", node)

    @m("dict", "items")
    def _ditems(ex, obj, args, kw, node):
        return list(obj.items())

    @m("dict", "values")
    def _dvalues(ex, obj, args, kw, node):
        return list(obj.values())

    @m("dict", "keys")
    def _dkeys(ex, obj, args, kw, node):
        return list(obj.keys())

    @m("dict", "copy")
    def _dcopy(ex, obj, args, kw, node):
        return dict(obj)

    @m("dict", "update")
    def _dupdate(ex, obj, args, kw, node):
        for a in args:
            if not isinstance(a, dict):
                raise U("dict.update with symbolic mapping", node)
            obj.update(a)
        if "**" in kw:
            raise U("dict.update with symbolic kwargs", node)
        obj.update(kw)

    @m("str", "upper")
    def _upper(ex, obj, args, kw, node):
        return obj.upper()

    @m("str", "join")
    def _join(ex, obj, args, kw, node):
        if len(args) == 1 and hasattr(args[0], "sx_joined"):
            return args[0].sx_joined(ex, obj, node)
        c = V.iterate(ex, args[0], node)
        if all(isinstance(x, str) for x in c):
            return obj.join(c)
        return V.SymStr(("join", obj) + tuple(c))

    @m("str", "startswith")
    def _startswith(ex, obj, args, kw, node):
        return obj.startswith(args[0])


def _pick(c, k):
    if isinstance(k, int):
        return c[k]
    # symbolic index into a concrete list: only for homogeneous z3 items
    out = c[-1]
    for j in range(len(c) - 2, -1, -1):
        out = z3.If(k == j, c[j], out)
    return out


def _min(a, b):
    if isinstance(a, int) and isinstance(b, int):
        return min(a, b)
    return z3.If(a <= b, a, b)


def _asbool(t):
    if isinstance(t, bool):
        return z3.BoolVal(t)
    return t
