"""Symbolic executor over the Python AST of the real functions in /repo.

* the function body is re-read from /repo on every run (engine.extract);
* every call is replaced by a model: numpy/builtin axiom or the callee's contract
  (never the callee's body);
* symbolic branches fork paths (re-execution with a decision prefix);
* loops over symbolic-length sequences are cut at the invariant supplied by the
  sidecar contract (init / preserve / use-after-loop);
* `assert`, call preconditions, in-place writes (frame) become obligations.
"""
from __future__ import annotations
import ast
import collections.abc
import z3
from .logic import Ctx, simplify_bool
from . import values as V


FORCED_RLIMIT = 150000


class Unsupported(Exception):
    """Construct outside the executor's subset: the function is undecided by proof."""

    def __init__(self, why, node=None):
        self.why, self.node = why, node
        line = getattr(node, "lineno", "?")
        super().__init__(f"{why} (line {line})")


class ReturnSig(Exception):
    def __init__(self, value):
        self.value = value


class RaiseSig(Exception):
    def __init__(self, exc, node=None, info=None):
        self.exc, self.node, self.info = exc, node, info


class BreakSig(Exception):
    pass


class ContinueSig(Exception):
    pass


class PathEnd(Exception):
    """Path finished without an outcome of the function (loop-preservation branch, dead path)."""


class Outcome:
    def __init__(self, kind, value=None, exc=None, ctx=None, env=None, ex=None, node=None):
        self.kind, self.value, self.exc, self.ctx, self.env, self.ex = kind, value, exc, ctx, env, ex
        self.node = node
        self.label = ex.mod.stmt_label(node) if (ex is not None and node is not None) else ""


class LoopSpec:
    """Sidecar invariant for the loop with a given ordinal.

    havoc(ex, env, k): replace every loop-modified variable/array in env by fresh symbolic
        values (k is the iteration counter term); returns nothing.
    inv(ex, env, k): formula, or list of (clause, formula).
    modifies: names the body may assign / objects it may write (checked syntactically).
    variant(ex, env): optional integer term that must decrease (while loops).
    """

    def __init__(self, inv, havoc, modifies=(), ghost=None, variant=None, unroll=False, enter=None, peel=0, exit_lemmas=None):
        self.inv, self.havoc, self.modifies = inv, havoc, tuple(modifies)
        self.ghost, self.variant, self.unroll, self.enter = ghost, variant, unroll, enter
        self.peel = peel          # number of leading iterations executed concretely before the cut
        # exit_lemmas(ex, env) -> [(name, formula)]: consequences of the invariant at loop exit, each PROVED (an obligation)
        # and then used; they keep the obligations after the loop small (no new assumption enters)
        self.exit_lemmas = exit_lemmas


class StaleValue:
    """Placeholder for a name a cut loop re-binds and its invariant says nothing about."""
    def __init__(self, name, ordinal):
        self.name, self.ordinal = name, ordinal


class _TouchedEnv(collections.abc.MutableMapping):
    """The environment as a havoc function sees it: records which names it looks at or replaces."""
    def __init__(self, env):
        self.env, self.touched = env, set()

    def __getitem__(self, k):
        self.touched.add(k)
        return self.env[k]

    def __setitem__(self, k, v):
        self.touched.add(k)
        self.env[k] = v

    def __delitem__(self, k):
        self.touched.add(k)
        del self.env[k]

    def __iter__(self):
        return iter(self.env)

    def __len__(self):
        return len(self.env)


def assigned_names(stmts):
    out = set()
    for s in stmts:
        for n in ast.walk(s):
            if isinstance(n, ast.Name) and isinstance(n.ctx, ast.Store):
                out.add(n.id)
            elif isinstance(n, (ast.AugAssign,)) and isinstance(n.target, ast.Name):
                out.add(n.target.id)
    return out


class Executor:
    def __init__(self, modinfo, ctx: Ctx, registry, decisions, loops=None, owner=None):
        self.mod, self.ctx, self.reg = modinfo, ctx, registry
        self.decisions = list(decisions)
        self.dpos = 0
        self.pending = []          # alternative decision prefixes discovered on this path
        self.loops = loops or {}
        self.loop_ordinal = 0
        self.call_ordinals = {}
        self.owner = owner         # contract object being verified (for self-recursion)
        self.caller_regions = set()
        self.allowed_writes = set()
        self.trace = []

    # ------------------------------------------------------------ forking
    def choice(self, n, label=""):
        """n-way nondeterministic choice, resolved by the decision prefix."""
        if self.dpos < len(self.decisions):
            d = self.decisions[self.dpos]
        else:
            d = 0
            for alt in range(1, n):
                self.pending.append(self.decisions[: self.dpos] + [alt])
            self.decisions.append(0)
        self.dpos += 1
        return d

    def decide(self, cond, label=""):
        """Truth value of a condition; forks when symbolic.  Adds the choice to the path condition."""
        c = cond if isinstance(cond, (bool, z3.BoolRef)) else V.truth(self, cond)
        c = simplify_bool(c)
        if isinstance(c, bool):
            return c
        if self.dpos >= len(self.decisions):
            # fresh decision point: prune a side that is infeasible under the path condition
            # (definite `unsat` only; `unknown` keeps both sides)
            forced = self._forced(c)
            if forced is not None:
                self.decisions.append(("forced", forced))
                self.dpos += 1
                self.ctx.assume(c if forced else z3.Not(c))
                return forced
        elif isinstance(self.decisions[self.dpos], tuple):
            forced = self.decisions[self.dpos][1]
            self.dpos += 1
            self.ctx.assume(c if forced else z3.Not(c))
            return forced
        d = self.choice(2, label)
        if d == 0:
            self.ctx.assume(c)
            return True
        self.ctx.assume(z3.Not(c))
        return False

    def _forced(self, c):
        """True / False if the path condition forces the truth value of c (definite unsat of the other side)."""
        for side, other in ((True, z3.Not(c)), (False, c)):
            sol = z3.Solver()
            # resource limit instead of a wall-clock limit: the set of explored paths (hence the set of
            # obligation ids) must not depend on how busy the machine is
            sol.set("rlimit", FORCED_RLIMIT)
            for h in self.ctx.hyps:
                sol.add(h)
            sol.add(other)
            try:
                if sol.check() == z3.unsat:
                    return side
            except z3.Z3Exception:
                pass
        return None

    # ------------------------------------------------------------ obligations
    def oblige(self, oid, goal, kind="assert", node=None, note=""):
        if getattr(self, "lazy_replay", 0) > 0:
            # re-evaluation of a comprehension element at another (quantified) position: its obligations were posed once, for an
            # arbitrary position of the sequence, when the comprehension itself was evaluated (_comp)
            return
        self.ctx.oblige(oid, goal, kind, getattr(node, "lineno", 0), note)
        if kind in ("precondition", "index") and isinstance(goal, z3.BoolRef) and not z3.is_false(goal):
            # assert-then-assume: once a call's precondition / an index bound has been posed as an obligation, the rest of the
            # path may rely on it (if it does not hold, that obligation itself is reported)
            self.ctx.assume(goal)

    def assume(self, f):
        self.ctx.assume(f)

    def site(self, callee):
        k = self.call_ordinals.get(callee, 0) + 1
        self.call_ordinals[callee] = k
        return f"{callee}[{k}]"

    # ------------------------------------------------------------ expressions
    def ev(self, node, env):
        m = getattr(self, "ev_" + type(node).__name__, None)
        if m is None:
            raise Unsupported(f"expression {type(node).__name__}", node)
        return m(node, env)

    def ev_Constant(self, n, env):
        return n.value

    def ev_test(self, n, env):
        """Truth value of a test expression (if / while / assert / comprehension-if): and/or/not are
        combined on truth values, so operands of any kind may be mixed."""
        if isinstance(n, ast.BoolOp):
            is_and = isinstance(n.op, ast.And)
            parts = []
            for e in n.values:
                t = simplify_bool(self.ev_test(e, env))
                if isinstance(t, bool):
                    if t != is_and:
                        return t if not parts else ((z3.And if is_and else z3.Or)(*parts, z3.BoolVal(t)))
                    continue
                parts.append(t)
            if not parts:
                return is_and
            return parts[0] if len(parts) == 1 else (z3.And(*parts) if is_and else z3.Or(*parts))
        if isinstance(n, ast.UnaryOp) and isinstance(n.op, ast.Not):
            t = simplify_bool(self.ev_test(n.operand, env))
            return (not t) if isinstance(t, bool) else z3.Not(t)
        return V.truth(self, self.ev(n, env))

    def ev_Name(self, n, env):
        if n.id in env:
            if isinstance(env[n.id], StaleValue):
                raise Unsupported(f"{n.id!r} is read before it is assigned again in or after loop {env[n.id].ordinal} and is not "
                                  f"described by the loop's invariant", n)
            return env[n.id]
        return self.mod.resolve(n.id, n)

    def ev_Tuple(self, n, env):
        out = []
        for e in n.elts:
            if isinstance(e, ast.Starred):
                out.extend(V.iterate(self, self.ev(e.value, env), e))
            else:
                out.append(self.ev(e, env))
        return tuple(out)

    def ev_List(self, n, env):
        return list(self.ev_Tuple(n, env))

    def ev_Set(self, n, env):
        return V.PySet([self.ev(e, env) for e in n.elts])

    def ev_Dict(self, n, env):
        d = {}
        for k, v in zip(n.keys, n.values):
            if k is None:
                d.update(self.ev(v, env))
            else:
                d[self.ev(k, env)] = self.ev(v, env)
        return d

    def ev_JoinedStr(self, n, env):
        parts = []
        for v in n.values:
            if isinstance(v, ast.Constant):
                parts.append(v.value)
            else:
                parts.append(self.ev(v.value, env))
        return V.join_str(self, parts)

    def ev_Attribute(self, n, env):
        base = self.ev(n.value, env)
        return V.getattr_(self, base, n.attr, n)

    def ev_Subscript(self, n, env):
        base = self.ev(n.value, env)
        idx = self.ev(n.slice, env)
        return V.getitem(self, base, idx, n)

    def ev_Slice(self, n, env):
        return slice(None if n.lower is None else self.ev(n.lower, env),
                     None if n.upper is None else self.ev(n.upper, env),
                     None if n.step is None else self.ev(n.step, env))

    def ev_IfExp(self, n, env):
        if self.decide(self.ev_test(n.test, env), "ifexp"):
            return self.ev(n.body, env)
        return self.ev(n.orelse, env)

    def ev_BoolOp(self, n, env):
        # python semantics: short circuit, value of the last evaluated operand.  Boolean-valued
        # symbolic operands are combined into one formula (no fork): their evaluation has no
        # effect on the state, only possibly extra obligations (conservative).
        is_and = isinstance(n.op, ast.And)
        pending = []
        val = None
        for pos, e in enumerate(n.values):
            val = self.ev(e, env)
            t = simplify_bool(V.truth(self, val))
            if isinstance(t, bool):
                if t != is_and:
                    if not pending:
                        return val
                    pending.append(z3.BoolVal(t))
                    break
                continue
            if isinstance(val, z3.BoolRef) or isinstance(t, z3.BoolRef) and isinstance(val, (z3.BoolRef, bool)):
                pending.append(t)
                continue
            # symbolic truth of a non-boolean value: fork
            if pending:
                raise Unsupported("mixed boolean / non-boolean operands in and/or", n)
            last = pos == len(n.values) - 1
            if last:
                return val
            if self.decide(t, "boolop") != is_and:
                return val
        if pending:
            return (z3.And(*pending) if is_and else z3.Or(*pending)) if len(pending) > 1 else pending[0]
        return val

    def ev_UnaryOp(self, n, env):
        v = self.ev(n.operand, env)
        if isinstance(n.op, ast.Not):
            t = simplify_bool(V.truth(self, v))
            return (not t) if isinstance(t, bool) else z3.Not(t)
        return V.unop(self, type(n.op).__name__, v, n)

    def ev_BinOp(self, n, env):
        l, r = self.ev(n.left, env), self.ev(n.right, env)
        return V.binop(self, type(n.op).__name__, l, r, n)

    def ev_Compare(self, n, env):
        left = self.ev(n.left, env)
        result = None
        for op, comp in zip(n.ops, n.comparators):
            right = self.ev(comp, env)
            c = V.compare(self, type(op).__name__, left, right, n)
            result = c if result is None else V.and_(self, result, c)
            left = right
        return result

    def ev_Lambda(self, n, env):
        return V.Closure(n, dict(env), self)

    def ev_Yield(self, n, env):
        hook = getattr(self, "on_yield", None)
        if hook is None:
            raise Unsupported("yield without a generator protocol in the contract", n)
        return hook(self, None if n.value is None else self.ev(n.value, env), n)

    def ev_Starred(self, n, env):
        raise Unsupported("starred outside call/tuple", n)

    def _args(self, n, env):
        args, kw = [], {}
        for a in n.args:
            if isinstance(a, ast.Starred):
                sv = self.ev(a.value, env)
                conc = V.try_concrete_iter(self, sv)
                if conc is None:
                    args.append(V.StarSeq(V.as_seq(self, sv, a)))      # *symbolic_sequence
                else:
                    args.extend(conc)
            else:
                args.append(self.ev(a, env))
        for k in n.keywords:
            if k.arg is None:
                d = self.ev(k.value, env)
                if isinstance(d, V.SymKwargs) or getattr(d, "is_dict", False):
                    kw["**"] = d
                elif isinstance(d, dict):
                    kw.update(d)
                else:
                    raise Unsupported("** of non-dict", n)
            else:
                kw[k.arg] = self.ev(k.value, env)
        return args, kw

    def ev_Call(self, n, env):
        fn = self.ev(n.func, env)
        args, kw = self._args(n, env)
        return V.call(self, fn, args, kw, n)

    # comprehensions -------------------------------------------------
    def _comp(self, elt_eval, gens, env, node):
        gen = gens[0]
        it = self.ev(gen.iter, env)
        conc = V.try_concrete_iter(self, it)
        if conc is not None:
            out = []
            for v in conc:
                e2 = dict(env)
                self.bind(gen.target, v, e2, node)
                ok = True
                for cond in gen.ifs:
                    if not self.decide(self.ev_test(cond, e2), "comp.if"):
                        ok = False
                        break
                if not ok:
                    continue
                if len(gens) > 1:
                    sub = self._comp(elt_eval, gens[1:], e2, node)
                    if isinstance(sub, list):
                        out.extend(sub)
                    else:
                        out.append(V.Chunk(sub))          # a symbolic-length run of elements
                else:
                    out.append(elt_eval(e2))
            return out
        # symbolic-length source: lazy sequence over the element index
        if len(gens) > 1:
            raise Unsupported("nested comprehension over symbolic sequence", node)
        seq = V.as_seq(self, it, node)
        env0 = dict(env)     # snapshot: later rebinding must not leak into element closures

        def item(k):
            # element k, evaluated lazily.  Inside, operations that would raise for a bad element (tuple.index of an
            # absent name ...) do not fork the path: they record their definedness condition (collected below)
            self.lazy_depth = getattr(self, "lazy_depth", 0) + 1
            replay = k is not k0
            if replay:
                self.lazy_replay = getattr(self, "lazy_replay", 0) + 1
            try:
                e2 = dict(env0)
                self.bind(gen.target, seq.item(k), e2, node)
                return elt_eval(e2)
            finally:
                self.lazy_depth -= 1
                if replay:
                    self.lazy_replay -= 1

        k0 = z3.Int(self.ctx.fresh("k0"))
        keep = None
        if gen.ifs:
            def keep(k):
                e2 = dict(env0)
                self.bind(gen.target, seq.item(k), e2, node)
                cs = [self.ev_test(c, e2) for c in gen.ifs]
                return V.and_all(cs)
        # a comprehension is evaluated eagerly by Python: every (selected) element must be defined.  The element
        # expression is evaluated once for an arbitrary index; the conditions it records become one obligation.
        self.lazy_pre = getattr(self, "lazy_pre", [])
        pre = []
        if self.decide(seq.n >= 1 if not isinstance(seq.n, int) else seq.n >= 1, "comprehension.nonempty"):
            # k0 stands for an arbitrary position of the (non-empty) sequence: obligations posed by callee contracts
            # while the element is evaluated are obligations "for every element"
            self.assume(z3.And(0 <= k0, k0 < seq.n))
            self.lazy_pre.append([])
            try:
                item(k0)
            finally:
                pre = self.lazy_pre.pop()
        if pre:
            rng = z3.And(0 <= k0, k0 < seq.n) if keep is None else z3.And(0 <= k0, k0 < seq.n, V.asbool(keep(k0)))
            self.oblige(self.site("comprehension") + ".every_element_defined",
                        z3.ForAll([k0], z3.Implies(rng, z3.And(*pre))), "precondition", node)
        if keep is not None:
            return V.filtered_seq(self, seq, item, keep, node)
        return V.Seq(seq.n, item)

    def ev_ListComp(self, n, env):
        return self._comp(lambda e: self.ev(n.elt, e), n.generators, env, n)

    def ev_GeneratorExp(self, n, env):
        return self._comp(lambda e: self.ev(n.elt, e), n.generators, env, n)

    def ev_SetComp(self, n, env):
        r = self._comp(lambda e: self.ev(n.elt, e), n.generators, env, n)
        return V.make_set(self, r, n)

    def ev_DictComp(self, n, env):
        r = self._comp(lambda e: (self.ev(n.key, e), self.ev(n.value, e)), n.generators, env, n)
        return V.make_dict(self, r, n)

    # ------------------------------------------------------------ binding
    def bind(self, tgt, v, env, node=None):
        if isinstance(tgt, ast.Name):
            env[tgt.id] = v
        elif isinstance(tgt, (ast.Tuple, ast.List)):
            vals = V.iterate(self, v, tgt)
            if len(vals) != len(tgt.elts):
                raise Unsupported("unpacking length mismatch", tgt)
            for t, x in zip(tgt.elts, vals):
                self.bind(t, x, env, node)
        elif isinstance(tgt, ast.Subscript):
            base = self.ev(tgt.value, env)
            idx = self.ev(tgt.slice, env)
            V.setitem(self, base, idx, v, tgt)
        elif isinstance(tgt, ast.Attribute):
            base = self.ev(tgt.value, env)
            V.setattr_(self, base, tgt.attr, v, tgt)
        else:
            raise Unsupported("assignment target", tgt)

    # ------------------------------------------------------------ statements
    def run(self, stmts, env):
        for s in stmts:
            m = getattr(self, "st_" + type(s).__name__, None)
            if m is None:
                raise Unsupported(f"statement {type(s).__name__}", s)
            m(s, env)

    def st_Expr(self, s, env):
        if isinstance(s.value, ast.Constant):
            return                               # docstring
        if isinstance(s.value, ast.Call):
            f = s.value.func                      # logging calls are dropped (effect-free)
            if isinstance(f, ast.Attribute) and isinstance(f.value, ast.Name) and f.value.id == "logger":
                return
        self.ev(s.value, env)

    def st_Pass(self, s, env):
        pass

    def st_Delete(self, s, env):
        for t in s.targets:
            if isinstance(t, ast.Name):
                env.pop(t.id, None)
            else:
                raise Unsupported("del of non-name", s)

    def st_Assign(self, s, env):
        v = self.ev(s.value, env)
        for t in s.targets:
            self.bind(t, v, env, s)

    def st_AnnAssign(self, s, env):
        if s.value is not None:
            self.bind(s.target, self.ev(s.value, env), env, s)

    def st_AugAssign(self, s, env):
        opname = type(s.op).__name__
        if isinstance(s.target, ast.Name):
            cur = self.ev_Name(s.target, env)
            rhs = self.ev(s.value, env)
            env[s.target.id] = V.augassign(self, opname, cur, rhs, s)
        elif isinstance(s.target, ast.Subscript):
            base = self.ev(s.target.value, env)
            idx = self.ev(s.target.slice, env)
            rhs = self.ev(s.value, env)
            cur = V.getitem(self, base, idx, s.target)
            V.setitem(self, base, idx, V.binop(self, opname, cur, rhs, s), s.target)
        else:
            raise Unsupported("augmented assignment target", s)

    def st_If(self, s, env):
        if self.decide(self.ev_test(s.test, env), "if"):
            self.run(s.body, env)
        else:
            self.run(s.orelse, env)

    def st_Assert(self, s, env):
        c = simplify_bool(self.ev_test(s.test, env))
        self.oblige(f"assert@{self.mod.stmt_label(s)}", c if not isinstance(c, bool) else z3.BoolVal(c),
                    "assert", s)
        if not isinstance(c, bool):
            self.assume(c)
        elif c is False:
            raise PathEnd()

    def st_Return(self, s, env):
        raise ReturnSig(None if s.value is None else self.ev(s.value, env))

    def st_Raise(self, s, env):
        exc = None
        if s.exc is None and getattr(self, "current_exc", None):
            raise RaiseSig(self.current_exc[-1].exc, s, self.current_exc[-1].info)       # bare `raise` inside a handler
        if s.exc is not None:
            call = s.exc
            exc_node = call.func if isinstance(call, ast.Call) else call
            exc = self.mod.exc_name(exc_node, env)
        raise RaiseSig(exc, s)

    def st_Break(self, s, env):
        raise BreakSig()

    def st_Continue(self, s, env):
        raise ContinueSig()

    NOT_EXCEPTION = {"KeyboardInterrupt", "SystemExit", "GeneratorExit", "BaseException", "BlockBaseException"}

    def _handler_catches(self, h, exc, env):
        """does `except <type>` catch an exception named exc?  Only the forms whose answer does not depend on a class
        hierarchy the model does not know: bare except / BaseException (everything), Exception (everything that is not one of
        the BaseException-only kinds), the very same name."""
        if h.type is None:
            return True
        if not isinstance(h.type, ast.Name):
            raise Unsupported("except clause with this type expression", h)
        t = h.type.id
        if t == "BaseException":
            return True
        if t == "Exception":
            return exc not in self.NOT_EXCEPTION
        if exc is None:
            raise Unsupported("re-raised exception of unknown kind meets a typed except clause", h)
        if t == exc or exc.endswith("." + t):
            return True
        if exc in ("BlockException", "BlockBaseException"):
            return False               # an arbitrary exception of the caller's block is not this specific type
        raise Unsupported(f"except {t} against {exc}: class hierarchy not modelled", h)

    def st_Try(self, s, env):
        try:
            try:
                self.run(s.body, env)
            except RaiseSig as e:
                for h in s.handlers:
                    if self._handler_catches(h, e.exc, env):
                        if h.name:
                            env[h.name] = V.ExcValue(e.exc) if hasattr(V, "ExcValue") else e.exc
                        self.current_exc = getattr(self, "current_exc", []) + [e]
                        try:
                            self.run(h.body, env)
                        finally:
                            self.current_exc.pop()
                        break
                else:
                    raise
            else:
                # try/else: runs when the body raised nothing; its own exceptions are NOT for the handlers above
                self.run(s.orelse, env)
        except (ReturnSig, RaiseSig, BreakSig, ContinueSig):
            self.run(s.finalbody, env)
            raise
        self.run(s.finalbody, env)

    def st_With(self, s, env):
        """`with cm [as x]: body` for values that model a context manager (sx_enter / sx_exit): __enter__, then the body,
        then __exit__ on every way out (normal, return, break/continue, exception).  The managers modelled never
        swallow an exception."""
        if len(s.items) != 1:
            raise Unsupported("with statement with several managers", s)
        item = s.items[0]
        cm = self.ev(item.context_expr, env)
        if not (hasattr(cm, "sx_enter") and hasattr(cm, "sx_exit")):
            raise Unsupported("with statement on this value", s)
        v = cm.sx_enter(self, s)
        if item.optional_vars is not None:
            self.bind(item.optional_vars, v, env, s)
        try:
            self.run(s.body, env)
        except (ReturnSig, RaiseSig, BreakSig, ContinueSig):
            cm.sx_exit(self, s)
            raise
        cm.sx_exit(self, s)

    def st_Import(self, s, env):
        pass

    def st_ImportFrom(self, s, env):
        pass

    def st_FunctionDef(self, s, env):
        env[s.name] = V.Closure(s, env, self)

    # loops ---------------------------------------------------------
    def st_For(self, s, env):
        self.loop_ordinal += 1
        ordinal = self.mod.loop_ordinal(s, self.loop_ordinal)
        it = self.ev(s.iter, env)
        conc = V.try_concrete_iter(self, it)
        if conc is not None:
            # concrete length: unroll (nested symbolic loops inside keep their own ordinal)
            for v in conc:
                self.bind(s.target, v, env, s)
                try:
                    self.run(s.body, env)
                except BreakSig:
                    break
                except ContinueSig:
                    continue
            else:
                self.run(s.orelse, env)          # for/else: only when the loop was not left by break
            return
        if s.orelse:
            raise Unsupported("for/else over a sequence of symbolic length", s)
        seq = V.as_seq(self, it, s)
        spec = self.loops.get(ordinal)
        if spec is None:
            raise Unsupported(f"loop {ordinal} over a symbolic-length sequence has no invariant", s)
        self._cut_loop(s, env, ordinal, spec, seq)

    def st_While(self, s, env):
        self.loop_ordinal += 1
        ordinal = self.mod.loop_ordinal(s, self.loop_ordinal)
        spec = self.loops.get(ordinal)
        if spec is None:
            raise Unsupported(f"while loop {ordinal} has no invariant", s)
        self._cut_loop(s, env, ordinal, spec, None)

    def _pose_inv(self, spec, env, k, label, node):
        inv = spec.inv(self, env, k)
        if not isinstance(inv, list):
            inv = [("inv", inv)]
        for name, f in inv:
            self.oblige(f"{label}.{name}", f, "invariant", node)

    def _assume_inv(self, spec, env, k):
        inv = spec.inv(self, env, k)
        if not isinstance(inv, list):
            inv = [("inv", inv)]
        for _, f in inv:
            self.assume(f)

    def _cut_loop(self, s, env, ordinal, spec, seq):
        declared = set(spec.modifies)
        assigned = assigned_names(s.body)
        if isinstance(s, ast.For):
            assigned |= assigned_names([ast.Assign(targets=[s.target], value=ast.Constant(0))])
        undeclared = {a for a in assigned if a in env and a not in declared}
        if undeclared:
            raise Unsupported(f"loop {ordinal} re-assigns {sorted(undeclared)}, not covered by the invariant's modifies", s)
        L = f"loop{ordinal}"
        zero = z3.IntVal(spec.peel)
        if spec.peel:
            if seq is None:
                raise Unsupported("peeling a while loop", s)
            self.oblige(f"{L}.peel.nonempty", seq.n >= spec.peel, "precondition", s)
            self.assume(seq.n >= spec.peel)
            for j in range(spec.peel):
                self.bind(s.target, seq.item(z3.IntVal(j)), env, s)
                try:
                    self.run(s.body, env)
                except ContinueSig:
                    pass
        if spec.enter:
            spec.enter(self, env, seq)
        # 1. initiation
        self._pose_inv(spec, env, zero, f"{L}.init", s)
        branch = self.choice(2, L)
        k = self.ctx.int("k")
        rebound = {a for a in assigned & declared if a in env}

        def havoc(k):
            # a name the body re-binds and the havoc neither replaces nor rewrites in place still holds the value of the
            # peeled iteration (or the one before the loop): reading it before it is assigned again would be a claim
            # about no particular iteration, so it becomes unreadable
            seen = _TouchedEnv(env)
            spec.havoc(self, seen, k)
            for a in rebound - seen.touched:
                env[a] = StaleValue(a, ordinal)
        if branch == 0:
            # 2. preservation: arbitrary iteration k
            havoc(k)
            self.assume(k >= spec.peel)
            if seq is not None:
                self.assume(k < seq.n)
            self._assume_inv(spec, env, k)
            if spec.ghost:
                for ax in spec.ghost(self, env, k):
                    self.assume(ax)
            before = spec.variant(self, env) if spec.variant else None
            try:
                if seq is not None:
                    self.bind(s.target, seq.item(k), env, s)
                    self.run(s.body, env)
                else:
                    if not self.decide(self.ev_test(s.test, env), f"{L}.guard"):
                        raise PathEnd()
                    self.run(s.body, env)
            except ContinueSig:
                pass
            except BreakSig:
                # leaving the loop from inside: continue after the loop with the current state
                return
            self._pose_inv(spec, env, k + 1, f"{L}.preserve", s)
            if before is not None:
                after = spec.variant(self, env)
                self.oblige(f"{L}.variant.decrease", z3.And(after < before, after >= 0), "variant", s)
            raise PathEnd()
        # 3. after the loop
        havoc(k)
        if seq is not None:
            self.assume(k == seq.n)
            self._assume_inv(spec, env, seq.n)
            if spec.exit_lemmas:
                for name, f in spec.exit_lemmas(self, env):
                    self.oblige(f"{L}.exit.{name}", f, "lemma", s)
                    self.assume(f)
        else:
            self.assume(k >= 0)
            self._assume_inv(spec, env, k)
            c = simplify_bool(self.ev_test(s.test, env))
            if c is True:
                raise PathEnd()            # `while True` is only left through break
            if c is not False:
                self.assume(z3.Not(c))


def explore(modinfo, fndef, registry, make_env, function_name, loops=None, owner=None, max_paths=400, on_outcome=None):
    """Run all paths of a function.  make_env(ex) -> env (deterministic).  Returns list of Outcome.
    on_outcome(out) poses the postcondition of a finished path; it runs INSIDE the exploration so that
    a lemma posed there (e.g. applying another contract to the result) may fork like the body does."""
    work = [[]]
    outcomes = []
    npaths = 0
    while work:
        dec = work.pop()
        npaths += 1
        if npaths > max_paths:
            raise Unsupported(f"more than {max_paths} paths")
        ctx = Ctx(function_name)
        ex = Executor(modinfo, ctx, registry, dec, loops, owner)
        env = make_env(ex)
        try:
            ex.run(fndef.body, env)
            out = Outcome("return", None, ctx=ctx, env=env, ex=ex)
        except ReturnSig as r:
            out = Outcome("return", r.value, ctx=ctx, env=env, ex=ex)
        except RaiseSig as r:
            out = Outcome("raise", r.info, exc=r.exc, ctx=ctx, env=env, ex=ex, node=r.node)
        except PathEnd:
            out = Outcome("end", ctx=ctx, env=env, ex=ex)
        if on_outcome is not None and out.kind != "end":
            try:
                on_outcome(out)
            except PathEnd:
                pass
        work.extend(ex.pending)
        outcomes.append(out)
    return outcomes
