"""Value domain of the symbolic executor and the generic operations on it.

Concrete Python values (int, bool, str, None, tuple, list, dict) are used wherever the
executor knows them; z3 terms stand for symbolic ints/bools/reals; everything else is an
instance of a class below or of a domain class (engine.domain) that implements the
`sx_*` protocol:

    sx_getattr(ex, attr, node)          sx_method(ex, attr, args, kw, node)
    sx_getitem(ex, idx, node)           sx_setitem(ex, idx, value, node)
    sx_binop(ex, op, other, node, reflected)   sx_compare(ex, op, other, node, reflected)
    sx_truth(ex)    sx_iter(ex) -> list | None      sx_seq(ex) -> Seq     sx_len(ex)
"""
from __future__ import annotations
import ast
import z3
from .logic import simplify_bool


def U(why, node=None):
    from .sx import Unsupported
    return Unsupported(why, node)


# ------------------------------------------------------------------ references
class ModuleRef:
    def __init__(self, name):
        self.name = name

    def sx_getattr(self, ex, attr, node):
        q = f"{self.name}.{attr}"
        if q in ex.reg.modules:
            return ModuleRef(q)
        if q in ex.reg.types:
            return TypeRef(q)
        if q in ex.reg.constants:
            return _constant(ex, q)
        return FnRef(q)


def _constant(ex, q):
    if q == "numpoly.ndpoly.KEY_OFFSET":
        # read from the class body of the tree under verification on every run (never a remembered number)
        from .codecmodel import key_offset_of
        return key_offset_of(ex.mod.repo)
    return ex.reg.constants[q]


class FnRef:
    def __init__(self, name):
        self.name = name

    def __repr__(self):
        return f"<fn {self.name}>"

    def __eq__(self, other):
        return isinstance(other, FnRef) and other.name == self.name

    def __hash__(self):
        return hash(("fn", self.name))

    def sx_getattr(self, ex, attr, node):
        if attr == "__name__":
            return self.name.split(".")[-1]
        q = f"{self.name}.{attr}"
        return FnRef(q)


class TypeRef:
    def __init__(self, name):
        self.name = name

    def __repr__(self):
        return f"<type {self.name}>"

    def __eq__(self, other):
        return isinstance(other, TypeRef) and other.name == self.name

    def __hash__(self):
        return hash(("type", self.name))

    def sx_getattr(self, ex, attr, node):
        q = f"{self.name}.{attr}"
        if q in ex.reg.constants:
            return _constant(ex, q)
        return FnRef(q)


class BuiltinRef:
    def __init__(self, name):
        self.name = name

    def __repr__(self):
        return f"<builtin {self.name}>"


class ModuleConst:
    def __init__(self, mod, name, node):
        self.mod, self.name, self.node = mod, name, node


class BoundMethod:
    def __init__(self, obj, attr):
        self.obj, self.attr = obj, attr


class Closure:
    """lambda / nested def; evaluated by the executor on call."""

    def __init__(self, node, env, ex):
        self.node, self.env = node, env
        a = node.args
        # default values are evaluated once, when the function object is made (Python semantics)
        self.defaults = [ex.ev(d, env) for d in a.defaults]
        self.kw_defaults = {k.arg: ex.ev(d, env) for k, d in zip(a.kwonlyargs, a.kw_defaults) if d is not None}


class SymStr:
    """Opaque string built from symbolic parts (error messages, constructed names)."""

    def __init__(self, parts):
        self.parts = tuple(parts)

    def __eq__(self, other):
        return isinstance(other, SymStr) and self.parts == other.parts

    def __hash__(self):
        return hash(self.parts)


class PySet:
    def __init__(self, items):
        self.items = list(items)


class Seq:
    """Sequence of symbolic length n (z3 Int or python int) with lazy items."""

    def __init__(self, n, item, kind="list"):
        self.n, self.item, self.kind = n, item, kind

    def sx_len(self, ex):
        return self.n

    def sx_seq(self, ex):
        return self

    def sx_iter(self, ex):
        if isinstance(self.n, int):
            return [self.item(k) for k in range(self.n)]
        return None

    def sx_getitem(self, ex, idx, node):
        if isinstance(idx, slice):
            lo = 0 if idx.start is None else idx.start
            if idx.step not in (None, 1):
                if idx.step == -1 and idx.start is None and idx.stop is None:
                    n = self.n
                    return Seq(n, lambda k: self.item(n - 1 - k), self.kind)
                raise U("sequence slice with step", node)
            if idx.stop is None:
                if isinstance(lo, int) and lo >= 0:
                    if isinstance(self.n, int):
                        m = max(0, self.n - lo)
                    else:
                        m = z3.If(self.n >= lo, self.n - lo, 0) if lo else self.n
                    return Seq(m, lambda k: self.item(k + lo) if lo else self.item(k), self.kind)
            raise U("sequence slice", node)
        if isinstance(idx, int) and idx < 0:
            return self.item(self.n + idx)
        if isinstance(idx, (int, z3.ArithRef)):
            ex.oblige(ex.site("index"), z3.And(0 <= idx, idx < self.n) if not (isinstance(idx, int) and isinstance(self.n, int))
                      else z3.BoolVal(0 <= idx < self.n), "index", node)
            return self.item(idx)
        raise U("sequence index", node)

    def sx_truth(self, ex):
        return self.n > 0

    def sx_method(self, ex, attr, args, kw, node):
        raise U(f"method {attr} on symbolic sequence", node)


class Chunk:
    """a symbolic-length run of elements inside an otherwise concrete comprehension result"""

    def __init__(self, seq):
        self.seq = seq


class StarSeq:
    """`*seq` of a symbolic-length sequence in a call"""

    def __init__(self, seq):
        self.seq = seq


class Unzipped:
    """list(zip(*seq_of_k_tuples)): k columns; empty list (falsy) when the sequence is empty."""

    def __init__(self, seq, k):
        self.seq, self.k = seq, k

    def sx_truth(self, ex):
        return self.seq.n > 0

    def sx_getitem(self, ex, idx, node):
        if isinstance(idx, int) and 0 <= idx < self.k:
            ex.oblige(f"pre({ex.site('index')}).nonempty", self.seq.n > 0, "index", node)
            s = self.seq
            return Seq(s.n, lambda j, c=idx: s.item(j)[c], "tuple")
        raise U("index into unzipped sequence", node)

    def sx_seq(self, ex):
        return self

    def sx_iter(self, ex):
        # unpacking `a, b = zip(*pairs)`: the k columns (raises for an empty sequence: obligation in sx_getitem)
        return [self.sx_getitem(ex, c, None) for c in range(self.k)]


class SymKwargs:
    """**kwargs of symbolic content: n distinct keys of sort `ksort` with values of sort `vsort`."""

    def __init__(self, ctx, ksort, vsort, base="kw"):
        self.n = ctx.int(base + "_n")
        self.key = ctx.func(base + "_key", z3.IntSort(), ksort)
        self.val = ctx.func(base + "_val", z3.IntSort(), vsort)
        self.has = ctx.func(base + "_has", ksort, z3.BoolSort())
        self.at = ctx.func(base + "_at", ksort, vsort)
        self.pos = ctx.func(base + "_pos", ksort, z3.IntSort())
        j = z3.Int(ctx.fresh("j"))
        x = z3.Const(ctx.fresh("x"), ksort)
        ctx.assume(self.n >= 0)
        ctx.assume(z3.ForAll([j], z3.Implies(z3.And(0 <= j, j < self.n),
                                             z3.And(self.has(self.key(j)), self.at(self.key(j)) == self.val(j),
                                                    self.pos(self.key(j)) == j))))
        ctx.assume(z3.ForAll([x], z3.Implies(self.has(x), z3.And(0 <= self.pos(x), self.pos(x) < self.n,
                                                                 self.key(self.pos(x)) == x))))

    def sx_seq(self, ex):
        return Seq(self.n, lambda k: self.key(k))

    def sx_iter(self, ex):
        return None

    def sx_truth(self, ex):
        return self.n > 0

    def sx_len(self, ex):
        return self.n

    def sx_contains(self, ex, item, node):
        return self.has(item)

    def sx_getitem(self, ex, idx, node):
        if isinstance(idx, z3.ExprRef) and idx.sort() == self.key.range():
            ex.oblige(ex.site("dict_lookup"), self.has(idx), "index", node)
            return self.at(idx)
        raise U("kwargs lookup with unknown key kind", node)


# ------------------------------------------------------------------ generic operations
def truth(ex, v):
    if isinstance(v, bool):
        return v
    if v is None:
        return False
    if isinstance(v, z3.BoolRef):
        return v
    if isinstance(v, z3.ArithRef):
        return v != 0
    if isinstance(v, (int, float)):
        return v != 0
    if isinstance(v, (str, tuple, list, dict)):
        return len(v) > 0
    if isinstance(v, PySet):
        return len(v.items) > 0
    if hasattr(v, "sx_truth"):
        return v.sx_truth(ex)
    raise U(f"truth value of {type(v).__name__}")


def and_(ex, a, b):
    a, b = simplify_bool(a), simplify_bool(b)
    if a is False or b is False:
        return False
    if a is True:
        return b
    if b is True:
        return a
    return z3.And(a, b)


def asbool(t):
    return z3.BoolVal(t) if isinstance(t, bool) else t


def and_all(cs):
    cs = [simplify_bool(c) for c in cs]
    if any(c is False for c in cs):
        return False
    cs = [c for c in cs if c is not True]
    if not cs:
        return True
    return z3.And(*cs) if len(cs) > 1 else cs[0]


def try_concrete_iter(ex, v):
    if isinstance(v, (list, tuple)):
        return list(v)
    if isinstance(v, dict):
        return list(v.keys())
    if isinstance(v, range):
        return list(v)
    if isinstance(v, str):
        return list(v)
    if isinstance(v, PySet):
        return list(v.items)
    if hasattr(v, "sx_iter"):
        return v.sx_iter(ex)
    return None


def iterate(ex, v, node=None):
    r = try_concrete_iter(ex, v)
    if r is None:
        raise U(f"iteration over symbolic-length {type(v).__name__}", node)
    return r


def as_seq(ex, v, node=None):
    if isinstance(v, Seq):
        return v
    if hasattr(v, "sx_seq"):
        return v.sx_seq(ex)
    if isinstance(v, (list, tuple)) and len(v) == 1:
        return Seq(1, lambda k, x=v[0]: x, "list" if isinstance(v, list) else "tuple")
    if isinstance(v, (list, tuple)) and v and all(isinstance(x, z3.ExprRef) for x in v):
        def pick(k, v=v):
            if isinstance(k, int):
                return v[k]
            out = v[-1]
            for j in range(len(v) - 2, -1, -1):
                out = z3.If(k == j, v[j], out)
            return out
        return Seq(len(v), pick, "list" if isinstance(v, list) else "tuple")
    raise U(f"{type(v).__name__} is not a sequence", node)


def length(ex, v, node=None):
    if isinstance(v, (list, tuple, dict, str)):
        return len(v)
    if isinstance(v, PySet):
        return len(v.items)
    if hasattr(v, "sx_len"):
        return v.sx_len(ex)
    raise U(f"len of {type(v).__name__}", node)


def join_str(ex, parts):
    if all(isinstance(p, (str, int)) and not isinstance(p, bool) for p in parts):
        return "".join(str(p) for p in parts)
    return SymStr(parts)


def getattr_(ex, base, attr, node):
    if hasattr(base, "sx_getattr"):
        return base.sx_getattr(ex, attr, node)
    if isinstance(base, (list, tuple, dict, str, PySet)):
        return BoundMethod(base, attr)
    if isinstance(base, slice):
        return getattr(base, attr)
    raise U(f"attribute {attr} of {type(base).__name__}", node)


def setattr_(ex, base, attr, v, node):
    if hasattr(base, "sx_setattr"):
        return base.sx_setattr(ex, attr, v, node)
    raise U(f"attribute assignment on {type(base).__name__}", node)


def getitem(ex, base, idx, node):
    if isinstance(base, (list, tuple, str)):
        if isinstance(idx, (int, slice)) and not isinstance(idx, bool):
            if isinstance(idx, slice) and not all(isinstance(x, (int, type(None))) for x in (idx.start, idx.stop, idx.step)):
                raise U("symbolic slice of concrete sequence", node)
            try:
                return base[idx]
            except IndexError:
                ex.oblige(ex.site("index"), z3.BoolVal(False), "index", node)
                from .sx import PathEnd
                raise PathEnd()
        raise U("symbolic index into concrete sequence", node)
    if isinstance(base, dict):
        try:
            if idx in base:
                return base[idx]
        except TypeError:
            pass
        raise U("dict lookup with unknown key", node)
    if hasattr(base, "sx_getitem"):
        return base.sx_getitem(ex, idx, node)
    hook = getattr(ex.reg, "getitem_hook", None)
    if hook is not None:
        r = hook(ex, base, idx, node)
        if r is not NotImplemented:
            return r
    raise U(f"subscript of {type(base).__name__}", node)


def setitem(ex, base, idx, v, node):
    if isinstance(base, list) and isinstance(idx, int):
        base[idx] = v
        return
    if isinstance(base, dict):
        base[idx] = v
        return
    if hasattr(base, "sx_setitem"):
        return base.sx_setitem(ex, idx, v, node)
    raise U(f"item assignment on {type(base).__name__}", node)


_ARITH = {
    "Add": lambda a, b: a + b, "Sub": lambda a, b: a - b, "Mult": lambda a, b: a * b,
}


def binop(ex, op, l, r, node):
    if hasattr(l, "sx_binop"):
        res = l.sx_binop(ex, op, r, node, False)
        if res is not NotImplemented:
            return res
    if hasattr(r, "sx_binop"):
        res = r.sx_binop(ex, op, l, node, True)
        if res is not NotImplemented:
            return res
    num = (int, float, z3.ArithRef)
    if op in _ARITH and isinstance(l, num + (z3.BoolRef,)) and isinstance(r, num + (z3.BoolRef,)) and \
            (isinstance(l, (bool, z3.BoolRef)) or isinstance(r, (bool, z3.BoolRef))) and not (isinstance(l, bool) and isinstance(r, bool)):
        # a truth value in arithmetic counts as 0 / 1
        l = z3.If(l, 1, 0) if isinstance(l, z3.BoolRef) else int(l) if isinstance(l, bool) else l
        r = z3.If(r, 1, 0) if isinstance(r, z3.BoolRef) else int(r) if isinstance(r, bool) else r
    if isinstance(l, num) and isinstance(r, num) and not isinstance(l, bool) and not isinstance(r, bool):
        if op in _ARITH:
            return _ARITH[op](l, r)
        if op in ("FloorDiv", "Mod") and _intlike(l) and _intlike(r) and not (isinstance(l, int) and isinstance(r, int)):
            # Python: the quotient is rounded towards minus infinity and the remainder has the sign of the divisor.  z3's integer
            # division rounds so that the remainder is non-negative, which is floor division exactly for a positive divisor.
            from .sx import RaiseSig
            L = l if isinstance(l, z3.ExprRef) else z3.IntVal(l)
            R = r if isinstance(r, z3.ExprRef) else z3.IntVal(r)
            if ex.decide(R == 0, "division.by_zero"):
                raise RaiseSig("ZeroDivisionError", node, "integer division or modulo by zero")
            q = z3.If(R > 0, L / R, (-L) / (-R))
            return q if op == "FloorDiv" else L - R * q
        if op == "FloorDiv" and isinstance(l, int) and isinstance(r, int):
            return l // r
        if op == "Mod" and isinstance(l, int) and isinstance(r, int):
            return l % r
        if op == "Pow" and isinstance(l, (int, float)) and isinstance(r, (int, float)):
            return l ** r
        if op == "Pow" and isinstance(r, z3.ArithRef) and r.is_int():
            from .logic import rpow
            base = l if isinstance(l, z3.ArithRef) else z3.RealVal(l)
            return rpow(z3.ToReal(base) if base.is_int() else base, r)
    if isinstance(l, (tuple, list, str)) and type(l) is type(r) and op == "Add":
        return l + r
    if isinstance(l, (tuple, list)) and isinstance(r, int) and op == "Mult":
        return l * r
    if isinstance(l, (bool, z3.BoolRef)) and isinstance(r, (bool, z3.BoolRef)):
        if op == "BitAnd":
            return and_(ex, l, r)
        if op == "BitOr":
            a, b = simplify_bool(l), simplify_bool(r)
            if a is True or b is True:
                return True
            return z3.Or(l, r) if not isinstance(a, bool) and not isinstance(b, bool) else (b if a is False else a)
        if op == "BitXor":
            return z3.Xor(l if not isinstance(l, bool) else z3.BoolVal(l), r if not isinstance(r, bool) else z3.BoolVal(r))
    if op == "Add" and (isinstance(l, str) or isinstance(r, str)):
        from .textmodel import concat
        res = concat(l, r)
        if res is not None:
            return res
    raise U(f"binary {op} on {type(l).__name__}, {type(r).__name__}", node)


def _intlike(v):
    return (isinstance(v, int) and not isinstance(v, bool)) or (isinstance(v, z3.ArithRef) and v.is_int())


def augassign(ex, op, cur, rhs, node):
    if hasattr(cur, "sx_inplace"):
        return cur.sx_inplace(ex, op, rhs, node)
    return binop(ex, op, cur, rhs, node)


def unop(ex, op, v, node):
    if hasattr(v, "sx_unop"):
        return v.sx_unop(ex, op, node)
    if op == "USub" and isinstance(v, (int, float, z3.ArithRef)):
        return -v
    if op == "UAdd" and isinstance(v, (int, float, z3.ArithRef)) and not isinstance(v, bool):
        return v
    raise U(f"unary {op} on {type(v).__name__}", node)


def same_object(a, b):
    return a is b


def compare(ex, op, l, r, node):
    if op == "Is":
        if l is None or r is None or isinstance(l, bool) or isinstance(r, bool):
            return l is r
        return same_object(l, r)
    if op == "IsNot":
        c = compare(ex, "Is", l, r, node)
        return not c
    if op in ("In", "NotIn"):
        res = contains(ex, r, l, node)
        if op == "NotIn":
            res = simplify_bool(res)
            return (not res) if isinstance(res, bool) else z3.Not(res)
        return res
    if hasattr(l, "sx_compare"):
        res = l.sx_compare(ex, op, r, node, False)
        if res is not NotImplemented:
            return res
    if hasattr(r, "sx_compare"):
        res = r.sx_compare(ex, op, l, node, True)
        if res is not NotImplemented:
            return res
    pyops = {"Eq": lambda a, b: a == b, "NotEq": lambda a, b: a != b, "Lt": lambda a, b: a < b,
             "LtE": lambda a, b: a <= b, "Gt": lambda a, b: a > b, "GtE": lambda a, b: a >= b}
    num = (int, float, z3.ArithRef)
    if isinstance(l, num) and isinstance(r, num):
        return pyops[op](l, r)
    if isinstance(l, z3.ExprRef) and isinstance(r, z3.ExprRef) and op in ("Eq", "NotEq"):
        return pyops[op](l, r)
    if isinstance(l, (str, tuple, list, type(None))) and isinstance(r, (str, tuple, list, type(None))) and op in ("Eq", "NotEq"):
        if _all_concrete(l) and _all_concrete(r):
            return pyops[op](l, r)
    if isinstance(l, (FnRef, TypeRef)) or isinstance(r, (FnRef, TypeRef)):
        if op in ("Eq", "NotEq"):
            return pyops[op](l, r)
    if isinstance(l, tuple) and isinstance(r, tuple) and all(isinstance(x, num) and not isinstance(x, bool) for x in l + r):
        # tuples of numbers: equality item by item, order lexicographic (a proper prefix is smaller)
        if op in ("Eq", "NotEq"):
            eq = z3.BoolVal(False) if len(l) != len(r) else z3.And(*[_as_bool(a == b) for a, b in zip(l, r)]) if l else z3.BoolVal(True)
            return simplify_bool(eq if op == "Eq" else z3.Not(eq))

        def less(a, b, strict):
            if not a or not b:
                return z3.BoolVal(len(a) < len(b) if strict else len(a) <= len(b))
            return z3.Or(_as_bool(a[0] < b[0]), z3.And(_as_bool(a[0] == b[0]), less(a[1:], b[1:], strict)))
        res = {"Lt": lambda: less(l, r, True), "LtE": lambda: less(l, r, False), "Gt": lambda: less(r, l, True), "GtE": lambda: less(r, l, False)}[op]()
        return simplify_bool(res)
    raise U(f"comparison {op} on {type(l).__name__}, {type(r).__name__}", node)


def _as_bool(v):
    return z3.BoolVal(v) if isinstance(v, bool) else v


def _all_concrete(v):
    if isinstance(v, (tuple, list)):
        return all(_all_concrete(x) for x in v)
    return isinstance(v, (int, str, float, bool, type(None)))


def contains(ex, container, item, node):
    if hasattr(container, "sx_contains"):
        return container.sx_contains(ex, item, node)
    if hasattr(item, "sx_in"):
        return item.sx_in(ex, container, node)
    if isinstance(container, (tuple, list, str, dict)) and _all_concrete(item):
        if isinstance(container, dict) or _all_concrete(container):
            return item in container
    if isinstance(container, PySet) and _all_concrete(item) and _all_concrete(container.items):
        return item in container.items
    raise U(f"membership in {type(container).__name__}", node)


class Selection:
    """The positions t in [0,n) with keep(t), in increasing order: sel: [0,M) -> [0,n) strictly monotone,
    selidx its inverse on the kept positions.  (Uniquely determined by n and keep.)"""

    def __init__(self, ctx, n, keep):
        self.n, self.keep = n, keep
        M = self.M = ctx.int("M")
        sel = self.sel = ctx.func("sel", z3.IntSort(), z3.IntSort())
        cnt = self.selidx = ctx.func("selidx", z3.IntSort(), z3.IntSort())
        ctx.assume(z3.And(M >= 0, M <= n))
        ctx.assume(ctx.forall_range(0, M, lambda j: z3.And(0 <= sel(j), sel(j) < n, keep(sel(j)), cnt(sel(j)) == j),
                                    pat=lambda j: sel(j)))
        ctx.assume(ctx.forall_range2(0, M, lambda j, l: sel(j) < sel(l)))
        ctx.assume(ctx.forall_range(0, n, lambda t: z3.Implies(keep(t), z3.And(0 <= cnt(t), cnt(t) < M, sel(cnt(t)) == t)),
                                    pat=lambda t: cnt(t)))
        # two consequences of the definition that need induction (so they are stated): everything kept / nothing kept
        ctx.assume(z3.Implies(ctx.forall_range(0, n, lambda t: keep(t)), z3.And(M == n, ctx.forall_range(0, n, lambda j: sel(j) == j))))
        ctx.assume(z3.Implies(ctx.forall_range(0, n, lambda t: z3.Not(keep(t))), M == 0))
        ctx.assume(z3.Implies(M == 0, ctx.forall_range(0, n, lambda t: z3.Not(keep(t)))))
        # exactly one position kept: a consequence of the definition (two selected positions would both be that one, but sel is
        # strictly increasing) which the solver does not find by itself, since no term sel(1) occurs to instantiate with
        u = z3.Int(ctx.fresh("u"))
        ctx.assume(z3.ForAll([u], z3.Implies(z3.And(0 <= u, u < n, keep(u), ctx.forall_range(0, n, lambda t: z3.Implies(keep(t), t == u))),
                                             z3.And(M == 1, sel(0) == u)), patterns=[cnt(u)]))


def selection_for(ex, n, keep):
    """One Selection per (n, predicate): a mask and a comprehension filter over the same predicate share it
    (keyed by the predicate's term at a canonical position; a predicate that creates fresh symbols never matches)."""
    K = z3.Int("k!selection")
    try:
        nk = z3.simplify(n).sexpr() if isinstance(n, z3.ExprRef) else str(n)
        key = (nk, z3.simplify(keep(K)).sexpr() if not isinstance(keep(K), bool) else str(keep(K)))
    except Exception:
        key = None
    table = ex.__dict__.setdefault("selections", {})
    if key is not None and key in table:
        return table[key]
    s = Selection(ex.ctx, n, keep)
    if key is not None:
        table[key] = s
    return s


def filtered_seq(ex, seq, item, keep, node):
    """[item(k) for k in range(n) if keep(k)] for symbolic n: a Seq of symbolic length M with a
    strictly monotone ghost selection function sel: [0,M) -> [0,n)."""
    s = selection_for(ex, seq.n, keep)
    out = Seq(s.M, lambda j: item(s.sel(j)))
    out.sel, out.selidx, out.src_n, out.keep = s.sel, s.selidx, seq.n, keep
    out.selection = s
    ex.last_filter = out
    return out


def make_set(ex, r, node):
    if isinstance(r, list) and any(isinstance(x, Chunk) for x in r):
        hook = getattr(ex.reg, "make_union", None)
        if hook:
            return hook(ex, r, node)
        raise U("set comprehension with symbolic-length parts", node)
    if isinstance(r, list):
        return PySet(r)
    raise U("set comprehension over symbolic sequence", node)


def make_dict(ex, r, node):
    if isinstance(r, list):
        try:
            return {k: v for k, v in r}
        except TypeError:
            pass
    hook = getattr(ex.reg, "make_dict", None)
    if hook:
        return hook(ex, r, node)
    raise U("dict comprehension over symbolic sequence", node)


# ------------------------------------------------------------------ calls
def call(ex, fn, args, kw, node):
    if isinstance(fn, FnRef):
        model = ex.reg.fn.get(fn.name)
        if model is None and fn.name.startswith("numpoly.") and fn.name.count(".") >= 2:
            # numpoly.construct.f / numpoly.align.f ...: the package re-exports its functions in one flat namespace
            model = ex.reg.fn.get("numpoly." + fn.name.split(".")[-1])
        if model is None:
            raise U(f"no contract or axiom for {fn.name}", node)
        return model(ex, args, kw, node)
    if isinstance(fn, BuiltinRef):
        model = ex.reg.builtins.get(fn.name)
        if model is None:
            raise U(f"builtin {fn.name} not modelled", node)
        return model(ex, args, kw, node)
    if isinstance(fn, TypeRef):
        model = ex.reg.fn.get(fn.name)
        if model is None:
            raise U(f"constructor {fn.name} not modelled", node)
        return model(ex, args, kw, node)
    if isinstance(fn, BoundMethod):
        obj = fn.obj
        if hasattr(obj, "sx_method"):
            return obj.sx_method(ex, fn.attr, args, kw, node)
        model = ex.reg.methods.get((type(obj).__name__, fn.attr))
        if model is None:
            raise U(f"method {type(obj).__name__}.{fn.attr} not modelled", node)
        return model(ex, obj, args, kw, node)
    if isinstance(fn, Closure):
        return call_closure(ex, fn, args, kw, node)
    if hasattr(fn, "sx_call"):
        return fn.sx_call(ex, args, kw, node)
    raise U(f"call of {type(fn).__name__}", node)


def call_closure(ex, clo, args, kw, node):
    from .sx import ReturnSig
    n = clo.node
    env = dict(clo.env)
    a = n.args
    if a.vararg or a.kwarg or a.posonlyargs:
        raise U("closure with *args / **kwargs / positional-only parameters", node)
    params = [x.arg for x in a.args]
    kwonly = [x.arg for x in a.kwonlyargs]
    kw = {k: v for k, v in kw.items() if k != "**"} if isinstance(kw, dict) else kw
    if len(args) > len(params) or any(k not in params + kwonly for k in kw):
        raise U("closure call with surplus arguments", node)
    bound = dict(zip(params[len(params) - len(clo.defaults):], clo.defaults)) if clo.defaults else {}
    bound.update(clo.kw_defaults)
    bound.update(zip(params, args))
    for k, v in kw.items():
        if k in params[: len(args)]:
            raise U("closure call binding a parameter twice", node)
        bound[k] = v
    missing = [p_ for p_ in params + kwonly if p_ not in bound]
    if missing:
        raise U(f"closure call without {missing}", node)
    env.update(bound)
    if isinstance(n, ast.Lambda):
        return ex.ev(n.body, env)
    try:
        ex.run(n.body, env)
    except ReturnSig as r:
        return r.value
    return None
