"""Mechanical extraction of function definitions from /repo's *current* working tree.

There is no copy of any function body in /verif: on every run the defining file is
parsed with `ast` and the FunctionDef node is handed to the symbolic executor.

Dropped by extraction (complete list): docstrings, type annotations, `from __future__`,
logging calls (`logger.debug/warning`, `logging.getLogger`), decorators `@wraps`/
`@implements*`/`@property`/`@staticmethod`/`@contextmanager` (their meaning is part of
the contract set-up), `del name`.
"""
from __future__ import annotations
import ast
import hashlib
import os
from . import values as V
from .sx import Unsupported

REPO = os.environ.get("NUMPOLY_REPO", "/repo")

BUILTIN_NAMES = {
    "len", "range", "zip", "enumerate", "list", "tuple", "dict", "set", "sorted", "reversed",
    "isinstance", "all", "any", "sum", "max", "min", "int", "float", "str", "bool", "abs",
    "iter", "getattr", "hasattr", "slice", "super", "type", "bytes", "complex", "object",
    "KeyError", "TypeError", "ValueError", "AssertionError", "True", "False", "None",
}


class ModInfo:
    def __init__(self, relpath, repo=None):
        self.repo = repo or REPO
        self.relpath = relpath
        self.path = os.path.join(self.repo, relpath)
        self.source = open(self.path).read()
        self.tree = ast.parse(self.source)
        self.defs = {}
        self.classes = {}
        self.imports = {}      # local name -> qualified dotted name
        self.consts = {}       # module-level simple constants
        self.modname = relpath[:-3].replace("/", ".")
        for node in self.tree.body:
            if isinstance(node, ast.FunctionDef):
                self.defs[node.name] = node
            elif isinstance(node, ast.ClassDef):
                self.classes[node.name] = node
            elif isinstance(node, ast.Import):
                for a in node.names:
                    self.imports[(a.asname or a.name).split(".")[0]] = a.name if a.asname else a.name.split(".")[0]
            elif isinstance(node, ast.ImportFrom):
                for a in node.names:
                    self.imports[a.asname or a.name] = self._qualify(node, a.name)
            elif isinstance(node, ast.Assign) and len(node.targets) == 1 and isinstance(node.targets[0], ast.Name):
                try:
                    self.consts[node.targets[0].id] = ast.literal_eval(node.value)
                except Exception:
                    self.consts[node.targets[0].id] = V.ModuleConst(self.modname, node.targets[0].id, node.value)
        self._labels = {}
        self._loop_ord = {}

    def _qualify(self, node, name):
        # all numpoly-internal objects live in one flat namespace keyed by their own name
        mod = node.module or ""
        if node.level > 0 or mod.startswith("numpoly"):
            return f"numpoly.{name}"
        return f"{mod}.{name}"

    # ------------------------------------------------------------
    def function(self, name, cls=None):
        if cls is not None:
            for n in self.classes[cls].body:
                if isinstance(n, ast.FunctionDef) and n.name == name:
                    return n
            raise KeyError(f"{self.relpath}: {cls}.{name} not found")
        if name not in self.defs:
            raise KeyError(f"{self.relpath}: def {name} not found")
        return self.defs[name]

    def function_hash(self, fndef):
        return hashlib.sha1(ast.dump(fndef).encode()).hexdigest()[:12]

    def resolve(self, name, node=None):
        """Value of a global name inside this module."""
        if name in self.defs:
            return V.FnRef(f"numpoly.{name}")
        if name in self.classes:
            return V.TypeRef(f"numpoly.{name}")
        if name in self.imports:
            q = self.imports[name]
            if q in ("numpy", "numpoly", "logging", "re", "numpy.typing"):
                return V.ModuleRef(q)
            if q.startswith("numpoly."):
                short = q.split(".")[-1]
                if short in ("ndpoly", "FeatureNotSupported", "PolynomialConstructionError"):
                    return V.TypeRef(q)
                if short in ("clean", "align", "construct"):
                    return V.ModuleRef("numpoly")
                return V.FnRef(q)
            return V.FnRef(q)
        if name in self.consts:
            return self.consts[name]
        if name in BUILTIN_NAMES:
            return V.BuiltinRef(name)
        if name == "__name__":
            return self.modname
        raise Unsupported(f"unresolved global name {name!r}", node)

    def exc_name(self, node, env):
        if isinstance(node, ast.Name):
            return node.id
        if isinstance(node, ast.Attribute):
            return node.attr
        raise Unsupported("raise of a computed exception", node)

    def stmt_label(self, stmt):
        """Stable label for a statement: ordinal among statements of the same type in its function."""
        return self._labels.get(id(stmt), f"L{getattr(stmt, 'lineno', 0)}")

    def loop_ordinal(self, node, fallback):
        """Ordinal of a loop statement in syntactic (source) order within its function."""
        return self._loop_ord.get(id(node), fallback)

    def label_function(self, fndef):
        self._loop_ord = {}
        k = 0
        for n in sorted((n for n in ast.walk(fndef) if isinstance(n, (ast.For, ast.While))),
                        key=lambda n: (n.lineno, n.col_offset)):
            k += 1
            self._loop_ord[id(n)] = k
        counts = {}
        for n in sorted((n for n in ast.walk(fndef) if isinstance(n, ast.stmt)), key=lambda n: (n.lineno, n.col_offset)):
            if isinstance(n, ast.stmt):
                t = type(n).__name__
                counts[t] = counts.get(t, 0) + 1
                self._labels[id(n)] = f"{t.lower()}{counts[t]}"
