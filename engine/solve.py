"""Discharge obligations: z3 (python API, one query per worker process) with cvc5 (CLI)
as second opinion on z3's unknowns.  Verdicts are taken from definite answers only."""
from __future__ import annotations
import hashlib
import multiprocessing as mp
import os
import subprocess
import tempfile
import time

CVC5 = "/usr/bin/cvc5"
LONG_CAP = 48          # at most this many queries get the long (tens of seconds) solver attempts in one check run


Z3 = "z3-new"          # CLI of the z3-solver wheel (same 5.1.0 as the python API that builds the queries)


def _z3_once(path, timeout_ms, opts):
    secs = max(1, (timeout_ms + 999) // 1000)
    try:
        p = subprocess.run([Z3, "-smt2", f"-t:{timeout_ms}", f"-T:{secs + 1}"] + opts + [path],
                           capture_output=True, text=True, timeout=secs + 4)
        lines = (p.stdout or "").strip().splitlines()
        res = lines[0].strip() if lines else "unknown"
        extra = ""
        if res not in ("sat", "unsat", "unknown"):
            if "timeout" in (p.stdout or "").lower():
                res, extra = "unknown", "timeout"
            else:
                res, extra = "error", ((p.stdout or "") + (p.stderr or ""))[:500]
        elif res == "unknown":
            extra = "unknown"
    except subprocess.TimeoutExpired:
        res, extra = "unknown", "hard timeout (process killed)"
    except Exception as e:  # z3 internal error is not a verdict
        res, extra = "error", repr(e)
    return res, extra


def _z3_worker(job):
    """One query, each attempt in its own z3 process (the soft time-out is not honoured inside some quantifier
    instantiation loops, so the process is killed at the hard limit; a killed query is `unknown`).
    Quantifier instantiation is sensitive to the random seed (the same query: time-out with one seed, 0.3 s with
    another) and to the arithmetic back end (a query the default simplex-based solver loops on for > 20 s takes 0.7 s with
    `smt.arith.solver=2`), so a small fixed portfolio is tried: default configuration briefly, the other arithmetic solver
    briefly, then two other seeds with half the budget each.  Only a definite answer ends the portfolio."""
    key, smt2, timeout_ms = job[:3]
    phase = job[3] if len(job) > 3 else 0          # 0: whole portfolio; 1: quick attempts only; 2: the long attempts only
    t0 = time.time()
    with tempfile.NamedTemporaryFile("w", suffix=".smt2", delete=False) as fh:
        fh.write(smt2)
        path = fh.name
    res, extra = "unknown", ""
    try:
        first = [([], min(timeout_ms, 3000))]
        rest = [(["smt.arith.solver=2"], 4000), (["smt.random_seed=3"], timeout_ms // 2), (["smt.random_seed=11"], timeout_ms // 2)] \
            if timeout_ms > 3000 else []
        portfolio = first + rest if phase == 0 else (first if phase == 1 else rest)
        early = None
        for n_try, (opts, tmo) in enumerate(portfolio):
            res, extra = _z3_once(path, tmo, opts)
            if res in ("sat", "unsat"):
                break
            if n_try == 0 and phase != 2 and timeout_ms > 3000 and os.path.exists(CVC5):
                # the other solver, briefly, before more z3 configurations are tried: queries z3 loops on for minutes are
                # often a matter of milliseconds for cvc5 (and the other way round)
                _, cres, csecs, _ = _cvc5_worker((key, smt2, 5000))
                if cres == "unsat":
                    early = (cres, csecs)
                    break
        if early is not None:
            return key, "unknown", round(time.time() - t0, 3), "cvc5-early", early
        if res == "sat":
            # counter-model for the replay file
            with open(path, "a") as fh:
                fh.write("\n(get-model)\n")
            try:
                p2 = subprocess.run([Z3, "-smt2", "-T:20"] + opts + [path], capture_output=True, text=True, timeout=25)
                extra = (p2.stdout or "")[:4000]
            except Exception:
                extra = "<model unavailable>"
    finally:
        os.unlink(path)
    return key, res, round(time.time() - t0, 3), extra


def _cvc5_worker(job):
    key, smt2, timeout_ms = job
    t0 = time.time()
    text = "(set-logic ALL)\n" + smt2
    with tempfile.NamedTemporaryFile("w", suffix=".smt2", delete=False) as fh:
        fh.write(text)
        path = fh.name
    try:
        p = subprocess.run([CVC5, "--lang=smt2", f"--tlimit={timeout_ms}", path],
                           capture_output=True, text=True, timeout=timeout_ms / 1000 + 10)
        out = (p.stdout or "").strip().splitlines()
        res = out[0].strip() if out else "unknown"
        if res not in ("sat", "unsat", "unknown"):
            res, extra = "error", (p.stdout + p.stderr)[:500]
        else:
            extra = ""
    except subprocess.TimeoutExpired:
        res, extra = "unknown", "timeout"
    except Exception as e:
        res, extra = "error", repr(e)
    finally:
        os.unlink(path)
    return key, res, round(time.time() - t0, 3), extra


def discharge(obligations, timeout_ms=20000, jobs=None, use_cvc5=True, cvc5_all=False):
    """obligations: list of engine.logic.Obligation.  Returns list of result dicts
    (deduplicated by (oid, query text))."""
    jobs = jobs or min(16, os.cpu_count() or 4)
    uniq = {}
    order = []
    for ob in obligations:
        text = ob.smt2()
        h = hashlib.sha1(text.encode()).hexdigest()[:16]
        key = (ob.oid, h)
        if key in uniq:
            continue
        uniq[key] = dict(oid=ob.oid, kind=ob.kind, lineno=ob.lineno, hash=h, smt2=text, note=ob.note)
        order.append(key)
    return discharge_texts([uniq[k] for k in order], timeout_ms, jobs, use_cvc5, cvc5_all)


def discharge_texts(items, timeout_ms=20000, jobs=None, use_cvc5=True, cvc5_all=False, brief=()):
    """items: dicts with oid, kind, lineno, hash, smt2, note."""
    jobs = jobs or min(16, os.cpu_count() or 4)
    uniq, order = {}, []
    for it in items:
        key = (it["oid"], it["hash"])
        if key not in uniq:
            uniq[key] = it
            order.append(key)

    brief = set(brief)       # obligations listed as open findings: expected not to discharge, do not spend the budget on them
    # budgets are CPU budgets in spirit: on a machine that is already busy (other checks, sweeps) the wall-clock limits are
    # stretched by the load factor, so that a verdict does not flip because the query got a fraction of a core
    try:
        load = os.getloadavg()[0] / max(1, os.cpu_count() or 1)
    except OSError:
        load = 0.0
    stretch = min(4.0, max(1.0, 1.0 + load))
    timeout_ms = int(timeout_ms * stretch)

    def tmo(k):
        return 2000 if (uniq[k]["kind"] == "vacuity" or uniq[k]["oid"] in brief) else timeout_ms
    results = {k: dict(z3="unsat", z3_s=0.0, z3_extra="", literal=True) for k in order if uniq[k].get("literal")}
    order_all = order
    order = [k for k in order if k not in results]
    def run(work):
        if not work:
            return
        with mp.get_context("fork").Pool(min(jobs, len(work))) as pool:
            for ret in pool.imap_unordered(_z3_worker, work):
                key, res, secs, extra = ret[:4]
                prev = results.get(key, {})
                results[key] = dict(z3=res, z3_s=round(secs + prev.get("z3_s", 0.0), 3), z3_extra=extra)
                if len(ret) > 4:                      # decided by the early cvc5 attempt inside the portfolio
                    results[key].update(cvc5=ret[4][0], cvc5_s=ret[4][1], cvc5_extra="early")

    # phase 1: every query, briefly (default z3 3 s, then cvc5 5 s): on a tree where the properties hold this decides all but a
    # handful.  phase 2: the long attempts (other arithmetic back end, two more seeds, cvc5 with the full budget) for what is
    # left - but for at most LONG_CAP queries: a change that breaks a function leaves hundreds of its obligations open, and giving
    # each of them a minute would make the check run for an hour without changing its verdict (they are reported as not
    # discharged either way; which ones were not retried is recorded).
    run([(k, uniq[k]["smt2"], tmo(k), 1) for k in order])
    open_keys = [k for k in order if results[k]["z3"] not in ("sat", "unsat") and results[k].get("cvc5") != "unsat"
                 and uniq[k]["kind"] != "vacuity" and uniq[k]["oid"] not in brief]
    retry = sorted(open_keys)[:LONG_CAP]
    skipped = set(open_keys) - set(retry)
    for k in skipped:
        results[k]["z3_extra"] = (results[k].get("z3_extra") or "") + " | long attempts skipped: more than %d queries open after the quick phase" % LONG_CAP
    run([(k, uniq[k]["smt2"], tmo(k), 2) for k in retry])
    if use_cvc5:
        # second opinion on everything (thorough tier): a short budget is enough to expose a contradiction
        again = [(k, uniq[k]["smt2"], min(timeout_ms, 10000) if cvc5_all and results[k]["z3"] == "unsat" else timeout_ms) for k in order
                 if uniq[k]["kind"] != "vacuity" and uniq[k]["oid"] not in brief
                 and (cvc5_all or results[k]["z3"] in ("unknown", "error")) and results[k].get("cvc5") != "unsat" and k not in skipped]
        if again:
            with mp.get_context("fork").Pool(min(jobs, len(again))) as pool:
                for key, res, secs, extra in pool.imap_unordered(_cvc5_worker, again):
                    results[key].update(cvc5=res, cvc5_s=secs, cvc5_extra=extra)
    out = []
    for k in order_all:
        d = dict(uniq[k])
        d.update(results[k])
        z, c = d.get("z3"), d.get("cvc5")
        if d.get("literal"):
            d["verdict"], d["backend"] = "discharged", "literal-true"
        elif z == "unsat" or c == "unsat":
            d["verdict"] = "discharged"
            d["backend"] = "z3" if z == "unsat" else "cvc5"
            if (z == "sat") or (c == "sat"):       # solvers disagree: never trust
                d["verdict"], d["backend"] = "inconsistent", "z3/cvc5 disagree"
        elif z == "sat" or c == "sat":
            d["verdict"] = "refuted"
            d["backend"] = "z3" if z == "sat" else "cvc5"
        else:
            d["verdict"] = "unknown"
            d["backend"] = ""
        out.append(d)
    return out
