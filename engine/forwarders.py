"""Static analysis of ndpoly methods that merely forward to a numpoly function
(`return numpoly.f(self, a, b=b)`): read from baseclass.py on every run."""
from __future__ import annotations
import ast
import os


def forwarders(repo):
    """-> {method_name: dict(target='numpoly.f', args=[...positional arg names...], kwargs={kw: argname}, params=[...])}"""
    path = os.path.join(repo, "numpoly", "baseclass.py")
    tree = ast.parse(open(path).read())
    out = {}
    for node in tree.body:
        if isinstance(node, ast.ClassDef) and node.name == "ndpoly":
            for fn in node.body:
                if not isinstance(fn, ast.FunctionDef):
                    continue
                body = [s for s in fn.body if not (isinstance(s, ast.Expr) and isinstance(s.value, ast.Constant))]
                if len(body) != 1 or not isinstance(body[0], ast.Return) or not isinstance(body[0].value, ast.Call):
                    continue
                call = body[0].value
                f = call.func
                if not (isinstance(f, ast.Attribute) and isinstance(f.value, ast.Name) and f.value.id == "numpoly"):
                    continue
                if not all(isinstance(a, ast.Name) for a in call.args):
                    continue
                if not all(k.arg is None or isinstance(k.value, ast.Name) for k in call.keywords):
                    continue
                defaults = {}
                pos = fn.args.args
                for a, d in zip(pos[len(pos) - len(fn.args.defaults):], fn.args.defaults):
                    try:
                        defaults[a.arg] = ast.literal_eval(d)
                    except Exception:
                        pass
                static = any(isinstance(d, ast.Name) and d.id == "staticmethod" for d in fn.decorator_list)
                out[fn.name] = dict(target=f"numpoly.{f.attr}", args=[a.id for a in call.args], defaults=defaults, static=static,
                                    kwargs={k.arg: k.value.id for k in call.keywords if k.arg},
                                    star_kwargs=[k.value.id for k in call.keywords if k.arg is None],
                                    params=[a.arg for a in fn.args.args] + [a.arg for a in fn.args.kwonlyargs], lineno=fn.lineno,
                                    has_varkw=fn.args.kwarg is not None, varkw=fn.args.kwarg.arg if fn.args.kwarg else None)
    return out
