"""Key matrices, integer vectors and the monomial orders (spec level).

A key matrix (D rows, n columns) is seen as n columns, each a `Mono` value of width D.
Orders on width-D rows are *uninterpreted* total preorders characterised by axioms
(ORDER_AXIOMS); their concrete definition lives in conc/spec_order.py and the axioms are
conformance-tested against it on every thorough run.

  lexle(a, b, D, first):  non-strict lexicographic comparison of the first D entries;
                          `first`=False: the LAST entry is most significant (numpy.lexsort),
                          `first`=True : the FIRST entry is most significant.
  meq(a, b, D):           first D entries equal
  mrev(a, D):             entries reversed:  expo(mrev(a,D), r) = expo(a, D-1-r)
  glexle(a,b,D,graded,reverse) := graded ? (msum a < msum b or (msum a = msum b and lexle(a,b,D,reverse)))
                                          : lexle(a,b,D,reverse)
"""
from __future__ import annotations
import z3
from . import values as V
from .values import U
from .logic import Mono, expo, msum, I, B

lexle = z3.Function("lexle", Mono, Mono, I, B, B)
meq = z3.Function("meq", Mono, Mono, I, B)
mrev = z3.Function("mrev", Mono, I, Mono)


def glexle(a, b, D, graded, reverse):
    g = z3.Or(msum(a, D) < msum(b, D), z3.And(msum(a, D) == msum(b, D), lexle(a, b, D, reverse)))
    if isinstance(graded, bool):
        return g if graded else lexle(a, b, D, reverse)
    return z3.If(graded, g, lexle(a, b, D, reverse))


def _b(v):
    return z3.BoolVal(v) if isinstance(v, bool) else v


def order_axioms(ctx):
    """Total-preorder axioms for lexle, congruence of meq, row reversal."""
    a, b, c = (z3.Const(ctx.fresh(n), Mono) for n in "abc")
    D = z3.Int(ctx.fresh("D"))
    f = z3.Bool(ctx.fresh("f"))
    ax = [
        z3.ForAll([a, D, f], lexle(a, a, D, f)),
        z3.ForAll([a, b, D, f], z3.Or(lexle(a, b, D, f), lexle(b, a, D, f))),
        z3.ForAll([a, b, c, D, f], z3.Implies(z3.And(lexle(a, b, D, f), lexle(b, c, D, f)), lexle(a, c, D, f))),
        z3.ForAll([a, b, D, f], z3.And(lexle(a, b, D, f), lexle(b, a, D, f)) == meq(a, b, D)),
        z3.ForAll([a, b, D], z3.Implies(meq(a, b, D), msum(a, D) == msum(b, D))),
        z3.ForAll([a, D], meq(a, a, D)),
        z3.ForAll([a, b, D], z3.Implies(a == b, meq(a, b, D))),
        # reversing the entries swaps which end is most significant, keeps sums and equality
        z3.ForAll([a, b, D, f], lexle(mrev(a, D), mrev(b, D), D, f) == lexle(a, b, D, z3.Not(f))),
        z3.ForAll([a, D], msum(mrev(a, D), D) == msum(a, D)),
        z3.ForAll([a, b, D], meq(mrev(a, D), mrev(b, D), D) == meq(a, b, D)),
    ]
    return ax


class IntVec:
    """1-d integer array of length n: at(k)."""

    def __init__(self, n, at, region="fresh"):
        self.n, self.at, self.region = n, at, region

    def sx_len(self, ex):
        return self.n

    def sx_seq(self, ex):
        return V.Seq(self.n, lambda k: self.at(k))

    def sx_iter(self, ex):
        return None

    def sx_getattr(self, ex, attr, node):
        if attr == "T":
            return self                      # transpose of a 1-d array is itself
        if attr == "size":
            return self.n
        if attr == "shape":
            return (self.n,)
        return V.BoundMethod(self, attr)

    def sx_getitem(self, ex, idx, node):
        if isinstance(idx, IntVec):          # fancy indexing: composition
            site = ex.site("fancy_index")
            ex.oblige(f"pre({site}).in_bounds",
                      ex.ctx.forall_range(0, idx.n, lambda k: z3.And(0 <= idx.at(k), idx.at(k) < self.n)),
                      "index", node)
            return IntVec(idx.n, lambda k: self.at(idx.at(k)))
        if isinstance(idx, slice):
            if idx.start is None and idx.stop is None and idx.step == -1:
                n = self.n
                out = IntVec(n, lambda k: self.at(n - 1 - k))
                inv = getattr(self, "inv", None)
                if inv is not None:
                    out.inv = lambda t: n - 1 - inv(t)          # the reverse of a permutation is a permutation
                return out
            if idx.start is None and idx.stop is None and idx.step is None:
                return self
            if idx.stop is None and idx.step is None and isinstance(idx.start, (int, z3.ArithRef)):
                lo, n, at = idx.start, self.n, self.at          # v[lo:] for 0 <= lo: the tail (empty when lo >= n)
                ex.oblige(f"pre({ex.site('slice')}).start_not_negative", lo >= 0 if not isinstance(lo, int) else z3.BoolVal(lo >= 0),
                          "precondition", node)
                return IntVec(z3.If(n >= lo, n - lo, 0), lambda k: at(k + lo))
            raise U("IntVec slice", node)
        if isinstance(idx, (int, z3.ArithRef)):
            ex.oblige(f"pre({ex.site('index')}).in_bounds", z3.And(0 <= idx, idx < self.n), "index", node)
            return self.at(idx)
        raise U("IntVec index", node)

    def sx_compare(self, ex, op, other, node, reflected):
        if isinstance(other, int) and not isinstance(other, bool) and not reflected:
            f = {"Lt": lambda a: a < other, "Eq": lambda a: a == other, "Gt": lambda a: a > other,
                 "LtE": lambda a: a <= other, "GtE": lambda a: a >= other, "NotEq": lambda a: a != other}.get(op)
            if f is not None:
                from .polymodel import BoolVec
                at = self.at
                return BoolVec(self.n, lambda k: f(at(k)))
        return NotImplemented

    def sx_binop(self, ex, op, other, node, reflected):
        if op in ("Add", "Sub") and isinstance(other, int) and not isinstance(other, bool) and not reflected:
            k = other if op == "Add" else -other
            at = self.at
            from .polymodel import dt_uint32
            from .logic import simplify_bool
            if getattr(self, "dtype", None) is not None and simplify_bool(self.dtype == dt_uint32) is True:
                # unsigned 32-bit arithmetic wraps around
                # (in-range case spelled out so that the solver meets `mod` only when a wrap is possible)
                out = IntVec(self.n, lambda t: z3.If(z3.And(at(t) + k >= 0, at(t) + k < 2 ** 32), at(t) + k, (at(t) + k) % (2 ** 32)))
            elif getattr(self, "dtype", None) is None:
                out = IntVec(self.n, lambda t: at(t) + k)
            else:
                raise U("integer vector arithmetic in an unknown dtype", node)
            out.dtype = getattr(self, "dtype", None)
            return out
        return NotImplemented


class KeyMat:
    """2-d integer array with D rows and n columns; column c is the Mono col(c)."""

    def __init__(self, D, n, col, region="caller"):
        self.D, self.n, self.col, self.region = D, n, col, region

    def sx_getattr(self, ex, attr, node):
        if attr == "size":
            return self.D * self.n
        if attr == "shape":
            return (self.D, self.n)
        return V.BoundMethod(self, attr)

    def sx_getitem(self, ex, idx, node):
        D, n, col = self.D, self.n, self.col
        if isinstance(idx, slice) and idx.start is None and idx.stop is None and idx.step == -1:
            return KeyMat(D, n, lambda c: mrev(col(c), D), "view")          # rows reversed
        if isinstance(idx, tuple) and len(idx) == 2 and isinstance(idx[0], slice) \
                and idx[0] == slice(None, None, None) and isinstance(idx[1], IntVec):
            iv = idx[1]
            site = ex.site("fancy_index")
            ex.oblige(f"pre({site}).in_bounds",
                      ex.ctx.forall_range(0, iv.n, lambda k: z3.And(0 <= iv.at(k), iv.at(k) < n)), "index", node)
            return KeyMat(D, iv.n, lambda c: col(iv.at(c)), "fresh")
        raise U("KeyMat index", node)


def is_perm(ctx, vec, n, inv=None):
    """vec is a permutation of 0..n-1 (given through an inverse function)."""
    inv = inv or ctx.func("pinv", I, I)
    return z3.And(vec.n == n,
                  ctx.forall_range(0, n, lambda k: z3.And(0 <= vec.at(k), vec.at(k) < n, inv(vec.at(k)) == k),
                                   pat=lambda k: vec.at(k)),
                  ctx.forall_range(0, n, lambda t: z3.And(0 <= inv(t), inv(t) < n, vec.at(inv(t)) == t),
                                   pat=lambda t: inv(t))), inv


def install(reg):
    ax = reg.axiom

    @ax("numpy.atleast_2d")
    def atleast_2d(ex, args, kw, node):
        (a,) = args
        if isinstance(a, KeyMat):
            return a                           # already 2-d: same object (view)
        raise U("atleast_2d of non-matrix", node)

    @ax("numpy.lexsort")
    def lexsort(ex, args, kw, node):
        (K,) = args
        if not isinstance(K, KeyMat):
            raise U("lexsort of non-matrix", node)
        ctx = ex.ctx
        pi = ctx.func("lexperm", I, I)
        vec = IntVec(K.n, lambda k: pi(k))
        f, inv = is_perm(ctx, vec, K.n)
        ctx.assume(f)
        for a in order_axioms(ctx):
            ctx.assume(a)
        # sorted, last row primary; stable (ties keep index order)
        ctx.assume(ctx.forall_range2(0, K.n, lambda p, q: z3.And(
            lexle(K.col(pi(p)), K.col(pi(q)), K.D, z3.BoolVal(False)),
            z3.Implies(meq(K.col(pi(p)), K.col(pi(q)), K.D), pi(p) < pi(q)))))
        vec.inv = inv
        return vec

    @ax("numpy.sum")
    def sum_(ex, args, kw, node):
        a = args[0]
        axis = kw.get("axis", args[1] if len(args) > 1 else None)
        if isinstance(a, KeyMat) and axis == 0:
            return IntVec(a.n, lambda c: msum(a.col(c), a.D))
        raise U("numpy.sum of this value", node)

    @ax("numpy.argsort")
    def argsort(ex, args, kw, node):
        v = args[0]
        if not isinstance(v, IntVec):
            raise U("argsort of non-vector", node)
        kind = kw.get("kind", None)
        ctx = ex.ctx
        sg = ctx.func("argsort", I, I)
        out = IntVec(v.n, lambda k: sg(k))
        f, inv = is_perm(ctx, out, v.n)
        ctx.assume(f)
        stable = kind in ("stable", "mergesort")
        ctx.assume(ctx.forall_range2(0, v.n, lambda p, q: z3.And(
            v.at(sg(p)) <= v.at(sg(q)),
            z3.Implies(v.at(sg(p)) == v.at(sg(q)), sg(p) < sg(q)) if stable else z3.BoolVal(True))))
        out.inv = inv
        return out
