"""Spec logic: sorts, per-path context (hypotheses + obligations), quantifier helpers.

Runs under python3-vt (z3-solver).  Nothing here imports /repo.
"""
from __future__ import annotations
import itertools
import z3

I, B, R = z3.IntSort(), z3.BoolSort(), z3.RealSort()

# ----------------------------------------------------------------- sorts
Idx = z3.DeclareSort("Idx")        # abstract element position inside an array
Shp = z3.DeclareSort("Shp")        # abstract array shape
Mono = z3.DeclareSort("Mono")      # exponent row (tuple of naturals)
Name = z3.DeclareSort("Name")      # indeterminate name
DT = z3.DeclareSort("DT")          # numpy dtype
Key = z3.DeclareSort("Key")        # structured-array field name
PV = z3.DeclareSort("PV")          # abstract polynomial value (ring level)

expo = z3.Function("expo", Mono, I, I)            # expo(m, d): d-th entry of row m
inshape = z3.Function("inshape", Idx, Shp, B)     # position belongs to shape
bshape = z3.Function("bshape", Shp, Shp, Shp)     # numpy broadcast of two shapes
bok = z3.Function("bok", Shp, Shp, B)             # shapes broadcast
proj = z3.Function("proj", Idx, Shp, Shp, Idx)    # proj(i, result_shape, operand_shape)
ndim = z3.Function("ndim", Shp, I)
size = z3.Function("size", Shp, I)
rank = z3.Function("rank", Name, I)               # numeric suffix of a canonical name
enc = z3.Function("enc", Mono, I, Key)            # storage key of a row of width D
msum = z3.Function("msum", Mono, I, I)            # msum(m, D) = sum_{d<D} expo(m,d)
mzero = z3.Function("mzero", Mono, I, B)          # all D entries zero
unfold_at = z3.Function("unfold_at", I, B)        # ghost marker: recursive ghost definitions unfold only at marked arguments
rpow = z3.Function("rpow", R, I, R)               # rpow(x, e) = x ** e for a natural exponent e (uninterpreted: only its identity matters)


class Fresh:
    """Deterministic fresh-name supply (one per path context)."""

    def __init__(self):
        self.n = 0

    def __call__(self, base: str) -> str:
        self.n += 1
        return f"{base}!{self.n}"


class Obligation:
    __slots__ = ("oid", "kind", "nhyps", "goal", "lineno", "ctx", "note")

    def __init__(self, oid, kind, nhyps, goal, lineno, ctx, note=""):
        self.oid, self.kind, self.nhyps, self.goal = oid, kind, nhyps, goal
        self.lineno, self.ctx, self.note = lineno, ctx, note

    def smt2(self) -> str:
        s = z3.Solver()
        for h in self.ctx.hyps[: self.nhyps]:
            s.add(h)
        s.add(z3.Not(self.goal))
        return s.to_smt2()


class Ctx:
    """One symbolic path: growing hypothesis list; obligations snapshot a prefix."""

    def __init__(self, function: str = ""):
        self.function = function
        self.hyps: list = []
        self.obls: list[Obligation] = []
        self.fresh = Fresh()
        self.option_atoms: set[str] = set()   # which option values the path depended on
        self.notes: list[str] = []
        self.dead = False                     # path condition known infeasible

    # ---- facts
    def assume(self, f):
        if f is True:
            return
        if f is False:
            f = z3.BoolVal(False)
        self.hyps.append(f)

    def oblige(self, oid: str, goal, kind: str = "assert", lineno: int = 0, note: str = ""):
        if goal is True:
            goal = z3.BoolVal(True)
        if goal is False:
            goal = z3.BoolVal(False)
        self.obls.append(Obligation(f"{self.function}#{oid}", kind, len(self.hyps), goal, lineno, self, note))

    # ---- fresh symbols
    def int(self, base="n"):
        return z3.Int(self.fresh(base))

    def bool(self, base="b"):
        return z3.Bool(self.fresh(base))

    def real(self, base="r"):
        return z3.Real(self.fresh(base))

    def const(self, base, sort):
        return z3.Const(self.fresh(base), sort)

    def func(self, base, *sorts):
        return z3.Function(self.fresh(base), *sorts)

    # ---- quantifier helpers
    def forall_range(self, lo, hi, f, pat=None):
        """forall t. lo <= t < hi -> f(t)"""
        t = z3.Int(self.fresh("t"))
        body = z3.Implies(z3.And(lo <= t, t < hi), f(t))
        if pat is not None:
            return z3.ForAll([t], body, patterns=[pat(t)])
        return z3.ForAll([t], body)

    def forall_range2(self, lo, hi, f):
        """forall t<s in [lo,hi). f(t,s)"""
        t, s = z3.Int(self.fresh("t")), z3.Int(self.fresh("s"))
        return z3.ForAll([t, s], z3.Implies(z3.And(lo <= t, t < s, s < hi), f(t, s)))

    def forall_idx(self, f, shape=None):
        i = z3.Const(self.fresh("i"), Idx)
        body = f(i)
        if shape is not None:
            body = z3.Implies(inshape(i, shape), body)
        return z3.ForAll([i], body)

    def forall_sort(self, sort, f, base="x"):
        x = z3.Const(self.fresh(base), sort)
        return z3.ForAll([x], f(x))


def conj(*fs):
    fs = [f for f in fs if f is not True]
    if not fs:
        return z3.BoolVal(True)
    return z3.And(*fs) if len(fs) > 1 else fs[0]


def is_concrete_bool(v):
    return isinstance(v, bool)


def simplify_bool(f):
    """Return True/False if z3 can decide the formula syntactically, else the formula."""
    if isinstance(f, bool):
        return f
    g = z3.simplify(f)
    if z3.is_true(g):
        return True
    if z3.is_false(g):
        return False
    return g
