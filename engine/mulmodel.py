"""Model pieces for numpoly.array_function.multiply (DESIGN 3 C01 / C20).

  madd(a, b)       exponent row a + b (mathematical, entry-wise)
  usum(a, b)       the same sum in unsigned 32-bit arithmetic (wraps); uoff(m, K) adds the storage offset (wraps)
  PairMat          the N1*N2 x D matrix whose row (i, j) is a function of row i of one matrix and row j of another:
                   numpy.tile(E1, (N2, 1))[j*N1 + i] = E1[i],  numpy.repeat(E2, N1, 0)[j*N1 + i] = E2[j]   (numpy axioms)
  unique rows of a PairMat: ghost upos(i, j) (where the sum of rows i, j went) and usi(g), usj(g) (a pair whose sum is row g)
  RowKey           the field name obtained from an exponent row plus KEY_OFFSET viewed as unicode (codec: C20)
  KeySet           a Python set of such field names, as a predicate over the field positions of the target polynomial
"""
from __future__ import annotations
import z3
from . import values as V
from .values import U
from .logic import I, B, Mono, expo, simplify_bool
from .polymodel import ExpMat, MonoRow, Region, dt_int, dt_uint32, frame_check
from .sortmodel import meq, lexle
from .codecmodel import wrap32, ustr_width

madd = z3.Function("madd", Mono, Mono, Mono)
usum = z3.Function("usum", Mono, Mono, Mono)
uoff = z3.Function("uoff", Mono, I, Mono)


def row_axioms(ctx):
    a, b = z3.Const(ctx.fresh("a"), Mono), z3.Const(ctx.fresh("b"), Mono)
    d, k = z3.Int(ctx.fresh("d")), z3.Int(ctx.fresh("k"))
    return [z3.ForAll([a, b, d], expo(madd(a, b), d) == expo(a, d) + expo(b, d), patterns=[expo(madd(a, b), d)]),
            z3.ForAll([a, b, d], expo(usum(a, b), d) == wrap32(expo(a, d) + expo(b, d)), patterns=[expo(usum(a, b), d)]),
            z3.ForAll([a, k, d], expo(uoff(a, k), d) == wrap32(expo(a, d) + k), patterns=[expo(uoff(a, k), d)])]


class PairMat:
    def __init__(self, N1, N2, D, row, left=None, right=None):
        self.N1, self.N2, self.D, self.row = N1, N2, D, row      # row(i, j): Mono
        self.left, self.right = left, right                       # the ExpMat rows i / j come from (when known)

    def sx_binop(self, ex, op, other, node, reflected):
        if op == "Add" and isinstance(other, PairMat):
            site = ex.site("pairwise_sum")
            ex.oblige(f"pre({site}).same_pairing", z3.And(self.N1 == other.N1, self.N2 == other.N2, self.D == other.D),
                      "precondition", node, note="tile count must be the row count of the repeated matrix and vice versa")
            a, b = (other, self) if reflected else (self, other)
            return PairMat(a.N1, a.N2, a.D, lambda i, j: madd(a.row(i, j), b.row(i, j)),
                           a.left if a.left is not None else b.left, b.right if b.right is not None else a.right)
        return NotImplemented


class RowKey:
    """str key of an exponent row: code points = entries of `coded` (row + KEY_OFFSET, uint32)"""

    def __init__(self, base, coded, D, K):
        self.base, self.coded, self.D, self.K = base, coded, D, K


class CodedRow:
    """(row + K).ravel() / .view('U<D>')"""

    def __init__(self, base, coded, D, K, viewed=False):
        self.base, self.coded, self.D, self.K, self.viewed = base, coded, D, K, viewed

    def sx_getattr(self, ex, attr, node):
        return V.BoundMethod(self, attr)

    def sx_method(self, ex, attr, args, kw, node):
        if attr == "ravel" and not args:
            return self
        if attr == "view" and len(args) == 1 and not self.viewed:
            w = ustr_width(args[0])
            if w is not None:
                ex.oblige(f"pre({ex.site('view_as_unicode')}).width_is_row_width", (w == self.D) if not (isinstance(w, int) and isinstance(self.D, int))
                          else z3.BoolVal(w == self.D), "precondition", node)
                return CodedRow(self.base, self.coded, self.D, self.K, True)
        if attr == "item" and not args and self.viewed:
            return RowKey(self.base, self.coded, self.D, self.K)
        raise U(f"coded exponent row .{attr}", node)


class KeySet:
    """set of field names of ONE polynomial (`target`), as a predicate over its field positions"""

    def __init__(self, ex):
        f = ex.ctx.func("seen", I, B)
        g = z3.Int(ex.ctx.fresh("g"))
        ex.ctx.assume(z3.ForAll([g], z3.Not(f(g))))
        self.has = lambda g: f(g)

    def sx_contains(self, ex, item, node):
        if isinstance(item, RowKey):
            return self.has(field_position(ex, item, node))
        raise U("membership of a non-key in a key set", node)

    def sx_getattr(self, ex, attr, node):
        return V.BoundMethod(self, attr)

    def sx_method(self, ex, attr, args, kw, node):
        if attr == "add" and len(args) == 1 and isinstance(args[0], RowKey):
            pos = field_position(ex, args[0], node)
            old = self.has
            self.has = lambda g: z3.Or(g == pos, old(g))
            return None
        raise U(f"set.{attr}", node)


fieldpos = z3.Function("fieldpos", Mono, I)      # position of the field whose exponent row equals the (uncoded) row


def field_position(ex, key, node):
    """position g of the field named by `key` in the polynomial being filled (ex.fill_target): the field with
    E(g, d) + K == coded(d) for all d (codec invariant, C20).  Its existence is an obligation (KeyError otherwise)."""
    tgt = getattr(ex, "fill_target", None)
    if tgt is None:
        raise U("field lookup by a computed key outside a fill loop", node)
    ctx = ex.ctx
    hint = getattr(ex, "field_hint", None)
    want = hint(ex, key) if hint is not None else None
    cache = ex.__dict__.setdefault("field_lookups", {})
    ck = key.base.sexpr()
    is_field = lambda g: z3.And(0 <= g, g < tgt.N, ctx.forall_range(0, tgt.D, lambda d: expo(tgt.row(g), d) + key.K == expo(key.coded, d)))
    if want is not None:
        # the contract names the position it expects (the unique-row position of the exponent sum): the obligation is that the
        # computed key IS the name of that field - which also shows that it exists (no KeyError); field names are pairwise
        # different (codec, C20), so this is the field numpy finds
        if ck not in cache:
            cache[ck] = True
            ex.oblige(f"pre({ex.site('values_key')}).computed_key_is_the_field_of_the_sum_row", is_field(want), "precondition", node,
                      note="(row1 + row2 + KEY_OFFSET) viewed as unicode must be exactly the name of the field that holds the sum row")
            ctx.assume(is_field(want))
        return want
    pos = fieldpos(key.base)
    if ck not in cache:
        cache[ck] = True
        ex.oblige(f"pre({ex.site('values_key')}).computed_key_is_a_field", z3.Not(ctx.forall_range(0, tgt.N, lambda g: z3.Not(
            ctx.forall_range(0, tgt.D, lambda d: expo(tgt.row(g), d) + key.K == expo(key.coded, d))))), "precondition", node,
            note="the key computed from the exponent sum must be a field of the output (KeyError otherwise)")
        ctx.assume(is_field(pos))
    return pos


def install(reg):
    ax = reg.axiom
    prev_unique = reg.fn["numpy.unique"]
    prev_tile = reg.fn.get("numpy.tile")
    prev_repeat = reg.fn.get("numpy.repeat")

    @ax("numpy.tile")
    def tile(ex, args, kw, node):
        if len(args) == 2 and isinstance(args[0], ExpMat) and isinstance(args[1], tuple) and len(args[1]) == 2 and args[1][1] == 1 and not kw:
            m, n = args[0], args[1][0]
            return PairMat(m.n, n, m.D, lambda i, j: m.row(i), left=m)
        if prev_tile is not None:
            return prev_tile(ex, args, kw, node)
        raise U("numpy.tile in this form", node)

    @ax("numpy.repeat")
    def repeat(ex, args, kw, node):
        if len(args) == 3 and isinstance(args[0], ExpMat) and args[2] == 0 and not kw:
            m, n = args[0], args[1]
            return PairMat(n, m.n, m.D, lambda i, j: m.row(j), right=m)
        if prev_repeat is not None:
            return prev_repeat(ex, args, kw, node)
        raise U("numpy.repeat in this form", node)

    @ax("numpy.unique")
    def unique(ex, args, kw, node):
        a = args[0]
        if isinstance(a, PairMat) and kw.get("axis") == 0 and set(kw) == {"axis"} and len(args) == 1:
            ctx = ex.ctx
            M = ctx.int("M")
            G = ctx.func("urow", I, Mono)
            upos = ctx.func("upos", I, I, I)
            usi, usj = ctx.func("usi", I, I), ctx.func("usj", I, I)
            i, j, g, h = (z3.Int(ctx.fresh(n)) for n in "ijgh")
            ctx.assume(z3.And(M >= 0, (M == 0) == z3.Or(a.N1 <= 0, a.N2 <= 0)))
            ctx.assume(z3.ForAll([i, j], z3.Implies(z3.And(0 <= i, i < a.N1, 0 <= j, j < a.N2), z3.And(
                0 <= upos(i, j), upos(i, j) < M, meq(G(upos(i, j)), a.row(i, j), a.D))), patterns=[upos(i, j)]))
            ctx.assume(z3.ForAll([g], z3.Implies(z3.And(0 <= g, g < M), z3.And(
                0 <= usi(g), usi(g) < a.N1, 0 <= usj(g), usj(g) < a.N2, G(g) == a.row(usi(g), usj(g)), upos(usi(g), usj(g)) == g)),
                patterns=[G(g), usi(g), usj(g)]))
            ctx.assume(z3.ForAll([g, h], z3.Implies(z3.And(0 <= g, g < h, h < M), z3.And(
                z3.Not(meq(G(g), G(h), a.D)), G(g) != G(h), lexle(G(g), G(h), a.D, z3.BoolVal(True))))))
            out = ExpMat(M, a.D, lambda t: G(t), Region("fresh"), dt_int)
            out.pair_unique = dict(src=a, upos=upos, usi=usi, usj=usj, M=M)
            ex.last_pair_unique = out
            hook = getattr(ex, "hooks", None)
            hook = hook.get("after_pair_unique") if isinstance(hook, dict) else None
            if hook:
                hook(ex, out)
            return out
        return prev_unique(ex, args, kw, node)


# ---- MonoRow arithmetic in unsigned 32-bit (expon1 + expon2 + KEY_OFFSET)
def _monorow_binop(self, ex, op, other, node, reflected):
    if op == "Add" and isinstance(other, MonoRow) and not reflected:
        ex.oblige(f"pre({ex.site('row_sum')}).same_width", self.D == other.D, "precondition", node)
        out = MonoRow(usum(self.m, other.m), self.D)
        out.sum_of = (self, other)
        return out
    if op == "Add" and isinstance(other, int) and not isinstance(other, bool) and not reflected:
        return CodedRow(self.m, uoff(self.m, other), self.D, other)
    return _prev_binop(self, ex, op, other, node, reflected)


_prev_binop = MonoRow.sx_binop
MonoRow.sx_binop = _monorow_binop
MonoRow.sx_len = lambda self, ex: self.D
