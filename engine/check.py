"""Per-property check: prove the contracts, run the bounded stand-ins, decide, write evidence."""
from __future__ import annotations
import hashlib
import json
import os
import re
import subprocess
import sys
import tempfile
import time

VERIF = os.path.dirname(os.path.dirname(os.path.abspath(__file__)))
REPO = os.environ.get("NUMPOLY_REPO", "/repo")
VENV_PY = "/venv/bin/python"
LOCK = os.path.join(VERIF, "obligations.lock.json")
FINDINGS = os.path.join(VERIF, "known_findings.txt")
REPLAY_DIR = os.path.join(VERIF, "replays")


def load_findings():
    """known_findings.txt: one finding per line
         open: property=<id> key=<finding key | obligation id> :: <what fails>
         fixed: property=<id> <commit> <what failed>        (suppresses nothing)
    """
    out = []
    if os.path.exists(FINDINGS):
        for line in open(FINDINGS):
            line = line.strip()
            m = re.match(r"open:\s+property=(\S+)\s+key=(\S+)\s+::\s*(.*)", line)
            if m:
                out.append(dict(property=m.group(1), key=m.group(2), what=m.group(3)))
    return out


def tree_identity(repo):
    """Which source the obligations were generated from: the commit of the checked tree and whether the library files differ from it."""
    def git(*a):
        try:
            return subprocess.run(["git", "-C", repo, *a], capture_output=True, text=True, timeout=30).stdout.strip()
        except Exception:
            return ""
    return dict(path=os.path.realpath(repo), commit=git("rev-parse", "--short", "HEAD"),
                modified_files=[ln[3:] for ln in git("status", "--porcelain", "--", "numpoly").splitlines()])


def load_lock():
    if os.path.exists(LOCK):
        return json.load(open(LOCK))
    return {}


def run_bounded(pid, tier, seed, focus=(), only=()):
    with tempfile.NamedTemporaryFile("r", suffix=".json", delete=False) as fh:
        out = fh.name
    cmd = [VENV_PY, os.path.join(VERIF, "conc", "host.py"), "bounded", pid, "--tier", tier, "--seed", str(seed), "--out", out]
    if focus:
        cmd += ["--focus", ",".join(sorted(focus))]
    if only:
        cmd += ["--only", ",".join(sorted(only))]
    journal = out + ".journal"
    env = dict(os.environ, NUMPOLY_REPO=REPO, PYTHONWARNINGS="ignore", VERIF_JOURNAL=journal)
    p = subprocess.run(cmd, capture_output=True, text=True, env=env, cwd=VERIF)
    try:
        res = json.load(open(out))
    except Exception:
        res = None
    finally:
        if os.path.exists(out):
            os.unlink(out)
    if res is None:
        # the interpreter died (e.g. a compiled kernel corrupted memory): the journal names the input being run
        crashed = None
        try:
            crashed = json.load(open(journal))
        except Exception:
            pass
        if crashed is not None and p.returncode < 0 or (crashed is not None and "Traceback" not in (p.stderr or "")):
            os.makedirs(REPLAY_DIR, exist_ok=True)
            key = hashlib.sha1(json.dumps(crashed["input"], sort_keys=True, default=str).encode()).hexdigest()[:12]
            path = os.path.join(REPLAY_DIR, f"{pid}-{crashed['check'].split(':', 1)[1].replace('/', '_')}-{key}.json")
            observed = f"the interpreter crashed (exit status {p.returncode}) while running this input: {(p.stderr or '')[-300:]}"
            json.dump(dict(kind="concrete", property=pid, check=crashed["check"], functions=[], finding_key=f"{crashed['check']}:{key}",
                           input=crashed["input"], observed=observed, replay="./vcheck replay " + path), open(path, "w"), indent=1,
                      default=str)
            res = dict(property=pid, tier=tier, seed=seed, checks=[dict(name=crashed["check"], functions=[], inputs=1, failures=1,
                                                                         wall_s=0, samples=[crashed["input"]], note="crash")],
                       failures=[dict(check=crashed["check"], functions=[], replay=path, finding_key=f"{crashed['check']}:{key}",
                                      observed=observed, input=crashed["input"])], evaluations=1, distinct=1, wall_s=0.0)
        else:
            if os.path.exists(journal):
                os.unlink(journal)
            raise RuntimeError(f"bounded host crashed (exit {p.returncode}):\n{p.stderr[-3000:]}")
    if os.path.exists(journal):
        os.unlink(journal)
    return res


def obligation_replay(pid, d, reason):
    os.makedirs(REPLAY_DIR, exist_ok=True)
    h = hashlib.sha1((d["oid"] + d.get("hash", "")).encode()).hexdigest()[:12]
    path = os.path.join(REPLAY_DIR, f"{pid}-obligation-{h}.json")
    rec = dict(kind="obligation", property=pid, obligation=d["oid"], obligation_kind=d["kind"], lineno=d.get("lineno"),
               verdict=d["verdict"], reason=reason,
               solver_output=dict(z3=d.get("z3"), z3_s=d.get("z3_s"), z3_extra=d.get("z3_extra", "")[:4000],
                                  cvc5=d.get("cvc5"), cvc5_extra=d.get("cvc5_extra", "")),
               note=d.get("note", ""), where=d.get("where", ""),
               query_smt2=d.get("smt2", "")[:200000],
               replay=f"./vcheck run {pid}   (re-poses this obligation on the current tree)")
    json.dump(rec, open(path, "w"), indent=1)
    return path


def function_of(oid):
    return oid.split("#")[0].split("[")[0]


def run_property(pid, tier="quick", seed=0, verbose=False):
    from props import PROPS, build_registry, ALL_CONTRACTS
    from engine.prover import prove, StaticObligation
    t0 = time.time()
    spec = PROPS[pid]
    lines = []
    violations = 0
    reg = build_registry()
    contracts = [ALL_CONTRACTS[n] for n in spec.get("contracts", [])]
    statics = []
    for fn in spec.get("statics", []):
        for (oid, ok, where, lineno) in fn(REPO):
            statics.append(StaticObligation(f"{pid}.{oid}", ok, where, lineno))
    timeout_ms = 60000 if tier == "thorough" else 30000
    selftest = None
    if tier == "thorough":
        # thorough tier: the VC generator is first compared with CPython on the synthetic functions of selftest/ (engine/selftest.py);
        # a disagreement means no verdict of the generator can be trusted - exit 3, never a statement about numpoly
        import subprocess
        import sys as _sys
        try:
            p_ = subprocess.run([_sys.executable, "-m", "engine.selftest", "--fast"], cwd=VERIF, capture_output=True, text=True, timeout=900)
            last = [ln for ln in p_.stdout.splitlines() if ln.startswith("selftest:")]
            selftest = dict(cmd="python3-vt -m engine.selftest --fast", exit=p_.returncode, summary=last[-1] if last else p_.stdout[-300:])
            if p_.returncode != 0:
                for ln in p_.stdout.splitlines():
                    if ln.startswith("SELFTEST-"):
                        lines.append("   " + ln[:300])
                lines.insert(0, f"CHECKER-ERROR property={pid}: the symbolic executor disagrees with CPython on the self-test samples (not a verdict)")
                return 3, lines, f"{pid}: engine self-test failed; exit 3"
        except subprocess.TimeoutExpired:
            selftest = dict(cmd="python3-vt -m engine.selftest --fast", exit=None, summary="timed out (not a verdict)")
    os.environ["VERIF_DEEP"] = "1" if tier == "thorough" else "0"       # thorough: contracts enumerate further cases
    findings = [f for f in load_findings() if f["property"] == pid]
    reports, results, prove_s = prove(contracts, reg, REPO, timeout_ms=timeout_ms, statics=statics,
                                      cvc5_all=(tier == "thorough"),
                                      lemmas=spec.get("lemmas", []), brief=[f["key"] for f in findings if "#" in f["key"]])
    lock = load_lock().get(pid, {})

    class _Known(dict):
        """exact keys, plus keys ending in `*` that match by prefix (e.g. `C09:*.size0` is written `C09:*.size0`)"""

        def get(self, k, default=None):
            if k in self:
                return self[k]
            import fnmatch
            for pat, f in self.items():
                if "*" in pat and fnmatch.fnmatchcase(k, pat):
                    return f
            return default
    known_keys = _Known({f["key"]: f for f in findings})

    # the two solvers contradicting each other is a defect of the machinery (or of a solver), never a verdict about the code
    disagree = [d for d in results if d["verdict"] == "inconsistent"]
    if disagree:
        for d in disagree:
            lines.append(f"CHECKER-ERROR property={pid}: z3 and cvc5 disagree on {d['oid']} (z3={d.get('z3')}, cvc5={d.get('cvc5')})")
        return 3, lines, f"{pid}: solver disagreement on {len(disagree)} obligation(s); exit 3"
    n_obl = len(results)
    discharged = [d for d in results if d["verdict"] == "discharged"]
    failed = [d for d in results if d["verdict"] != "discharged"]
    unsupported = [r for r in reports if r.status in ("unsupported", "missing", "vacuous", "engine_error")]
    present = {d["oid"] for d in results}
    dropped = sorted(o for o in lock if o not in present and not any(function_of(o) == r.name for r in unsupported)
                     and not (lock[o] == "deep" and tier != "thorough"))

    # ---- bounded stand-ins / CPython cross-check (focus: functions whose proof did not go through)
    focus = {function_of(d["oid"]) for d in failed} | {r.name for r in unsupported}
    bounded = None
    if spec.get("bounded", True):
        bounded = run_bounded(pid, tier, seed, focus=focus)

    matched_known = set()
    conc_fail_functions = set()
    if bounded:
        for f in bounded["failures"]:
            key = f["finding_key"]
            ck = f["check"]
            hit = known_keys.get(key) or known_keys.get(ck)
            conc_fail_functions.update(f.get("functions", []))
            if hit:
                if hit["key"] not in matched_known:
                    lines.append(f"KNOWN-FINDING: property={pid} {hit['key']} {hit['what']}")
                    matched_known.add(hit["key"])
                continue
            violations += 1
            obs = [d["oid"] for d in failed if function_of(d["oid"]) in f.get("functions", [])]
            try:
                rec = json.load(open(f["replay"]))
                rec["failed_obligations"] = [dict(obligation=d["oid"], verdict=d["verdict"], z3=d.get("z3"),
                                                  z3_extra=d.get("z3_extra", "")[:1500]) for d in failed
                                             if function_of(d["oid"]) in f.get("functions", [])]
                json.dump(rec, open(f["replay"], "w"), indent=1, default=str)
            except Exception:
                pass
            lines.append(f"VIOLATION property={pid} replay={f['replay']}")
            lines.append(f"   run-time contract clause {f['check']} fails on the replayed input: {f['observed'][:300]}")
            if obs:
                lines.append(f"   failed obligations of the same function: {', '.join(sorted(set(obs))[:6])}")

    undecided = []
    for d in failed:
        fn = function_of(d["oid"])
        base_oid = d["oid"]
        hit = known_keys.get(base_oid)
        if hit:
            if hit["key"] not in matched_known:
                lines.append(f"KNOWN-FINDING: property={pid} {hit['key']} {hit['what']}")
                matched_known.add(hit["key"])
            continue
        if fn in conc_fail_functions:
            # the failing input of this function was already reported with its replay file
            path = obligation_replay(pid, d, "obligation failed; a concrete failing input of the same function was replayed")
            if verbose:
                lines.append(f"   failed obligation {d['oid']} ({d['verdict']}) -> see replayed input above; record {path}")
            continue
        in_lock = base_oid in lock
        if in_lock or d["verdict"] == "refuted":
            path = obligation_replay(pid, d, "obligation discharged on the reference tree now fails; bounded search of the "
                                     "function's run-time contract found no failing input")
            violations += 1
            lines.append(f"VIOLATION property={pid} replay={path} no-failing-input-found")
            lines.append(f"   obligation {d['oid']}: {d['verdict']} (z3={d.get('z3')}, cvc5={d.get('cvc5', '-')})")
        else:
            undecided.append(d["oid"])
    for r in unsupported:
        lines.append(f"UNDECIDED-BY-PROOF property={pid} function={r.name} status={r.status} reason={r.reason}; "
                     f"bounded stand-in {'passed' if r.name not in conc_fail_functions else 'FAILED'}")
    for o in undecided:
        lines.append(f"UNDECIDED property={pid} obligation={o} (new obligation, solver gave no definite answer)")

    # ---- evidence
    wall = round(time.time() - t0, 2)
    by_backend = {}
    for d in discharged:
        by_backend[d["backend"]] = by_backend.get(d["backend"], 0) + 1
    slow = sorted(((d.get("z3_s", 0), d["oid"]) for d in results), reverse=True)[:5]
    cov = dict(
        obligations=n_obl, discharged=len(discharged),
        discharged_by_backend=by_backend,
        checker_cmd=f"./vcheck run {pid} --tier {tier}",
        trusted_base=sorted(set(spec.get("trusted_base", [])) | {f"axiom:{a}" for a in sorted(reg.used)}),
        functions_under_contract=[dict(name=r.name, status=r.status, cases=r.cases, paths=r.paths,
                                       obligations=len(r.obligations), source_hash=r.source_hash,
                                       vacuity=[list(v) for v in r.vacuity], reason=r.reason) for r in reports],
        solver_time_s=round(sum(d.get("z3_s", 0) + d.get("cvc5_s", 0) for d in results), 2),
        prove_wall_s=prove_s,
        slowest_queries=[dict(seconds=s, obligation=o) for s, o in slow],
        failed_obligations=[dict(obligation=d["oid"], verdict=d["verdict"]) for d in failed],
        dropped_obligations=dropped,
        undecided=undecided,
        samples=[dict(obligation=d["oid"], kind=d["kind"], verdict=d["verdict"], backend=d["backend"],
                      seconds=d.get("z3_s", 0)) for d in results[:: max(1, len(results) // 12)]][:14],
        checked_tree=tree_identity(REPO),
        explanation=spec.get("explanation", ""),
        not_decided=spec.get("not_decided", []),
        known_findings_matched=sorted(matched_known),
        second_opinion=dict(solver="cvc5 1.0.3", asked=sum(1 for d in results if d.get("cvc5") is not None),
                            agrees_unsat=sum(1 for d in results if d.get("z3") == "unsat" and d.get("cvc5") == "unsat"),
                            no_answer=sum(1 for d in results if d.get("z3") == "unsat" and d.get("cvc5") in ("unknown", "error")),
                            contradicts=0),
    )
    if selftest is not None:
        cov["engine_selftest"] = selftest
    if bounded:
        cov["bounded"] = dict(
            label="bounded stand-in / run-time cross-check of the same contract clauses; never counted as proved",
            evaluations=bounded["evaluations"], distinct_inputs=bounded["distinct"], wall_s=bounded["wall_s"],
            checks=[dict(name=c["name"], inputs=c["inputs"], failures=c["failures"], bound=c.get("note", ""),
                         sample=c["samples"][:1]) for c in bounded["checks"]])
        cov["evaluations"] = bounded["evaluations"]
        cov["distinct_nontrivial"] = bounded["distinct"]
        cov["rule"] = "bounded part: inputs generated per check as described in `bounded.checks[].bound`; distinct = distinct (check, input) pairs"
    level = spec.get("level", "other")
    if level == "proof" and (len(discharged) != n_obl or unsupported or n_obl == 0):
        level = "other"
        cov["explanation"] = (cov["explanation"] + " [downgraded on this run: not every obligation discharged]").strip()
    ev = dict(property_id=pid, tier=tier, seed=seed, level=level, coverage=cov,
              assumptions=spec.get("assumptions", []) + sorted({a for c in contracts for a in c.assumptions}),
              wall_s=wall, violations=violations)
    # evidence/ only ever describes runs against /repo itself; runs against a scratch copy (NUMPOLY_REPO=...) go elsewhere
    evdir = os.path.join(VERIF, "evidence" if os.path.realpath(REPO) == "/repo" else "evidence_scratch")
    os.makedirs(evdir, exist_ok=True)
    json.dump(ev, open(os.path.join(evdir, f"{pid}.json"), "w"), indent=1, default=str)

    # ---- verdict
    if n_obl == 0 and spec.get("contracts") and not unsupported:
        lines.append(f"CHECKER-ERROR property={pid}: zero obligations generated")
        code = 3 if not violations else 1
    elif violations:
        code = 1
    elif undecided:
        code = 2
    else:
        code = 0
    summary = (f"{pid}: {len(discharged)}/{n_obl} obligations discharged "
               f"({', '.join(f'{k}:{v}' for k, v in sorted(by_backend.items()))}); "
               f"functions under contract {len(reports)} ({len(unsupported)} undecided by proof); "
               + (f"bounded evaluations {bounded['evaluations']} failures {len(bounded['failures'])}; " if bounded else "")
               + f"wall {wall}s; exit {code}")
    return code, lines, summary


def write_lock(pids):
    from props import PROPS, build_registry, ALL_CONTRACTS
    from engine.prover import prove, StaticObligation
    lock = load_lock()
    for pid in pids:
        spec = PROPS[pid]
        reg = build_registry()
        contracts = [ALL_CONTRACTS[n] for n in spec.get("contracts", [])]
        statics = []
        for fn in spec.get("statics", []):
            for (oid, ok, where, lineno) in fn(REPO):
                statics.append(StaticObligation(f"{pid}.{oid}", ok, where, lineno))
        os.environ["VERIF_DEEP"] = "0"
        reports, results, _ = prove(contracts, reg, REPO, timeout_ms=60000, statics=statics, lemmas=spec.get("lemmas", []))
        entry = {}
        for d in results:
            if d["verdict"] == "discharged":
                entry[d["oid"]] = entry.get(d["oid"], 0) + 1
        bad = [d["oid"] for d in results if d["verdict"] != "discharged"]
        # the further cases of the thorough tier: their ids are locked too, marked "deep" (absent from quick runs by design)
        os.environ["VERIF_DEEP"] = "1"
        _, results2, _ = prove(contracts, build_registry(), REPO, timeout_ms=60000, statics=(), lemmas=())
        os.environ["VERIF_DEEP"] = "0"
        for d in results2:
            if d["verdict"] == "discharged" and d["oid"] not in entry:
                entry[d["oid"]] = "deep"
        bad += [d["oid"] for d in results2 if d["verdict"] != "discharged" and d["oid"] not in bad]
        lock[pid] = dict(sorted(entry.items()))
        print(f"{pid}: locked {len(entry)} obligation ids; not discharged: {bad}")
    json.dump(lock, open(LOCK, "w"), indent=1, sort_keys=True)
