"""Model of the storage-key codec of ndpoly (DESIGN 3 C20): exponent rows <-> unicode field names.

  ExpMat (polymodel)   2-d integer matrix, entries expo(row(t), d)
  FlatCodes            1-d uint32 array of length n*w holding the rows of an n x w matrix one after the other
  StrVec               1-d array of n fixed-width (w) unicode strings; code point cp(t, d); numpy strips TRAILING NULs
                       when an element is read as a Python string and pads with NULs when it is widened again
  KeyStr               element t of a StrVec used as a Python string (a field name)
  StructDT             numpy.dtype([(name_t, dt) ...]): one field per name
  RawNew               the object returned by ndarray.__new__(cls, shape, StructDT): uninitialised storage

Assumed numpy behaviour (observed on numpy 2.5.3; listed as axioms in the evidence):
  * uint32 arithmetic wraps modulo 2**32; numpy.array(x, dtype=uint32) of in-range values keeps them
  * a.view("U<w>") regroups w consecutive uint32 values into one string; s.view(uint32) is the inverse
  * astype("U<k>") with k >= w pads every string with NULs, k < w TRUNCATES (an obligation here)
  * numpy.dtype(fields): field names must be pairwise different non-empty strings (after stripping trailing NULs:
    an empty name is silently replaced by 'f0'); a code point above 0x10FFFF raises SystemError in a one-character name and
    is accepted (or raises) in a longer one
"""
from __future__ import annotations
import z3
from . import values as V
from .values import U
from .logic import I, B, Mono, DT, expo, simplify_bool
from .polymodel import ExpMat, Region, dt_uint32, dt_int, DTypeV, ShapeV, as_dtype, NamesV, Names, nlen, nat, shp0
from .sortmodel import IntVec

prod2 = z3.Function("prod2", I, I, I)          # number of entries of an n x w matrix (only its zero-ness matters)
MAXCP = 0x10FFFF


def prod_axioms(ctx):
    n, w = z3.Int(ctx.fresh("n")), z3.Int(ctx.fresh("w"))
    return [z3.ForAll([n, w], z3.Implies(z3.And(n >= 0, w >= 0), z3.And(prod2(n, w) >= 0, (prod2(n, w) == 0) == z3.Or(n == 0, w == 0))))]


def wrap32(x):
    return z3.If(z3.And(x >= 0, x < 2 ** 32), x, x % (2 ** 32))


class FlatCodes:
    def __init__(self, n, w, at2):
        self.n, self.w, self.at2 = n, w, at2          # at2(t, d): value at flat position t*w + d

    def sx_getattr(self, ex, attr, node):
        if attr == "shape":
            return (prod2(self.n, self.w),)
        return V.BoundMethod(self, attr)

    def sx_method(self, ex, attr, args, kw, node):
        if attr == "view" and len(args) == 1:
            w = ustr_width(args[0])
            if w is not None:
                site = ex.site("view_as_unicode")
                ex.oblige(f"pre({site}).width_is_row_width", (w == self.w) if not (isinstance(w, int) and isinstance(self.w, int))
                          else z3.BoolVal(w == self.w), "precondition", node,
                          note="regrouping with another width would mix the code points of different exponent rows")
                ex.oblige(f"pre({site}).width_positive", self.w >= 1 if not isinstance(self.w, int) else z3.BoolVal(self.w >= 1),
                          "precondition", node)
                return StrVec(self.n, self.w, self.at2)
        if attr == "reshape" and len(args) == 2 and args[1] == -1:
            rows = args[0]
            site = ex.site("reshape_rows")
            ex.oblige(f"pre({site}).row_count", rows == self.n if not (isinstance(rows, int) and isinstance(self.n, int))
                      else z3.BoolVal(rows == self.n), "precondition", node)
            ex.oblige(f"pre({site}).nonempty", prod2(self.n, self.w) != 0, "precondition", node,
                      note="reshape(k, -1) of an empty array is ambiguous")
            rf = ex.ctx.func("decoded_row", I, Mono)
            t, d = z3.Int(ex.ctx.fresh("t")), z3.Int(ex.ctx.fresh("d"))
            ex.ctx.assume(z3.ForAll([t, d], expo(rf(t), d) == self.at2(t, d), patterns=[expo(rf(t), d)]))
            return ExpMat(self.n, self.w, lambda t: rf(t), Region("fresh"), dt_uint32)
        raise U(f"flat uint32 array .{attr}", node)

    def sx_binop(self, ex, op, other, node, reflected):
        if op in ("Add", "Sub") and isinstance(other, int) and not isinstance(other, bool) and not reflected:
            k = other if op == "Add" else -other
            at2 = self.at2
            return FlatCodes(self.n, self.w, lambda t, d: wrap32(at2(t, d) + k))
        return NotImplemented


def ustr_width(v):
    """width w of a dtype designation 'U<w>' (python str or f-string with a symbolic width)"""
    if isinstance(v, str) and v.startswith("U") and v[1:].isdigit():
        return int(v[1:])
    if isinstance(v, V.SymStr) and len(v.parts) == 2 and v.parts[0] == "U" and isinstance(v.parts[1], (int, z3.ArithRef)):
        return v.parts[1]
    return None


class StrVec:
    """n strings of width w; extra: number of further (non-field) keys appended by numpy.concatenate"""

    def __init__(self, n, w, cp, extra=0):
        self.n, self.w, self.cp, self.extra = n, w, cp, extra

    def total(self):
        return self.n + self.extra if not (isinstance(self.extra, int) and self.extra == 0) else self.n

    def sx_len(self, ex):
        return self.total()

    def sx_getattr(self, ex, attr, node):
        if attr == "shape":
            return (self.total(),)
        return V.BoundMethod(self, attr)

    def sx_seq(self, ex):
        return V.Seq(self.total(), lambda t: KeyStr(self, t))

    def sx_iter(self, ex):
        return None

    def sx_method(self, ex, attr, args, kw, node):
        if attr == "astype" and len(args) == 1:
            k = ustr_width(args[0])
            if k is not None:
                site = ex.site("astype_unicode")
                ex.oblige(f"pre({site}).no_truncation", k >= self.w if not (isinstance(k, int) and isinstance(self.w, int))
                          else z3.BoolVal(k >= self.w), "precondition", node,
                          note="a narrower string type would cut off the last exponents of every key")
                ex.oblige(f"pre({site}).only_field_keys", z3.BoolVal(True) if (isinstance(self.extra, int) and self.extra == 0)
                          else self.extra == 0, "precondition", node, note="allocation padding keys are not exponent rows")
                cp, w = self.cp, self.w
                return StrVec(self.n, k, lambda t, d: z3.If(d < w, cp(t, d), 0))
        if attr == "view" and len(args) == 1 and isinstance(args[0], V.TypeRef) and args[0].name == "numpy.uint32":
            return FlatCodes(self.n, self.w, self.cp)
        raise U(f"string array .{attr}", node)


class KeyStr:
    def __init__(self, vec, t):
        self.vec, self.t = vec, t


class StructDT:
    def __init__(self, names, fdtype):
        self.names, self.fdtype = names, fdtype         # names: StrVec


class RawNew:
    """result of ndarray.__new__(cls, shape=..., dtype=StructDT): attributes are filled in by ndpoly.__new__"""

    def __init__(self, shape, sdt):
        self.shape, self.sdt = shape, sdt
        self.attrs = {}
        self.region = Region("fresh", "ndarray.__new__")

    def sx_setattr(self, ex, attr, v, node):
        self.attrs[attr] = v

    def sx_getattr(self, ex, attr, node):
        if attr in self.attrs:
            return self.attrs[attr]
        raise U(f"attribute {attr} of the raw array", node)


class ClassRef:
    """`cls` inside ndpoly.__new__ / `self` for class constants: KEY_OFFSET is read from the class body on every run"""

    def __init__(self, key_offset):
        self.key_offset = key_offset

    def sx_getattr(self, ex, attr, node):
        if attr == "KEY_OFFSET":
            return self.key_offset
        raise U(f"class attribute {attr}", node)


class SuperRef:
    def sx_getattr(self, ex, attr, node):
        return V.BoundMethod(self, attr)

    def sx_method(self, ex, attr, args, kw, node):
        if attr == "__new__":
            extra = kw.get("**")
            if extra not in (None, {}) and not (isinstance(extra, dict) and not extra):
                raise U("ndarray.__new__ with extra keywords", node)
            shape, sdt = kw.get("shape"), kw.get("dtype")
            if not isinstance(sdt, StructDT):
                raise U("ndarray.__new__ with this dtype", node)
            return RawNew(shape, sdt)
        raise U(f"super().{attr}", node)


def key_offset_of(repo=None):
    """ndpoly.KEY_OFFSET as written in baseclass.py (AST, every run)"""
    import ast
    from .extract import ModInfo
    mod = ModInfo("numpoly/baseclass.py", repo)
    for st in mod.classes["ndpoly"].body:
        tgt = st.target if isinstance(st, ast.AnnAssign) else (st.targets[0] if isinstance(st, ast.Assign) else None)
        if isinstance(tgt, ast.Name) and tgt.id == "KEY_OFFSET" and getattr(st, "value", None) is not None:
            return ast.literal_eval(st.value)
    raise KeyError("KEY_OFFSET")


def install(reg):
    ax = reg.axiom
    prev_array = reg.fn["numpy.array"]
    prev_asarray = reg.fn["numpy.asarray"]

    @ax("numpy.min")
    def amin(ex, args, kw, node):
        return _extreme(ex, args, kw, node, lambda m, e: m <= e, "min")

    @ax("numpy.max")
    def amax(ex, args, kw, node):
        return _extreme(ex, args, kw, node, lambda m, e: m >= e, "max")

    def _extreme(ex, args, kw, node, rel, what):
        a = args[0]
        if not isinstance(a, ExpMat) or len(args) != 1 or kw:
            raise U(f"numpy.{what} of this value", node)
        ctx = ex.ctx
        ex.oblige(f"pre({ex.site(what)}).nonempty", prod2(a.n, a.D) != 0, "precondition", node,
                  note=f"numpy.{what} of an empty array raises")
        m = ctx.int(what)
        t0, d0 = ctx.int("t_" + what), ctx.int("d_" + what)
        ctx.assume(ctx.forall_range(0, a.n, lambda t: ctx.forall_range(0, a.D, lambda d: rel(m, expo(a.row(t), d)))))
        ctx.assume(z3.And(0 <= t0, t0 < a.n, 0 <= d0, d0 < a.D, m == expo(a.row(t0), d0)))
        return m

    @ax("numpy.prod")
    def prod(ex, args, kw, node):
        a = args[0]
        if isinstance(a, tuple) and len(a) == 2 and not kw and len(args) == 1:
            return prod2(a[0], a[1])
        if isinstance(a, tuple) and len(a) == 1 and not kw and len(args) == 1:
            return a[0]
        raise U("numpy.prod of this value", node)

    @ax("numpy.array")
    def array(ex, args, kw, node):
        a = args[0]
        if isinstance(a, ExpMat) and len(args) == 1 and set(kw) == {"dtype"}:
            dt = as_dtype(ex, kw["dtype"], node)
            if simplify_bool(dt == dt_uint32) is True:
                ctx = ex.ctx
                rf = ctx.func("as_uint32", I, Mono)
                t, d = z3.Int(ctx.fresh("t")), z3.Int(ctx.fresh("d"))
                ctx.assume(z3.ForAll([t, d], expo(rf(t), d) == wrap32(expo(a.row(t), d)), patterns=[expo(rf(t), d), expo(a.row(t), d)]))
                return ExpMat(a.n, a.D, lambda t: rf(t), Region("fresh"), dt_uint32)
        if isinstance(a, StrVec) and len(args) == 1 and set(kw) == {"dtype"}:
            k = ustr_width(kw["dtype"])
            if k is not None:
                ex.oblige(f"pre({ex.site('array_unicode')}).same_width", k == a.w if not (isinstance(k, int) and isinstance(a.w, int))
                          else z3.BoolVal(k == a.w), "precondition", node)
                return StrVec(a.n, a.w, a.cp, a.extra)
        return prev_array(ex, args, kw, node)

    @ax("numpy.full")
    def full(ex, args, kw, node):
        if len(args) == 2 and args[0] == (1,) and isinstance(args[1], int) and kw.get("dtype") == "uint32":
            v = args[1]
            return FlatCodes(1, 1, lambda t, d: z3.IntVal(v))
        raise U("numpy.full in this form", node)

    @ax("numpy.arange")
    def arange(ex, args, kw, node):
        if len(args) == 2 and not kw:
            lo, hi = args
            n = z3.If(hi >= lo, hi - lo, 0)
            return IntVec(z3.simplify(n) if isinstance(n, z3.ExprRef) else n, lambda k: lo + k)
        raise U("numpy.arange in this form", node)

    @ax("numpy.concatenate")
    def concatenate(ex, args, kw, node):
        parts = args[0]
        if isinstance(parts, list) and len(parts) == 2 and isinstance(parts[0], StrVec) and isinstance(parts[1], V.Seq) and not kw:
            keys, more = parts
            n = more.n
            if isinstance(n, z3.ExprRef):
                n = z3.simplify(n)
                if z3.is_int_value(n):
                    n = n.as_long()
            return StrVec(keys.n, keys.w, keys.cp, n)
        raise U("numpy.concatenate in this form", node)

    @ax("numpy.dtype")
    def dtype(ex, args, kw, node):
        a = args[0]
        if isinstance(a, V.Seq) and len(args) == 1 and not kw:
            probe = a.item(z3.Int(ex.ctx.fresh("probe")))
            if isinstance(probe, tuple) and len(probe) == 2 and isinstance(probe[0], KeyStr):
                vec = probe[0].vec
                ctx = ex.ctx
                site = ex.site("numpy.dtype")
                n, w, cp = vec.n, vec.w, vec.cp
                ex.oblige(f"pre({site}).one_field_per_key", a.n == n, "precondition", node)
                valid = ctx.forall_range(0, n, lambda t: ctx.forall_range(0, w, lambda d: z3.And(0 <= cp(t, d), cp(t, d) <= MAXCP)))
                if not ex.decide(valid, "dtype.valid_code_points"):
                    # observed (numpy 2.5.3): a ONE-character field name with a code point above 0x10FFFF raises SystemError ("invalid
                    # maximum character"); in a longer name such a code point is accepted - the name is kept as numpy.str_ and never
                    # becomes a Python str.  Both outcomes are modelled for w >= 2.
                    from .sx import RaiseSig
                    single = (w == 1) if isinstance(w, int) else ex.decide(w == 1, "dtype.single_character_names")
                    if single or ex.choice(2, "dtype.code_point_above_the_unicode_range") == 0:
                        raise RaiseSig("SystemError", node, "field name with a code point above 0x10FFFF")
                ex.oblige(f"pre({site}).field_names_non_empty", ctx.forall_range(0, n, lambda t: z3.Not(
                    ctx.forall_range(0, w, lambda d: cp(t, d) == 0))), "precondition", node,
                    note="numpy silently renames an empty field name to 'f0'")
                distinct = ctx.forall_range2(0, n, lambda t, s: z3.Not(ctx.forall_range(0, w, lambda d: cp(t, d) == cp(s, d))))
                if not ex.decide(distinct, "dtype.distinct_field_names"):
                    # name the two equal fields (skolem constants) so that facts about the rows they came from can be
                    # instantiated; `pair_hints` are tautologies (fresh boolean == ground term) supplied by the contract
                    t0, s0 = ctx.int("dup_t"), ctx.int("dup_s")
                    ctx.assume(z3.And(0 <= t0, t0 < s0, s0 < n, ctx.forall_range(0, w, lambda d: cp(t0, d) == cp(s0, d))))
                    for h in getattr(ex, "pair_hints", []):
                        ctx.assume(ctx.bool("hint") == h(t0, s0))
                    from .sx import RaiseSig
                    raise RaiseSig("ValueError", node, "field name occurs more than once")
                vec.distinct_fact = distinct
                return StructDT(vec, as_dtype(ex, probe[1], node))
        if isinstance(a, (DTypeV, V.BuiltinRef, str)) or (isinstance(a, z3.ExprRef) and a.sort() == DT):
            return DTypeV(as_dtype(ex, a, node))
        raise U("numpy.dtype of this value", node)

    reg.builtins["super"] = lambda ex, args, kw, node: SuperRef()
