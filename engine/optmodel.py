"""Logical model of numpoly's option dictionaries (dicts as z3 arrays + object identity)."""
from __future__ import annotations
import z3
from . import values as V
from .values import U

OKey = z3.DeclareSort("OKey")
OVal = z3.DeclareSort("OVal")

KNOWN_KEYS = ["default_varname", "display_graded", "display_reverse", "display_inverse",
              "display_exponent", "display_multiply", "force_number_suffix", "retain_names",
              "retain_coefficients", "sort_graded", "sort_reverse", "varname_filter"]
BOOL_KEYS = {"display_graded", "display_reverse", "display_inverse", "force_number_suffix",
             "retain_names", "retain_coefficients", "sort_graded", "sort_reverse"}

_consts = {}
ovbool = z3.Function("ovbool", OVal, z3.BoolSort())      # boolean reading of an option value
oval_of_bool = z3.Function("oval_of_bool", z3.BoolSort(), OVal)


def okey(s: str):
    if s not in _consts:
        _consts[s] = z3.Const(f"opt:{s}", OKey)
    return _consts[s]


def distinct_keys():
    ks = [okey(k) for k in KNOWN_KEYS] + [v for k, v in _consts.items() if k not in KNOWN_KEYS]
    return z3.Distinct(*ks)


_ids = [0]


class OptDict:
    """A python dict str->value, as (dom, val) arrays; mutable; `ident` is object identity."""
    is_dict = True

    def __init__(self, dom, val, owner="fresh"):
        self.dom, self.val, self.owner = dom, val, owner
        _ids[0] += 1
        self.ident = _ids[0]

    @staticmethod
    def symbolic(ctx, base, owner="module"):
        return OptDict(z3.Const(ctx.fresh(base + "_dom"), z3.ArraySort(OKey, z3.BoolSort())),
                       z3.Const(ctx.fresh(base + "_val"), z3.ArraySort(OKey, OVal)), owner)

    def snapshot(self):
        return (self.dom, self.val)

    def equals(self, ctx, dom, val):
        x = z3.Const(ctx.fresh("x"), OKey)
        return z3.ForAll([x], z3.And(self.dom[x] == dom[x], z3.Implies(dom[x], self.val[x] == val[x])))

    # ---- protocol
    def sx_isinstance(self, ex, name):
        return name == "dict"

    def sx_contains(self, ex, item, node):
        return self.dom[_key(item, node)]

    def sx_getitem(self, ex, idx, node):
        k = _key(idx, node)
        ex.oblige(ex.site("dict_lookup"), self.dom[k], "index", node)
        if isinstance(idx, str):
            ex.ctx.option_atoms.add(idx)
        v = self.val[k]
        if isinstance(idx, str) and idx in BOOL_KEYS:
            return ovbool(v)
        return OptValue(v, idx if isinstance(idx, str) else None)

    def sx_getattr(self, ex, attr, node):
        return V.BoundMethod(self, attr)

    def sx_method(self, ex, attr, args, kw, node):
        if attr == "copy" and not args and not kw:
            return OptDict(self.dom, self.val, "fresh")
        if attr == "update":
            if args:
                raise U("dict.update positional", node)
            self._write_check(ex, node)
            has, at = kwargs_as_map(ex, kw, node)
            x = z3.Const(ex.ctx.fresh("x"), OKey)
            self.dom = z3.Lambda([x], z3.Or(self.dom[x], has(x)))
            y = z3.Const(ex.ctx.fresh("y"), OKey)
            old = self.val
            self.val = z3.Lambda([y], z3.If(has(y), at(y), old[y]))
            return None
        raise U(f"dict.{attr}", node)

    def sx_setitem(self, ex, idx, value, node):
        self._write_check(ex, node)
        k = _key(idx, node)
        self.dom = z3.Store(self.dom, k, True)
        self.val = z3.Store(self.val, k, _val(value))

    def _write_check(self, ex, node):
        allowed = getattr(ex, "writable_dicts", None)
        ok = allowed is None or self.ident in allowed or self.owner == "fresh"
        ex.oblige(ex.site("write.frame"), z3.BoolVal(ok), "frame", node,
                  note=f"write to dict owned by {self.owner}")

    def sx_truth(self, ex):
        x = z3.Const(ex.ctx.fresh("x"), OKey)
        return z3.Exists([x], self.dom[x])


class OptValue:
    """A non-boolean option value (string): opaque."""

    def __init__(self, term, key=None):
        self.term, self.key = term, key

    def sx_len(self, ex):
        return z3.Function("ovlen", OVal, z3.IntSort())(self.term)


def _key(k, node=None):
    if isinstance(k, str):
        return okey(k)
    if isinstance(k, z3.ExprRef) and k.sort() == OKey:
        return k
    raise U("option key of unknown kind", node)


def _val(v):
    if isinstance(v, bool):
        return oval_of_bool(z3.BoolVal(v))
    if isinstance(v, z3.BoolRef):
        return oval_of_bool(v)
    if isinstance(v, OptValue):
        return v.term
    if isinstance(v, z3.ExprRef) and v.sort() == OVal:
        return v
    if isinstance(v, str):
        return z3.Const(f"ostr:{v}", OVal)
    raise U("option value of unknown kind")


def kwargs_as_map(ex, kw, node=None):
    """**kwargs of a call as (has, at) functions over OKey."""
    star = kw.get("**")
    named = {k: v for k, v in kw.items() if k != "**"}
    if star is None:
        def has(x):
            return z3.Or(*[x == okey(k) for k in named]) if named else z3.BoolVal(False)

        def at(x):
            out = z3.Const("oval_dummy", OVal)
            for k, v in named.items():
                out = z3.If(x == okey(k), _val(v), out)
            return out
        return has, at
    if named:
        raise U("mix of ** and named option arguments", node)
    if isinstance(star, V.SymKwargs):
        return (lambda x: star.has(x)), (lambda x: star.at(x))
    if isinstance(star, OptDict):
        dom, val = star.dom, star.val
        return (lambda x: dom[x]), (lambda x: val[x])
    raise U("** of unknown mapping", node)
