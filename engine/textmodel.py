"""Model of Python strings built by concatenation of a few kinds of pieces (DESIGN 3 C16: display of one polynomial).

A Text is a tuple of tokens
    ("lit", s)        a literal Python string (adjacent literals are merged; empty ones dropped)
    ("num", c)        str(c) of a real number c (coefficient)                      -- never empty, never "-" or "+";
                                                                                      starts with "-" exactly when c < 0 (A1: reals)
    ("int", e)        str(e) of an integer e (exponent)                            -- digits, with "-" in front when e < 0
    ("opt", key)      the string value of the display option `key`                -- arbitrary text chosen by the user
    ("name", x)       an indeterminate name x (z3 term of sort Name or Python str) -- not empty

What is assumed about str() of numbers is listed in the evidence ("text axioms").  Only the operations the display code uses
are modelled: +, +=, == / in against literal strings, startswith(literal), truth value.
"""
from __future__ import annotations
import z3
from . import values as V
from .values import U
from .logic import Name


def _tok(v):
    from .optmodel import OptValue
    if isinstance(v, Text):
        return list(v.toks)
    if isinstance(v, str):
        return [("lit", v)] if v else []
    if isinstance(v, OptValue):
        return [("opt", v.key if v.key is not None else v.term)]
    if isinstance(v, z3.ExprRef) and v.sort() == Name:
        return [("name", v)]
    return None


def make(toks):
    out = []
    for k, v in toks:
        if k == "lit":
            if not v:
                continue
            if out and out[-1][0] == "lit":
                out[-1] = ("lit", out[-1][1] + v)
                continue
        out.append((k, v))
    if all(k == "lit" for k, _ in out):
        return out[0][1] if out else ""
    return Text(out)


def concat(l, r):
    a, b = _tok(l), _tok(r)
    if a is None or b is None:
        return None
    return make(a + b)


class Text:
    def __init__(self, toks):
        self.toks = tuple(toks)

    def __repr__(self):
        return "Text(" + " ".join(f"{k}:{v}" for k, v in self.toks) + ")"

    def sx_binop(self, ex, op, other, node, reflected):
        if op != "Add":
            return NotImplemented
        res = concat(other, self) if reflected else concat(self, other)
        if res is None:
            raise U(f"string + {type(other).__name__}", node)
        return res

    def nonempty_for_sure(self):
        return any(k in ("num", "int", "name") for k, _ in self.toks) or any(k == "lit" for k, _ in self.toks)

    def sx_truth(self, ex):
        if self.nonempty_for_sure():
            return True
        raise U("truth value of a string made of option values only", None)

    def sx_compare(self, ex, op, other, node, reflected):
        if op not in ("Eq", "NotEq") or not isinstance(other, str):
            return NotImplemented
        eq = self._eq_literal(other, node)
        return eq if op == "Eq" else (not eq)

    def sx_in(self, ex, container, node):
        if isinstance(container, (tuple, list)) and all(isinstance(x, str) for x in container):
            return any(self._eq_literal(x, node) for x in container)
        raise U("membership of a built string in this container", node)

    def _eq_literal(self, s, node):
        """equality with a literal, decided only where it does not depend on the text of numbers / names / options"""
        kinds = [k for k, _ in self.toks]
        if s in ("", "-", "+"):
            if any(k in ("num", "name") for k in kinds):
                return False            # str(number) is never "", "-" or "+"; a name is a non-empty identifier
            if any(k == "int" for k in kinds):
                return False
        raise U(f"comparison of a built string with {s!r}", node)

    def sx_getattr(self, ex, attr, node):
        return V.BoundMethod(self, attr)

    def sx_method(self, ex, attr, args, kw, node):
        if attr == "startswith" and len(args) == 1 and isinstance(args[0], str) and not kw:
            return self.startswith(ex, args[0], node)
        raise U(f"str.{attr} on a built string", node)

    def startswith(self, ex, prefix, node=None):
        k, v = self.toks[0]
        if k == "lit":
            if len(v) >= len(prefix):
                return v.startswith(prefix)
            if not prefix.startswith(v):
                return False
            raise U("startswith across pieces", node)
        if k == "num" and prefix == "-":
            return v < 0                # text axiom: str(c) starts with "-" exactly for negative c
        if k == "num" and prefix == "+":
            return False
        if k == "name" and prefix in ("-", "+"):
            return False                # identifiers do not start with a sign
        raise U(f"startswith({prefix!r}) of a string that begins with {k}", node)


def install(reg):
    prev_str = reg.builtins["str"]

    def _str(ex, args, kw, node):
        v = args[0] if args else None
        if len(args) == 1 and not kw:
            if isinstance(v, z3.ArithRef) and not isinstance(v, z3.BoolRef):
                return Text([("int" if v.is_int() else "num", v)])
            if hasattr(v, "as_scalar"):
                s = v.as_scalar(ex, node)
                if s is not None:
                    return Text([("num", s)])
        return prev_str(ex, args, kw, node)
    reg.builtins["str"] = _str
