"""Generate and discharge the obligations of a set of contracts."""
from __future__ import annotations
import time
from .contract import verify
from .solve import discharge


class StaticObligation:
    """Obligation decided by inspection of the AST (registry enumeration, frame scans);
    carried through the same reporting pipeline."""

    def __init__(self, oid, ok, where="", lineno=0, note=""):
        self.oid, self.ok, self.where, self.lineno, self.note = oid, bool(ok), where, lineno, note


def prove(contracts, registry, repo=None, timeout_ms=20000, statics=(), cvc5_all=False):
    t0 = time.time()
    reports = [verify(c, registry, repo) for c in contracts]
    obls = []
    for r in reports:
        obls.extend(r.obligations)
    results = discharge(obls, timeout_ms=timeout_ms, cvc5_all=cvc5_all) if obls else []
    for s in statics:
        results.append(dict(oid=s.oid, kind="static", lineno=s.lineno, hash="", smt2="",
                            verdict="discharged" if s.ok else "refuted", backend="ast-scan",
                            z3="", z3_s=0.0, note=s.note, where=s.where))
    return reports, results, round(time.time() - t0, 2)
