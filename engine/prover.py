"""Generate and discharge the obligations of a set of contracts."""
from __future__ import annotations
import time
from .contract import verify
from .solve import discharge


class StaticObligation:
    """Obligation decided by inspection of the AST (registry enumeration, frame scans);
    carried through the same reporting pipeline."""

    def __init__(self, oid, ok, where="", lineno=0, note=""):
        self.oid, self.ok, self.where, self.lineno, self.note = oid, bool(ok), where, lineno, note


def _gen_worker(job):
    """Generate the obligations of one contract in a worker process (z3 terms are not picklable:
    the SMT-LIB text is what travels)."""
    name, repo, case_index = job
    import hashlib
    from props import ALL_CONTRACTS, build_registry
    reg = build_registry()
    try:
        rep = verify(ALL_CONTRACTS[name], reg, repo, case_index)
    except Exception as e:          # a crash of the generator is never a verdict about the code
        import traceback
        from .contract import FunctionReport
        rep = FunctionReport(ALL_CONTRACTS[name])
        rep.status, rep.reason = "engine_error", f"{type(e).__name__}: {e} | " + traceback.format_exc(limit=4).replace("\n", " / ")[-600:]
        rep.obligations = []
    items = []
    import z3
    for ob in rep.obligations:
        if ob.kind != "vacuity" and z3.is_true(ob.goal):
            # the goal is the literal `true` (a structural check the contract decided in Python on this path): nothing to solve
            items.append(dict(oid=ob.oid, kind=ob.kind, lineno=ob.lineno, hash="literal-true", smt2="", note=ob.note, literal=True))
            continue
        text = ob.smt2()
        items.append(dict(oid=ob.oid, kind=ob.kind, lineno=ob.lineno, hash=hashlib.sha1(text.encode()).hexdigest()[:16],
                          smt2=text, note=ob.note))
    summary = dict(name=rep.name, status=rep.status, reason=rep.reason, paths=rep.paths, cases=rep.cases,
                   source_hash=rep.source_hash, gen_s=rep.gen_s, n_obligations=len(items))
    return summary, items, sorted(reg.used)


class Report:
    def __init__(self, d):
        self.__dict__.update(d)
        self.obligations = [None] * d["n_obligations"]
        self.vacuity = []


def prove(contracts, registry, repo=None, timeout_ms=20000, statics=(), cvc5_all=False, lemmas=(), brief=()):
    import hashlib
    import multiprocessing as mp
    from .solve import discharge_texts
    t0 = time.time()
    # one generation job per (function, input-kind case): cases are independent symbolic executions
    jobs = []
    for c in contracts:
        try:
            ncases = sum(1 for _ in c.cases())
        except Exception:
            ncases = 0
        if ncases <= 1:
            jobs.append((c.name, repo, None))
        else:
            jobs.extend((c.name, repo, k) for k in range(ncases))
    reports, items = [], []
    for fn in lemmas:
        for ob in fn():
            text = ob.smt2()
            items.append(dict(oid=ob.oid, kind=ob.kind, lineno=0, hash=hashlib.sha1(text.encode()).hexdigest()[:16],
                              smt2=text, note=ob.note))
    if jobs:
        # one fresh forked process per job: the pruning queries of the executor run in-process under a z3 resource limit, and what
        # z3 can do within that limit depends on the state of its context (terms made by earlier jobs of the same worker) - with
        # reused workers the set of explored paths changed from run to run
        with mp.get_context("fork").Pool(min(16, len(jobs)), maxtasksperchild=1) as pool:
            merged = {}
            for summary, its, used in pool.map(_gen_worker, jobs, chunksize=1):
                items.extend(its)
                registry.used.update(used)
                m = merged.get(summary["name"])
                if m is None:
                    merged[summary["name"]] = summary
                else:
                    for k in ("paths", "cases", "n_obligations"):
                        m[k] += summary[k]
                    m["gen_s"] = round(max(m["gen_s"], summary["gen_s"]), 3)
                    if summary["status"] != "ok" and m["status"] == "ok":
                        m["status"], m["reason"] = summary["status"], summary["reason"]
                    m["source_hash"] = m["source_hash"] or summary["source_hash"]
            for c in contracts:
                if c.name in merged:
                    reports.append(Report(merged[c.name]))
    results = discharge_texts(items, timeout_ms=timeout_ms, cvc5_all=cvc5_all, brief=brief) if items else []
    # vacuity queries: `False` must not be provable; they are not counted as obligations
    kept = []
    for d in results:
        if d["kind"] == "vacuity":
            fn = d["oid"].split("#")[0].split("[")[0]
            if d["verdict"] == "discharged" and not any(r.name == fn for r in reports):
                d2 = dict(d, verdict="refuted", backend="vacuity", note="hypotheses of this lemma are contradictory")
                kept.append(d2)
            for r in reports:
                if r.name == fn:
                    r.vacuity.append((d["oid"], d.get("z3")))
                    if d["verdict"] == "discharged":
                        r.status, r.reason = "vacuous", f"{d['oid']}: precondition is contradictory"
            continue
        kept.append(d)
    results = kept
    for s in statics:
        results.append(dict(oid=s.oid, kind="static", lineno=s.lineno, hash="", smt2="",
                            verdict="discharged" if s.ok else "refuted", backend="ast-scan",
                            z3="", z3_s=0.0, note=s.note, where=s.where))
    return reports, results, round(time.time() - t0, 2)
