"""Self-test of the VC generator: CPython cross-check of the symbolic executor on synthetic functions (./vcheck selftest).

For every function of selftest/samples.py and every input pair (a, b) of a grid, the function is
  * run by CPython, giving `return v` or `raise E`;
  * run by the symbolic executor on SYMBOLIC integers a, b under the hypotheses a == <value>, b == <value>, so that every
    operator, comparison, branch decision and loop goes through the same z3 encoding the contracts of numpoly use.
Loops over a symbolic range are cut at real invariants (LOOPS below), so initiation, preservation and use of the invariant go
through the same machinery as the contracts' loops.  Functions named refused_* use constructs the executor does not encode
(`except` across a class hierarchy, for/else over a symbolic range, // on floats, a loop-carried variable its loop
specification does not describe): it must refuse them.
Obligations: the executor's outcome has CPython's kind, exception name and value.  One control obligation per input (value ==
CPython's value + 1) must NOT be discharged, and the vacuity query of each case must not be provable - so a pipeline that
proves everything is noticed as well.  Exit 0: all as expected; 1: the executor disagrees with CPython (an unsound or wrong
encoding - no verdict of the checks is to be trusted until repaired); 3: crash.
"""
from __future__ import annotations
import importlib.util
import os
import sys
import z3
from .contract import Contract, Case
from .sx import LoopSpec

HERE = os.path.dirname(os.path.dirname(os.path.abspath(__file__)))
SAMPLES_DIR = os.path.join(HERE, "selftest")
GRID = (-7, -3, -1, 0, 1, 2, 3, 5, 8)
FAST_GRID = (-3, -1, 0, 2, 5)


def _native():
    spec = importlib.util.spec_from_file_location("verif_selftest_samples", os.path.join(SAMPLES_DIR, "samples.py"))
    mod = importlib.util.module_from_spec(spec)
    spec.loader.exec_module(mod)
    return mod


def _expected(fn, a, b):
    try:
        v = fn(a, b)
    except Exception as e:              # noqa: BLE001 - the kind of exception IS the expected outcome
        return ("raise", type(e).__name__)
    return ("return", int(v) if isinstance(v, bool) else v)


def _spec(modifies, inv):
    """loop cut at a real invariant over the modified integer variables (havoc = fresh integers)"""
    def havoc(ex, env, k):
        for name in modifies:
            if name in env or name != "i":
                env[name] = ex.ctx.int(name)

    def inv_(ex, env, k):
        return inv(env, k)
    return LoopSpec(inv_, havoc, modifies=modifies)


def _n_of(env):
    return env["n"]


LOOPS = {
    # while i < n: total += b; i += 1
    "while_count": {1: _spec(("total", "i"), lambda env, k: [("bounds", z3.And(0 <= env["i"], env["i"] <= env["n"])),
                                                           ("sum", env["total"] == env["i"] * env["b"])])},
    # for i in range(n): acc = acc + b + 1
    "for_range_sum": {1: _spec(("acc", "i"), lambda env, k: [("sum", env["acc"] == k * (env["b"] + 1))])},
    # for i in range(n): if i == b: continue; acc += 1
    "for_continue": {1: _spec(("acc", "i"), lambda env, k: [("count", env["acc"] == k - z3.If(z3.And(0 <= env["b"], env["b"] < k), 1, 0))])},
    # for i in range(n): if i >= b: found = i; break
    "for_break": {1: _spec(("found", "i"), lambda env, k: [("not_found_yet", z3.And(env["found"] == -1, z3.Or(k == 0, k - 1 < env["b"])))])},
    # for i in range(n): acc = acc + carry; carry = b  -- the loop specification declares `carry` modified but its havoc and its
    # invariant say nothing about it: the executor must refuse to read the left-over value instead of treating it as every iteration's
    "refused_stale_loop_value": {1: LoopSpec(lambda ex, env, k: [("trivial", env["acc"] == env["acc"])],
                                             lambda ex, env, k: env.__setitem__("acc", ex.ctx.int("acc")), modifies=("acc", "i", "carry"))},
}


class Sample(Contract):
    relpath = "samples.py"
    properties = ()

    def __init__(self, fname, table):
        self.func, self.name, self.table = fname, f"selftest.{fname}", table

    def cases(self):
        loops = LOOPS.get(self.func, {})
        for (a, b), exp in self.table:
            def make_env(ex, a=a, b=b):
                ctx = ex.ctx
                A, B = ctx.int("a"), ctx.int("b")
                ctx.assume(A == a)
                ctx.assume(B == b)
                return {"a": A, "b": B}

            def check(out, exp=exp):
                ex = out.ex
                kind = "raise" if out.kind == "raise" else "return"
                ex.oblige("cpython.same_kind_of_outcome", z3.BoolVal(kind == exp[0]), "post",
                          note=f"CPython: {exp}; executor: {out.kind} {out.exc if out.kind == 'raise' else ''}")
                if kind != exp[0]:
                    return
                if kind == "raise":
                    ex.oblige("cpython.same_exception", z3.BoolVal(out.exc == exp[1]), "post", note=f"CPython raises {exp[1]}, executor {out.exc}")
                    return
                v = out.value
                if isinstance(v, z3.BoolRef):
                    v = z3.If(v, 1, 0)
                if isinstance(v, (bool, int)):
                    ex.oblige("cpython.same_value", z3.BoolVal(int(v) == exp[1]), "post", note=f"CPython {exp[1]}, executor {v}")
                    ex.oblige("control.value_plus_one", z3.BoolVal(int(v) == exp[1] + 1), "post")
                elif isinstance(v, z3.ExprRef):
                    ex.oblige("cpython.same_value", v == exp[1], "post", note=f"CPython returns {exp[1]}")
                    ex.oblige("control.value_plus_one", v == exp[1] + 1, "post")
                else:
                    ex.oblige("cpython.same_value", z3.BoolVal(False), "post", note=f"executor returned {type(v).__name__}")
            yield Case(f"a={a},b={b}", make_env, check, loops=loops)

    def apply(self, ex, args, kw, node):
        raise NotImplementedError


def main(fast=False):
    import inspect
    import props
    from .prover import prove
    mod = _native()
    grid = FAST_GRID if fast else GRID
    contracts = []
    for fname, fn in inspect.getmembers(mod, inspect.isfunction):
        table = [((a, b), _expected(fn, a, b)) for a in grid for b in grid]
        c = Sample(fname, table)
        contracts.append(c)
        props.ALL_CONTRACTS[c.name] = c            # generation workers are forked: they see the entry
    reg = props.build_registry()
    reports, results, secs = prove(contracts, reg, SAMPLES_DIR, timeout_ms=10000)
    bad, unsupported, n_ok, n_ctrl = [], [], 0, 0
    refused = 0
    for r in reports:
        must_refuse = r.name.startswith("selftest.refused_")
        if must_refuse and r.status == "unsupported":
            refused += 1
        elif must_refuse:
            bad.append(f"{r.name}: a construct outside the encoded subset was NOT refused (status {r.status})")
        elif r.status != "ok":
            unsupported.append(f"{r.name}: {r.status} {r.reason}")
    # an obligation id may be posed on several paths; infeasible paths (contradictory path condition, e.g. the iteration branch
    # of a loop that does not iterate) prove anything, so a negative control counts as failed only if NO path refutes it
    by_oid = {}
    for d in results:
        by_oid.setdefault(d["oid"], []).append(d)
    for oid, ds in sorted(by_oid.items()):
        ctrl = "#control." in oid
        n_ctrl += ctrl
        good = any(d["verdict"] != "discharged" for d in ds) if ctrl else all(d["verdict"] == "discharged" for d in ds)
        if good:
            n_ok += 1
        else:
            bad.append(f"{oid}: {[d['verdict'] for d in ds]} {ds[0].get('note', '')}")
    for line in unsupported:
        print("SELFTEST-UNSUPPORTED", line)
    for line in bad[:40]:
        print("SELFTEST-DISAGREEMENT", line)
    print(f"selftest: {len(contracts)} sample functions x {len(grid) ** 2} inputs; {len(results)} obligations under {len(by_oid)} ids ({n_ctrl} negative controls), "
          f"{n_ok} as expected, {refused} functions with unencoded constructs refused as they must be, {len(bad)} disagreements with CPython, {len(unsupported)} functions unexpectedly outside the executor's subset; {secs}s")
    if bad:
        return 1
    return 3 if unsupported else 0


if __name__ == "__main__":
    sys.exit(main(fast="--fast" in sys.argv))
