"""Contract objects and the per-function verification driver.

A contract has one `pre`/`post` pair that is used in both directions:
  * verify(): symbolic arguments are created, `pre` is ASSUMED, the real body is executed
    symbolically, `post` becomes OBLIGATIONS on every path;
  * apply() at a call site inside another function: `pre` becomes OBLIGATIONS of the caller,
    a fresh result is created and `post` is ASSUMED.
A caller therefore never sees the callee's body, only this contract.
"""
from __future__ import annotations
import time
import z3
from .extract import ModInfo
from .sx import explore, Unsupported, RaiseSig


class Case:
    """One input-kind case of a function under verification."""

    def __init__(self, label, make_env, check, loops=None, on_yield=None):
        self.label, self.make_env, self.check, self.loops, self.on_yield = label, make_env, check, loops or {}, on_yield


def deep():
    """True in the thorough tier: contracts then add further enumerated cases (more indeterminates, higher arities)"""
    import os
    return os.environ.get("VERIF_DEEP") == "1"


class Contract:
    name = ""          # qualified public name, e.g. "numpoly.glexsort"
    relpath = ""       # file under /repo
    func = ""          # def name
    cls = None         # enclosing class for methods
    properties = ()    # property ids served
    assumptions = ()   # extra unchecked assumptions this contract relies on
    positional = None      # positional parameter names the contract's apply() binds by position: pinned against the source

    def cases(self):
        raise NotImplementedError

    def apply(self, ex, args, kw, node):
        raise NotImplementedError

    # helper for apply(): pose clauses as obligations at the call site
    def require(self, ex, site, clauses, node):
        for cname, f in clauses:
            ex.oblige(f"pre({site}).{cname}", f, "precondition", node)

    def ensure(self, ex, clauses):
        for _, f in clauses:
            ex.assume(f)


class FunctionReport:
    def __init__(self, contract):
        self.contract = contract
        self.name = contract.name
        self.status = "ok"          # ok | unsupported | missing
        self.reason = ""
        self.obligations = []
        self.paths = 0
        self.cases = 0
        self.source_hash = ""
        self.vacuity = []           # (case label, verdict)
        self.gen_s = 0.0


def verify(contract: Contract, registry, repo=None, case_index=None) -> FunctionReport:
    rep = FunctionReport(contract)
    t0 = time.time()
    try:
        mod = ModInfo(contract.relpath, repo)
        fndef = mod.function(contract.func, contract.cls)
    except (OSError, KeyError, SyntaxError) as e:
        rep.status, rep.reason = "missing", repr(e)
        return rep
    mod.label_function(fndef)
    rep.source_hash = mod.function_hash(fndef)
    if contract.positional is not None and case_index in (None, 0):
        # callers are verified against this contract's parameter order: the real signature must agree
        from .logic import Obligation, Ctx
        real = [a.arg for a in (fndef.args.posonlyargs + fndef.args.args)]
        if contract.cls is not None and real and real[0] in ("self", "cls"):
            real = real[1:]
        want = list(contract.positional)
        c0 = Ctx(contract.name)
        c0.oblige("signature.positional_parameter_order", z3.BoolVal(real[: len(want)] == want), "signature", fndef.lineno,
                  f"contract binds positional arguments as {want}; the source declares {real}")
        rep.obligations.extend(c0.obls)
    static_part = list(rep.obligations)       # independent of the body: kept even if the body leaves the executor's subset
    try:
        import os
        only = os.environ.get("VERIF_CASE")          # developer aid: restrict to cases whose label contains this text
        for cidx, case in enumerate(contract.cases()):
            if only and only not in (case.label or ""):
                continue
            if case_index is not None and cidx != case_index:
                continue
            rep.cases += 1
            fname = f"{contract.name}[{case.label}]" if case.label else contract.name

            own = {a.arg for a in (fndef.args.vararg, fndef.args.kwarg) if a is not None}     # *args / **kwargs: the callee's own objects

            def make_env(ex, case=case):
                ex.on_yield = case.on_yield
                env = case.make_env(ex)
                ex.entry_nhyps = len(ex.ctx.hyps)
                # frame: a dict or list handed over by the caller as an ordinary argument must come back as it was
                ex.container_arguments = {k: (v, _container_snapshot(v)) for k, v in env.items()
                                          if isinstance(v, (dict, list)) and k not in own}
                return env

            def on_outcome(out, case=case):
                for k, (obj, snap) in getattr(out.ex, "container_arguments", {}).items():
                    out.ex.oblige(f"frame.argument_{k}_not_modified", z3.BoolVal(_container_snapshot(obj) == snap), "frame",
                                  note=f"the {type(obj).__name__} passed as `{k}` belongs to the caller: no entry added, removed or replaced")
                case.check(out)

            outcomes = explore(mod, fndef, registry, make_env, fname, loops=case.loops, owner=contract,
                               on_outcome=on_outcome)
            for out in outcomes:
                rep.paths += 1
                rep.obligations.extend(out.ctx.obls)
            # vacuity guard: `False` posed under the entry hypotheses of the case must NOT be provable
            first = outcomes[0]
            from .logic import Obligation
            rep.obligations.append(Obligation(f"{fname}#vacuity.entry", "vacuity", first.ex.entry_nhyps,
                                              z3.BoolVal(False), 0, first.ctx))
    except Unsupported as e:
        rep.status, rep.reason = "unsupported", str(e)
        rep.obligations = static_part
    rep.gen_s = round(time.time() - t0, 3)
    return rep


def _container_snapshot(v):
    if isinstance(v, dict):
        return tuple((k, id(x)) for k, x in v.items())
    return tuple(id(x) for x in v)


def raise_(exc, node=None, info=None):
    raise RaiseSig(exc, node, info)
