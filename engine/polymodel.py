"""Logical model of numpy arrays and numpoly polynomial arrays (DESIGN 2.3).

Arr   : ndarray over abstract positions `Idx`; elem(i) is Real (numeric) or Bool.
Poly  : ndpoly = N terms; row(t): Mono (exponent row), C(t,i): coefficient of term t at
        position i, names (term of sort Names), shape, dtype, definedness init(t,i).
Views (columns of `.values`, `ravel()`) read *through* to their parent, so in-place writes
are seen by every alias; every write poses a frame obligation against caller-owned regions.
"""
from __future__ import annotations
import z3
from . import values as V
from .values import U
from .logic import (Idx, Shp, Mono, Name, DT, PV, I, B, R, expo, inshape, bshape, bok, proj, ndim, size, msum,
                    mzero, simplify_bool)
from .sortmodel import KeyMat, IntVec

Names = z3.DeclareSort("Names")
nlen = z3.Function("nlen", Names, I)
nat = z3.Function("nat", Names, I, Name)
npos = z3.Function("npos", Names, Name, I)        # first position of a name in a tuple of names (meaningful when nin holds)


def nin(nm, x):
    """x in nm"""
    return z3.And(0 <= npos(nm, x), npos(nm, x) < nlen(nm), nat(nm, npos(nm, x)) == x)


def names_axioms(ctx):
    nm = z3.Const(ctx.fresh("nm"), Names)
    d = z3.Int(ctx.fresh("d"))
    # every element of a tuple is `in` it, and npos is its first position
    return [z3.ForAll([nm, d], z3.Implies(z3.And(0 <= d, d < nlen(nm)), z3.And(
        0 <= npos(nm, nat(nm, d)), npos(nm, nat(nm, d)) <= d, nat(nm, npos(nm, nat(nm, d))) == nat(nm, d))),
        patterns=[nat(nm, d)]),
        z3.ForAll([nm], nlen(nm) >= 0)]

shp0 = z3.Const("shp_scalar", Shp)               # shape ()
ravel_shape = z3.Function("ravel_shape", Shp, Shp)
ravel_idx = z3.Function("ravel_idx", Idx, Shp, Idx)       # position in a.ravel() of position i of shape s
unravel_idx = z3.Function("unravel_idx", Idx, Shp, Idx)
the_idx = z3.Function("the_idx", Shp, Idx)                # the single position of a size-1 shape
sconcat = z3.Function("sconcat", Shp, Shp, Shp)
tshape = z3.Function("tshape", Shp, Shp)                  # shape of a.T
tidx = z3.Function("tidx", Idx, Shp, Idx)                 # position in a of position j of a.T (a of shape s)
shape1 = z3.Function("shape1", I, Shp)                    # 1-d shape (n,)

# ---- indexing: a[index] for an opaque index expression (numpy indexing is dtype-agnostic)
IndexExpr = z3.DeclareSort("IndexExpr")
ishape = z3.Function("ishape", Shp, IndexExpr, Shp)            # shape of a[index]
imap = z3.Function("imap", Idx, Shp, IndexExpr, Idx)           # position in a of element j of a[index]


class IndexTok:
    """An index expression whose structure is irrelevant: only that every array of one shape is indexed alike."""

    def __init__(self, ctx, base="index", term=None):
        self.term = term if term is not None else z3.Const(ctx.fresh(base), IndexExpr)

    @staticmethod
    def of(ex, index, node=None):
        if isinstance(index, IndexTok):
            return index
        if isinstance(index, tuple) and len(index) >= 2 and all(isinstance(x, slice) or x is None for x in index):
            while len(index) >= 2 and index[-1] == slice(None, None, None):
                index = index[:-1]        # numpy: a trailing full slice selects the remaining axes whole - a[x, :] is a[x]
        if isinstance(index, tuple) and len(index) == 1 and (index[0] is None or isinstance(index[0], slice)):
            index = index[0]              # numpy: a[(x,)] is a[x]
        try:
            label = repr(index)
        except Exception:
            raise U("index expression", node)
        if isinstance(index, tuple) and index and all(x == slice(None, None, None) for x in index[:-1]) and \
                isinstance(index[-1], (int, z3.ArithRef)) and not isinstance(index[-1], bool):
            ax, k = len(index) - 1, index[-1]
            site = ex.site("take")
            tok = IndexTok(None, term=take_index(z3.IntVal(ax), k if isinstance(k, z3.ExprRef) else z3.IntVal(k)))
            tok.take = (ax, k)
            return tok
        if any(isinstance(x, z3.ExprRef) for x in (index if isinstance(index, tuple) else (index,))):
            raise U("symbolic index expression", node)
        return IndexTok(None, term=z3.Const(f"index:{label}", IndexExpr))


prepend = z3.Function("prepend", I, Shp, Shp)               # the shape (n,) + s
at0 = z3.Function("at0", I, Idx, Idx)                        # position (k, i) of shape (n,) + s
first0 = z3.Function("first0", Idx, I)                       # k of such a position
rest0 = z3.Function("rest0", Idx, Idx)                       # i of such a position
index_newaxis = z3.Const("index:None", IndexExpr)            # the index expression numpy.newaxis


take_index = z3.Function("take_index", I, I, IndexExpr)     # the index expression (slice(None),)*axis + (k,): element k along an axis
drop_axis = z3.Function("drop_axis", Shp, I, Shp)            # the shape without that axis
extent = z3.Function("extent", Shp, I, I)                    # a.shape[axis]


def take_axioms(ctx):
    s = z3.Const(ctx.fresh("s"), Shp)
    ax, k = z3.Int(ctx.fresh("ax")), z3.Int(ctx.fresh("k"))
    return [z3.ForAll([s, ax, k], z3.Implies(z3.And(0 <= ax, ax < ndim(s), 0 <= k, k < extent(s, ax)),
                                             ishape(s, take_index(ax, k)) == drop_axis(s, ax)), patterns=[ishape(s, take_index(ax, k))]),
            z3.ForAll([s, ax], z3.Implies(z3.And(0 <= ax, ax < ndim(s)), z3.And(ndim(drop_axis(s, ax)) == ndim(s) - 1, extent(s, ax) >= 0)))]


def stack_axioms(ctx):
    """(n,) + s: positions are the pairs (k, i) with k < n and i in s; x[newaxis] has shape (1,) + x.shape and element (0, i) is x[i]"""
    s = z3.Const(ctx.fresh("s"), Shp)
    i, j = z3.Const(ctx.fresh("i"), Idx), z3.Const(ctx.fresh("j"), Idx)
    n, k = z3.Int(ctx.fresh("n")), z3.Int(ctx.fresh("k"))
    return [z3.ForAll([n, s, k, i], inshape(at0(k, i), prepend(n, s)) == z3.And(0 <= k, k < n, inshape(i, s)),
                      patterns=[inshape(at0(k, i), prepend(n, s))]),
            z3.ForAll([k, i], z3.And(first0(at0(k, i)) == k, rest0(at0(k, i)) == i), patterns=[at0(k, i)]),
            z3.ForAll([n, s, j], z3.Implies(inshape(j, prepend(n, s)), z3.And(0 <= first0(j), first0(j) < n, inshape(rest0(j), s),
                                                                             at0(first0(j), rest0(j)) == j)),
                      patterns=[inshape(j, prepend(n, s))]),
            z3.ForAll([s], ishape(s, index_newaxis) == prepend(1, s)),
            z3.ForAll([s, i], imap(at0(0, i), s, index_newaxis) == i, patterns=[imap(at0(0, i), s, index_newaxis)])]


def index_axioms(ctx):
    s = z3.Const(ctx.fresh("s"), Shp)
    j = z3.Const(ctx.fresh("j"), Idx)
    x = z3.Const(ctx.fresh("x"), IndexExpr)
    return stack_axioms(ctx) + take_axioms(ctx) + [z3.ForAll([s, j, x], z3.Implies(inshape(j, ishape(s, x)), inshape(imap(j, s, x), s)),
                      patterns=[imap(j, s, x)])]


dt_bool, dt_int, dt_float, dt_uint32, dt_complex = (z3.Const(n, DT) for n in
                                                    ("dt_bool", "dt_int64", "dt_float64", "dt_uint32", "dt_complex128"))
result_type = z3.Function("result_type", DT, DT, DT)


def promoted_dtype(ex, seq):
    """numpy.result_type(*arrays) for a sequence of arrays of symbolic length: numpy's promotion of ALL their dtypes.
    One term per sequence (keyed by the dtype of a canonical element, so a sequence and its numpy.asarray-image share it);
    characterised only as far as needed: if every array has dtype d, the result is d."""
    ctx = ex.ctx
    K = z3.Int("k!promotion")
    item = seq.item(K)
    key = (z3.simplify(seq.n).sexpr() if isinstance(seq.n, z3.ExprRef) else str(seq.n), item.dtype.sexpr())
    table = ex.__dict__.setdefault("promotions", {})
    if key not in table:
        rt = ctx.const("promoted_dtype", DT)
        d = z3.Const(ctx.fresh("d"), DT)
        ctx.assume(z3.ForAll([d], z3.Implies(ctx.forall_range(0, seq.n, lambda t: seq.item(t).dtype == d), rt == d)))
        ctx.assume(z3.Implies(seq.n >= 1, z3.Implies(ctx.forall_range(0, seq.n, lambda t: seq.item(t).dtype == seq.item(0).dtype),
                                                     rt == seq.item(z3.IntVal(0)).dtype)))
        table[key] = rt
    return table[key]


def shape_axioms(ctx):
    return _shape_axioms(ctx) + names_axioms(ctx)


def _shape_axioms(ctx):
    s = z3.Const(ctx.fresh("s"), Shp)
    i = z3.Const(ctx.fresh("i"), Idx)
    s2 = z3.Const(ctx.fresh("s"), Shp)
    return [
        z3.ForAll([s], z3.And(bok(s, s), bshape(s, s) == s)),
        z3.ForAll([s, i], proj(i, s, s) == i),
        z3.ForAll([s, s2], z3.And(bok(s, s2) == bok(s2, s), bshape(s, s2) == bshape(s2, s))),
        ndim(shp0) == 0, size(shp0) == 1,
        z3.ForAll([s], ndim(s) >= 0),
        z3.ForAll([s], z3.And(ndim(ravel_shape(s)) == 1, size(ravel_shape(s)) == size(s))),
        z3.ForAll([s, i], z3.Implies(inshape(i, s), z3.And(inshape(ravel_idx(i, s), ravel_shape(s)),
                                                           unravel_idx(ravel_idx(i, s), s) == i))),
        z3.ForAll([s, i], z3.Implies(inshape(i, ravel_shape(s)), z3.And(inshape(unravel_idx(i, s), s),
                                                                        ravel_idx(unravel_idx(i, s), s) == i))),
        z3.ForAll([s], z3.And(sconcat(s, shp0) == s, sconcat(shp0, s) == s)),
        # broadcasting against a 0-d operand
        z3.ForAll([s], z3.And(bok(s, shp0), bshape(s, shp0) == s)),
        z3.ForAll([s, i], z3.Implies(inshape(i, s), proj(i, s, shp0) == the_idx(shp0))),
        # a 0-d array has exactly one position
        z3.ForAll([s, i], z3.Implies(z3.And(ndim(s) == 0, inshape(i, s)), i == the_idx(s))),
        z3.ForAll([s], z3.Implies(ndim(s) == 0, inshape(the_idx(s), s))),
        z3.ForAll([s], z3.Implies(ndim(s) == 0, s == shp0)),
        # transposition is an involution on shapes and positions
        z3.ForAll([s], tshape(tshape(s)) == s),
        z3.ForAll([s, i], z3.Implies(inshape(i, tshape(s)), inshape(tidx(i, s), s)), patterns=[tidx(i, s)]),
        z3.ForAll([s, i], z3.Implies(inshape(i, s), z3.And(inshape(tidx(i, tshape(s)), tshape(s)),
                                                           tidx(tidx(i, tshape(s)), s) == i))),
    ]


class Region:
    _n = [0]

    def __init__(self, owner, label=""):
        Region._n[0] += 1
        self.id, self.owner, self.label = Region._n[0], owner, label     # owner: caller | fresh | out

    def __repr__(self):
        return f"<region {self.id} {self.owner} {self.label}>"


def frame_check(ex, region, node, what="write"):
    ok = region.owner in ("fresh", "out")
    ex.oblige(ex.site("write.frame"), z3.BoolVal(ok), "frame", node,
              note=f"{what} to {region!r}: only fresh objects and declared output targets may be written")
    w = getattr(ex, "written", None)
    if w is not None:
        w.add(region.id)


class ShapeV:
    def __init__(self, term):
        self.term = term

    def sx_getitem(self, ex, idx, node):
        if isinstance(idx, int) and idx >= 0:
            ex.oblige(f"pre({ex.site('shape_index')}).axis_exists", ndim(self.term) > idx, "index", node)
            return extent(self.term, z3.IntVal(idx))
        raise U("shape indexing", node)

    def sx_tuple(self, ex, node):
        return self                      # tuple(shape) of a shape given as a tuple

    def sx_isinstance(self, ex, name):
        return name == "tuple"

    def sx_truth(self, ex):
        return ndim(self.term) != 0

    def sx_len(self, ex):
        return ndim(self.term)

    def sx_compare(self, ex, op, other, node, reflected):
        if isinstance(other, ShapeV) and op in ("Eq", "NotEq"):
            return (self.term == other.term) if op == "Eq" else (self.term != other.term)
        if isinstance(other, tuple) and not other and op in ("Eq", "NotEq"):
            return (ndim(self.term) == 0) if op == "Eq" else (ndim(self.term) != 0)
        return NotImplemented

    def sx_binop(self, ex, op, other, node, reflected):
        if op == "Add" and isinstance(other, ShapeV):
            a, b = (other, self) if reflected else (self, other)
            return ShapeV(sconcat(a.term, b.term))
        if op == "Add" and isinstance(other, tuple) and len(other) == 1 and not reflected:
            sv = ShapeV(sconcat(self.term, shape1(other[0])))
            sv.rowshape = (self.term, other[0])
            return sv
        return NotImplemented


class DTypeV:
    def __init__(self, term):
        self.term = term

    def sx_getattr(self, ex, attr, node):
        if attr == "names":
            return None                 # a coefficient dtype is a plain numeric dtype: no fields
        raise U(f"dtype.{attr}", node)

    def sx_compare(self, ex, op, other, node, reflected):
        o = as_dtype(ex, other, node)
        if op == "Eq":
            return self.term == o
        if op == "NotEq":
            return self.term != o
        return NotImplemented

    def sx_truth(self, ex):
        return True


def as_dtype(ex, v, node=None):
    if isinstance(v, DTypeV):
        return v.term
    if isinstance(v, V.BuiltinRef):
        return {"bool": dt_bool, "int": dt_int, "float": dt_float, "complex": dt_complex}[v.name]
    if isinstance(v, str):
        known = {"int64": dt_int, "i8": dt_int, "float64": dt_float, "bool": dt_bool, "uint32": dt_uint32}
        return known[v] if v in known else z3.Const(f"dt_{v}", DT)
    if isinstance(v, V.TypeRef) and v.name == "numpy.uint32":
        return dt_uint32
    if isinstance(v, z3.ExprRef) and v.sort() == DT:
        return v
    raise U("dtype designation", node)


# ------------------------------------------------------------------ numeric arrays
class Arr:
    """ndarray.  `elem` is a closure evaluated at read time, so views stay live."""

    def __init__(self, shape, elem, kind="real", dtype=None, region=None, init=None):
        self.shape, self._elem, self.kind = shape, elem, kind
        self.dtype = dtype if dtype is not None else (dt_bool if kind == "bool" else z3.Const("dt_any", DT))
        self.region = region or Region("fresh")
        self._init = init                      # None: every position defined
        self.writer = None                     # for views: function(ex, new_elem_closure, mask, node)
        if self.region.owner == "fresh":
            self._flags = FlagsV(None, z3.BoolVal(True), z3.BoolVal(True))

    def elem(self, i):
        return self._elem(i)

    def init(self, i):
        return z3.BoolVal(True) if self._init is None else self._init(i)

    # ---- protocol
    def sx_isinstance(self, ex, name):
        return name in ("numpy.ndarray",)

    def sx_getattr(self, ex, attr, node):
        if attr == "shape":
            return ShapeV(self.shape)
        if attr == "dtype":
            return DTypeV(self.dtype)
        if attr == "ndim":
            return ndim(self.shape)
        if attr == "size":
            return size(self.shape)
        if attr == "T":
            s = self.shape
            out = Arr(tshape(s), lambda j: self.elem(tidx(j, s)), self.kind, self.dtype, self.region,
                      None if self._init is None else (lambda j: self.init(tidx(j, s))))
            out.snapshot = lambda: (lambda j, f=_freeze(self): f(tidx(j, s)))
            return out
        if attr == "flags":
            if not hasattr(self, "_flags"):
                self._flags = FlagsV(ex.ctx)
            return self._flags
        return V.BoundMethod(self, attr)

    def sx_method(self, ex, attr, args, kw, node):
        if attr == "ravel" and not args:
            s = self.shape
            out = Arr(ravel_shape(s), lambda j: self.elem(unravel_idx(j, s)), self.kind, self.dtype, self.region,
                      None if self._init is None else (lambda j: self.init(unravel_idx(j, s))))
            out.writer = lambda ex_, newf, node_: self.write(ex_, lambda i: newf(ravel_idx(i, s)), node_)
            out.snapshot = lambda: (lambda j, f=_freeze(self): f(unravel_idx(j, s)))
            return out
        if attr == "item" and not args:
            ex.oblige(f"pre({ex.site('item')}).size_one", size(self.shape) == 1, "precondition", node)
            one = ex.ctx.const("the", Idx)
            ex.assume(inshape(one, self.shape))
            ex.assume(ex.ctx.forall_idx(lambda i: i == one, self.shape))
            return self.elem(one)
        if attr == "copy" and not args:
            return Arr(self.shape, _freeze(self), self.kind, self.dtype, Region("fresh"), self._init)
        if attr == "astype":
            return Arr(self.shape, _freeze(self), self.kind, as_dtype(ex, args[0], node), Region("fresh"), self._init)
        raise U(f"ndarray.{attr}", node)

    def write(self, ex, new_elem, node):
        """Replace the contents: new_elem(i) given in terms of the old state (already captured)."""
        frame_check(ex, self.region, node)
        if self.writer is not None:
            self.writer(ex, new_elem, node)
        else:
            self._elem = new_elem

    def sx_setitem(self, ex, idx, value, node):
        old = _freeze(self)
        if isinstance(idx, Arr) and idx.kind == "bool":
            mask = _freeze(idx)
            if isinstance(value, MaskedSel):
                if value.mask is not idx and not _same_mask(value.mask, idx):
                    raise U("masked assignment with a different mask on the right-hand side", node)
                src = _freeze(value.src)
                self.write(ex, lambda i: z3.If(mask(i), src(i), old(i)), node)
                return
            sv = scalar_of(value)
            if sv is not None:
                self.write(ex, lambda i: z3.If(mask(i), sv, old(i)), node)
                return
            raise U("masked assignment of an array value", node)
        if idx is Ellipsis or (isinstance(idx, slice) and idx == slice(None, None, None)):
            src = elemfn(ex, value, self.shape, node)
            self.write(ex, src, node)
            return
        raise U("array item assignment", node)

    def sx_getitem(self, ex, idx, node):
        if isinstance(idx, Arr) and idx.kind == "bool":
            return MaskedSel(self, idx)
        if isinstance(idx, IndexTok):
            s, x = self.shape, idx.term
            out = Arr(ishape(s, x), lambda j: self.elem(imap(j, s, x)), self.kind, self.dtype, self.region,
                      None if self._init is None else (lambda j: self.init(imap(j, s, x))))
            out.snapshot = lambda: (lambda j, f=_freeze(self): f(imap(j, s, x)))
            out.indexed_from = (self, idx)
            if self.region.owner == "fresh":
                out._flags = FlagsV(ex.ctx)          # a slice of a fresh array: layout unknown
            return out
        raise U("array indexing", node)

    def sx_compare(self, ex, op, other, node, reflected):
        f = {"Eq": lambda a, b: a == b, "NotEq": lambda a, b: a != b, "Lt": lambda a, b: a < b,
             "LtE": lambda a, b: a <= b, "Gt": lambda a, b: a > b, "GtE": lambda a, b: a >= b}[op]
        if reflected:
            g = f
            f = lambda a, b: g(b, a)
        return elementwise(ex, lambda a, b: f(a, b), [self, other], "bool", node)

    def sx_binop(self, ex, op, other, node, reflected):
        if isinstance(other, Poly):
            return NotImplemented              # __array_priority__: the polynomial operand handles the operator
        args = [other, self] if reflected else [self, other]
        if self.kind == "bool" and op in ("BitAnd", "BitOr", "BitXor"):
            f = {"BitAnd": z3.And, "BitOr": z3.Or, "BitXor": z3.Xor}[op]
            return elementwise(ex, lambda a, b: f(_bool(a), _bool(b)), args, "bool", node)
        if op in ("Add", "Sub", "Mult"):
            g = {"Add": lambda a, b: a + b, "Sub": lambda a, b: a - b, "Mult": lambda a, b: a * b}[op]
            f = lambda a, b: g(_num(a), _num(b))
            res = elementwise(ex, f, args, "real", node)
            # dtype: an operand of dtype bool does not widen the other operand's dtype
            other_ = args[1] if args[0] is self else args[0]
            if isinstance(other_, Arr) and other_.kind == "bool" and self.kind != "bool":
                res.dtype = self.dtype
            elif isinstance(other_, Arr) and self.kind == "bool" and other_.kind != "bool":
                res.dtype = other_.dtype
            return res
        if op == "Div":
            return elementwise(ex, lambda a, b: a / b, args, "real", node)
        if op == "Pow" and not reflected and (isinstance(other, int) or (isinstance(other, z3.ArithRef) and other.is_int())) \
                and not isinstance(other, bool) and self.kind == "real":
            from .logic import rpow
            e = other if isinstance(other, z3.ExprRef) else z3.IntVal(other)
            f = _freeze(self)
            return Arr(self.shape, lambda i: rpow(_num(f(i)), e), "real", ex.ctx.const("dt_result", DT))      # array ** integer, element-wise
        return NotImplemented

    def sx_inplace(self, ex, op, rhs, node):
        old = _freeze(self)
        if self.kind == "bool" and op in ("BitAnd", "BitOr"):
            f = z3.And if op == "BitAnd" else z3.Or
            r = elemfn(ex, rhs, self.shape, node)
            self.write(ex, lambda i: f(old(i), _bool(r(i))), node)
            return self
        raise U(f"in-place {op} on array", node)

    def sx_unop(self, ex, op, node):
        if op == "Invert" and self.kind == "bool":
            return Arr(self.shape, lambda i: z3.Not(self.elem(i)), "bool", dt_bool)
        if op == "USub":
            return Arr(self.shape, lambda i: -self.elem(i), self.kind, self.dtype)
        raise U(f"unary {op} on array", node)

    def sx_truth(self, ex):
        raise U("truth value of an array")


iconcat = z3.Function("iconcat", Idx, Idx, Idx)          # position (i ++ j) of shape s + t
ileft = z3.Function("ileft", Idx, Shp, Shp, Idx)         # the s-part of a position of s + t
iright = z3.Function("iright", Idx, Shp, Shp, Idx)       # the t-part


index_column = z3.Const("index:(slice(None, None, None), None)", IndexExpr)     # the index expression [:, numpy.newaxis]


def outer_axioms(ctx):
    """numpy facts about a column (n, 1) and a row (1, m) made from 1-d arrays of shapes s = (n,) and t = (m,):
    x[:, newaxis] has shape s + (1,) and element (i, 0) is x[i];  x[newaxis, :] is x[newaxis] (shape (1,) + t, element (0, j) is x[j]:
    stack_axioms);  s + (1,) and (1,) + t broadcast to s + t with the projections (i, j) -> (i, 0) and (i, j) -> (0, j)."""
    s, t = z3.Const(ctx.fresh("s"), Shp), z3.Const(ctx.fresh("t"), Shp)
    i, j, k = (z3.Const(ctx.fresh(n), Idx) for n in "ijk")
    one = shape1(z3.IntVal(1))
    o = the_idx(one)
    d1 = lambda s: ndim(s) == 1
    return [z3.And(inshape(o, one), ndim(one) == 1),
            z3.ForAll([k], z3.Implies(inshape(k, one), k == o), patterns=[inshape(k, one)]),
            z3.ForAll([s], z3.Implies(d1(s), ishape(s, index_column) == sconcat(s, one)), patterns=[ishape(s, index_column)]),
            z3.ForAll([s, i, k], z3.Implies(z3.And(d1(s), inshape(i, s), inshape(k, one)), imap(iconcat(i, k), s, index_column) == i),
                      patterns=[imap(iconcat(i, k), s, index_column)]),
            z3.ForAll([s, t], z3.Implies(z3.And(d1(s), d1(t)), z3.And(bok(sconcat(s, one), prepend(1, t)),
                                                                     bshape(sconcat(s, one), prepend(1, t)) == sconcat(s, t))),
                      patterns=[bshape(sconcat(s, one), prepend(1, t))]),
            z3.ForAll([s, t, i, j], z3.Implies(z3.And(d1(s), d1(t), inshape(i, s), inshape(j, t)), z3.And(
                proj(iconcat(i, j), sconcat(s, t), sconcat(s, one)) == iconcat(i, o),
                proj(iconcat(i, j), sconcat(s, t), prepend(1, t)) == at0(0, j))),
                patterns=[proj(iconcat(i, j), sconcat(s, t), sconcat(s, one)), proj(iconcat(i, j), sconcat(s, t), prepend(1, t))])]


def concat_axioms(ctx):
    s, t = z3.Const(ctx.fresh("s"), Shp), z3.Const(ctx.fresh("t"), Shp)
    i, j, p = (z3.Const(ctx.fresh(n), Idx) for n in "ijp")
    # (only this direction: (1, 2) ++ () lies in (2,) + (3,) although (1, 2) does not lie in (2,))
    return [z3.ForAll([s, t, i, j], z3.Implies(z3.And(inshape(i, s), inshape(j, t)), inshape(iconcat(i, j), sconcat(s, t))),
                      patterns=[inshape(iconcat(i, j), sconcat(s, t))]),
            z3.ForAll([s, t, p], z3.Implies(inshape(p, sconcat(s, t)), z3.And(
                inshape(ileft(p, s, t), s), inshape(iright(p, s, t), t), iconcat(ileft(p, s, t), iright(p, s, t)) == p)),
                patterns=[inshape(p, sconcat(s, t))]),
            # the two parts of (i ++ j) are i and j; () contributes nothing to a position
            z3.ForAll([s, t, i, j], z3.Implies(z3.And(inshape(i, s), inshape(j, t)), z3.And(
                ileft(iconcat(i, j), s, t) == i, iright(iconcat(i, j), s, t) == j)),
                patterns=[ileft(iconcat(i, j), s, t)], ),
            z3.ForAll([s, t, i, j], z3.Implies(z3.And(inshape(i, s), inshape(j, t)), iright(iconcat(i, j), s, t) == j),
                      patterns=[iright(iconcat(i, j), s, t)]),
            z3.ForAll([i], z3.And(iconcat(i, the_idx(shp0)) == i, iconcat(the_idx(shp0), i) == i))]


class OuterProduct:
    """numpy.outer(a, b): the (a.size, b.size) matrix of all products.  Only its reshape to a.shape + b.shape for a
    0-d `b` is modelled: element i is a[i] * b[()]."""

    def __init__(self, a, b):
        self.a, self.b = a, b

    def sx_getattr(self, ex, attr, node):
        return V.BoundMethod(self, attr)

    def sx_method(self, ex, attr, args, kw, node):
        if attr == "reshape" and len(args) == 1 and isinstance(args[0], ShapeV) and not kw:
            a, b = self.a, self.b
            site = ex.site("outer_reshape")
            ex.oblige(f"pre({site}).target_shape", args[0].term == sconcat(a.shape, b.shape), "precondition", node)
            fa, fb = _freeze(a), _freeze(b)
            if simplify_bool(ndim(b.shape) == 0) is True or z3.eq(b.shape, shp0):
                return Arr(args[0].term, lambda i: _num(fa(i)) * _num(fb(the_idx(b.shape))), "real", ex.ctx.const("dt_result", DT))
            # numpy: outer(a, b) is the (a.size, b.size) matrix of all products in C order; reshaped to a.shape + b.shape its element
            # at position (i ++ j) is a[i] * b[j]
            sa, sb = a.shape, b.shape
            return Arr(args[0].term, lambda p: _num(fa(ileft(p, sa, sb))) * _num(fb(iright(p, sa, sb))), "real", ex.ctx.const("dt_result", DT))
        raise U(f"outer product .{attr}", node)


class FlagsV:
    """ndarray.flags of an array whose memory layout is unknown"""

    def __init__(self, ctx, cc=None, wr=None):
        self.c_contiguous = ctx.bool("c_contiguous") if cc is None else cc
        self.writeable = ctx.bool("writeable") if wr is None else wr

    def sx_getattr(self, ex, attr, node):
        if attr in ("c_contiguous", "writeable"):
            return getattr(self, attr)
        raise U(f"flags.{attr}", node)


class MaskedSel:
    def __init__(self, src, mask):
        self.src, self.mask = src, mask


def _same_mask(a, b):
    return a is b


def _bool(x):
    return z3.BoolVal(x) if isinstance(x, bool) else x


def _num(x):
    """numeric reading of an element (bool -> 0/1)"""
    if isinstance(x, bool):
        return z3.RealVal(int(x))
    if isinstance(x, z3.BoolRef):
        return z3.If(x, z3.RealVal(1), z3.RealVal(0))
    return x


def _freeze(arr):
    """Snapshot of the current contents (so later writes to `arr` or its parent are not seen)."""
    if hasattr(arr, "snapshot"):
        return arr.snapshot()          # views read through their parent: freeze the parent's state
    return arr._elem


def scalar_of(v):
    if isinstance(v, bool):
        return z3.BoolVal(v)
    if isinstance(v, int):
        return z3.RealVal(v)
    if isinstance(v, float):
        return z3.RealVal(str(v))
    if isinstance(v, z3.ArithRef):
        return z3.ToReal(v) if v.is_int() else v
    if isinstance(v, z3.BoolRef):
        return v
    return None


def elemfn(ex, v, shape, node=None):
    """Element function of `v` broadcast into `shape` (v: Arr of the same shape, or scalar)."""
    s = scalar_of(v)
    if s is not None:
        return lambda i: s
    if isinstance(v, Arr):
        f = _freeze(v)
        same = simplify_bool(v.shape == shape)
        if same is True:
            return f
        ex.oblige(f"pre({ex.site('broadcast')}).shapes", z3.Or(v.shape == shape, bshape(v.shape, shape) == shape),
                  "precondition", node)
        return lambda i: f(z3.If(v.shape == shape, i, proj(i, shape, v.shape)))
    raise U(f"array operand {type(v).__name__}", node)


def elementwise(ex, f, operands, kind, node, dtype=None):
    """numpy ufunc axiom: fresh array, broadcast shape, elem(i) = f(x[proj i], y[proj i])."""
    arrs = [o for o in operands if isinstance(o, Arr)]
    for o in operands:
        if not isinstance(o, Arr) and scalar_of(o) is None:
            raise U(f"ufunc operand {type(o).__name__}", node)
    shape = arrs[0].shape
    for a in arrs[1:]:
        if simplify_bool(a.shape == shape) is not True:
            ex.oblige(f"pre({ex.site('ufunc')}).broadcastable", bok(shape, a.shape), "precondition", node)
            shape = bshape(shape, a.shape)
    fs = [elemfn(ex, o, shape, node) if not (isinstance(o, Arr) and simplify_bool(o.shape == shape) is True) else _freeze(o)
          for o in operands]
    return Arr(shape, lambda i: f(*[g(i) for g in fs]), kind,
               dtype if dtype is not None else (dt_bool if kind == "bool" else ex.ctx.const("dt_result", DT)))


# ------------------------------------------------------------------ exponent matrices
class ExpMat:
    """2-d integer array (n rows of width D); row(t): Mono.  Fresh copy unless stated."""

    def __init__(self, n, D, row, region=None, dtype=None):
        self.n, self.D, self._row = n, D, row
        self.region = region or Region("fresh")
        self.dtype = dtype if dtype is not None else dt_uint32

    def row(self, t):
        return self._row(t)

    def sx_len(self, ex):
        return self.n

    def sx_seq(self, ex):
        return V.Seq(self.n, lambda t: MonoRow(self.row(t), self.D))

    def sx_iter(self, ex):
        return None

    def sx_getattr(self, ex, attr, node):
        if attr == "T":
            return KeyMat(self.D, self.n, lambda c: self.row(c), "view")
        if attr == "size":
            from .codecmodel import prod2
            return prod2(self.n, self.D)
        if attr == "shape":
            return (self.n, self.D)
        if attr == "ndim":
            return 2
        if attr == "dtype":
            return DTypeV(self.dtype)
        return V.BoundMethod(self, attr)

    def sx_getitem(self, ex, idx, node):
        if isinstance(idx, (int, z3.ArithRef)):
            ex.oblige(f"pre({ex.site('index')}).in_bounds", z3.And(0 <= idx, idx < self.n), "index", node)
            return MonoRow(self.row(idx), self.D)
        if isinstance(idx, tuple) and len(idx) == 2 and idx[0] == slice(None, None, None) and \
                isinstance(idx[1], (int, z3.ArithRef)) and not isinstance(idx[1], bool):
            d = idx[1]
            ex.oblige(f"pre({ex.site('column')}).in_bounds", z3.And(0 <= d, d < self.D), "index", node,
                      note="column index of the exponent matrix (negative positions are not modelled)")
            rows = self._row
            col = IntVec(self.n, lambda t: expo(rows(t), d))
            col.dtype = self.dtype
            col.column_of = (self, d)
            return col
        if isinstance(idx, tuple) and len(idx) == 2 and idx[0] == slice(None, None, None) and isinstance(idx[1], slice) \
                and idx[1].step is None and (idx[1].start is None) != (idx[1].stop is None):
            sl = idx[1]
            ctx = ex.ctx
            site = ex.site("column_slice")
            if sl.stop is not None:
                k = sl.stop                                   # exponents[:, :k]  (k >= 0): the first k columns
                ex.oblige(f"pre({site}).bound_in_range", z3.And(0 <= k, k <= self.D), "precondition", node,
                          note="negative or too large slice bounds are not modelled")
                out = ExpMat(self.n, k, self._row, Region("fresh"), self.dtype)      # same rows, read at width k
                out.column_prefix_of = (self, k)
                return out
            k = sl.start                                      # exponents[:, k:]: the columns from k on
            ex.oblige(f"pre({site}).bound_in_range", z3.And(0 <= k, k <= self.D), "precondition", node)
            rows = self._row
            rf = ctx.func("rowtail", I, Mono)
            t, d = z3.Int(ctx.fresh("t")), z3.Int(ctx.fresh("d"))
            ctx.assume(z3.ForAll([t, d], expo(rf(t), d) == expo(rows(t), d + k), patterns=[expo(rf(t), d)]))
            ctx.assume(z3.ForAll([t, d], z3.Implies(d >= k, expo(rows(t), d) == expo(rf(t), d - k)), patterns=[expo(rows(t), d)]))
            out = ExpMat(self.n, self.D - k, lambda t: rf(t), Region("fresh"), self.dtype)
            out.column_tail_of = (self, k)
            return out
        if isinstance(idx, (list, V.Seq)) and not isinstance(idx, BoolVec):
            # numpy: a list of truth values used as an index is a boolean mask over the first axis
            seq = V.as_seq(ex, idx, node)
            probe = seq.item(z3.Int(ex.ctx.fresh("probe")) if not isinstance(seq.n, int) else 0) if not (isinstance(seq.n, int) and seq.n == 0) else True
            if isinstance(probe, (bool, z3.BoolRef)):
                idx = BoolVec(seq.n, lambda k: V._as_bool(seq.item(k)))
        if isinstance(idx, BoolVec):
            ex.oblige(f"pre({ex.site('row_mask')}).length", idx.n == self.n, "precondition", node)
            sel = V.selection_for(ex, self.n, idx.at)
            rows = self._row
            out = ExpMat(sel.M, self.D, lambda j: rows(sel.sel(j)), Region("fresh"), self.dtype)
            out.selected_from = (self, sel)
            return out
        if isinstance(idx, tuple) and len(idx) == 2 and idx[0] == slice(None, None, None) and isinstance(idx[1], ColVec):
            cv = idx[1]
            sel = getattr(cv, "colsel", None)
            if sel is None:
                sel = ColSel(ex.ctx, cv.D, cv.at)
                cv.colsel = sel
            ex.oblige(f"pre({ex.site('column_mask')}).width", cv.D == self.D, "precondition", node)
            return project_columns(ex, self, sel)
        raise U("exponent matrix indexing", node)

    def sx_compare(self, ex, op, other, node, reflected):
        if op == "Eq" and isinstance(other, int) and other == 0:
            return RowsAllZero(self)
        if op == "NotEq" and isinstance(other, int) and other == 0:
            return RowsNonZero(self)
        if isinstance(other, int) and not isinstance(other, bool) and not reflected and op in ("Lt", "Eq", "Gt", "LtE", "GtE", "NotEq"):
            f = {"Lt": lambda a: a < other, "Eq": lambda a: a == other, "Gt": lambda a: a > other,
                 "LtE": lambda a: a <= other, "GtE": lambda a: a >= other, "NotEq": lambda a: a != other}[op]
            return EntryTest(self, f)
        return NotImplemented

    def sx_setitem(self, ex, idx, value, node):
        if isinstance(idx, tuple) and len(idx) == 2 and idx[0] == slice(None, None, None) and isinstance(idx[1], IntVec) \
                and isinstance(value, ExpMat):
            # exponents[:, indices] = matrix : column j of `matrix` goes to column indices[j]
            iv, src = idx[1], value
            ctx = ex.ctx
            site = ex.site("column_scatter")
            frame_check(ex, self.region, node)
            ex.oblige(f"pre({site}).rows", src.n == self.n, "precondition", node)
            ex.oblige(f"pre({site}).one_index_per_source_column", iv.n == src.D, "precondition", node,
                      note="numpy raises ValueError when the shapes do not match")
            ex.oblige(f"pre({site}).indices_in_bounds", ctx.forall_range(0, iv.n, lambda j: z3.And(0 <= iv.at(j), iv.at(j) < self.D)),
                      "index", node)
            ex.oblige(f"pre({site}).indices_pairwise_different", ctx.forall_range2(0, iv.n, lambda j, l: iv.at(j) != iv.at(l)),
                      "precondition", node, note="with a repeated index the last write wins: not modelled")
            jof = ctx.func("scatter_src", I, I)               # source column of a target column, if any
            ctx.assume(ctx.forall_range(0, iv.n, lambda j: jof(iv.at(j)) == j, pat=lambda j: iv.at(j)))
            old, srow = self._row, src._row
            new = ctx.func("rowscatter", I, Mono)
            t, c = z3.Int(ctx.fresh("t")), z3.Int(ctx.fresh("c"))
            hit = lambda c: z3.And(0 <= jof(c), jof(c) < iv.n, iv.at(jof(c)) == c)
            ctx.assume(z3.ForAll([t, c], expo(new(t), c) == z3.If(hit(c), expo(srow(t), jof(c)), expo(old(t), c)),
                                 patterns=[expo(new(t), c)]))
            jj = z3.Int(ctx.fresh("j"))
            ctx.assume(z3.ForAll([t, jj], z3.Implies(z3.And(0 <= jj, jj < iv.n), expo(new(t), iv.at(jj)) == expo(srow(t), jj)),
                                 patterns=[expo(srow(t), jj)]))
            self._row = lambda t: new(t)
            self.scattered = dict(src=src, indices=iv, old=old, jof=jof)
            return
        if isinstance(idx, tuple) and len(idx) == 2 and idx[0] == slice(None, None, None) and \
                isinstance(idx[1], (int, z3.ArithRef)) and isinstance(value, IntVec):
            d = idx[1]
            site = ex.site("column_assign")
            frame_check(ex, self.region, node)
            ex.oblige(f"pre({site}).in_bounds", z3.And(0 <= d, d < self.D), "index", node)
            ex.oblige(f"pre({site}).length", value.n == self.n, "precondition", node)
            old = self._row
            new = ex.ctx.func("rowset", I, Mono)
            t, c = z3.Int(ex.ctx.fresh("t")), z3.Int(ex.ctx.fresh("c"))
            ex.ctx.assume(z3.ForAll([t, c], expo(new(t), c) == z3.If(c == d, value.at(t), expo(old(t), c)),
                                    patterns=[expo(new(t), c), expo(old(t), c)]))
            self._row = lambda t: new(t)
            self.column_set = (old, d, value)
            return
        raise U("exponent matrix item assignment", node)

    def sx_binop(self, ex, op, other, node, reflected):
        if op in ("Add", "Sub") and isinstance(other, int) and not isinstance(other, bool) and not reflected:
            from .codecmodel import wrap32
            k = other if op == "Add" else -other
            ctx = ex.ctx
            isu = simplify_bool(self.dtype == dt_uint32) is True
            rf = ctx.func("rowshift", I, Mono)
            old = self._row
            t, d = z3.Int(ctx.fresh("t")), z3.Int(ctx.fresh("d"))
            val = (lambda x: wrap32(x + k)) if isu else (lambda x: x + k)
            ctx.assume(z3.ForAll([t, d], expo(rf(t), d) == val(expo(old(t), d)), patterns=[expo(rf(t), d), expo(old(t), d)]))
            return ExpMat(self.n, self.D, lambda t: rf(t), Region("fresh"), self.dtype)
        return NotImplemented

    def sx_method(self, ex, attr, args, kw, node):
        if attr == "flatten" and not args and not kw:
            from .codecmodel import FlatCodes
            rows = self._row
            return FlatCodes(self.n, self.D, lambda t, d: expo(rows(t), d))
        if attr == "copy":
            return ExpMat(self.n, self.D, self._row, Region("fresh"), self.dtype)
        if attr == "astype" and len(args) == 1 and isinstance(args[0], V.BuiltinRef) and args[0].name == "int" and not kw:
            # uint32 -> int64: every value representable, same rows
            return ExpMat(self.n, self.D, self._row, Region("fresh"), dt_int)
        if attr == "tolist":
            return V.Seq(self.n, lambda t: MonoRow(self.row(t), self.D))
        raise U(f"exponents.{attr}", node)


class RowEntryTest:
    """row1 <op> row2 entry-wise (boolean vector of width D); only numpy.any / numpy.all are modelled"""

    def __init__(self, a, b, f):
        self.a, self.b, self.f = a, b, f

    def some(self, ctx):
        return z3.Not(ctx.forall_range(0, self.a.D, lambda d: z3.Not(self.f(expo(self.a.m, d), expo(self.b.m, d)))))

    def every(self, ctx):
        return ctx.forall_range(0, self.a.D, lambda d: self.f(expo(self.a.m, d), expo(self.b.m, d)))


class EntryTest:
    """`exponents <op> constant`: boolean matrix; only numpy.any / numpy.all over every entry are modelled."""

    def __init__(self, mat, test):
        self.mat, self.test = mat, test

    def every(self, ctx):
        m = self.mat
        return ctx.forall_range(0, m.n, lambda t: ctx.forall_range(0, m.D, lambda d: self.test(expo(m.row(t), d))))

    def some(self, ctx):
        m = self.mat
        return z3.Not(ctx.forall_range(0, m.n, lambda t: ctx.forall_range(0, m.D, lambda d: z3.Not(self.test(expo(m.row(t), d))))))


class RowsAllZero:
    """`exponents == 0`: boolean matrix; only its row-wise `all` is modelled."""

    def __init__(self, mat):
        self.mat = mat


class MonoRow:
    """One exponent row (1-d integer array of width D)."""

    def __init__(self, m, D):
        self.m, self.D = m, D

    def sx_tuple(self, ex, node):
        return self

    def sx_any(self, ex, node):
        if isinstance(self.D, int):
            return z3.Or(*[expo(self.m, d) != 0 for d in range(self.D)]) if self.D else False
        return z3.Not(mzero(self.m, self.D))

    def sx_compare(self, ex, op, other, node, reflected):
        if isinstance(other, MonoRow) and op in ("Eq", "NotEq"):
            e = self.m == other.m
            return e if op == "Eq" else z3.Not(e)
        if isinstance(other, MonoRow) and op in ("Lt", "LtE", "Gt", "GtE") and not reflected:
            f = {"Lt": lambda a, b: a < b, "LtE": lambda a, b: a <= b, "Gt": lambda a, b: a > b, "GtE": lambda a, b: a >= b}[op]
            return RowEntryTest(self, other, f)
        return NotImplemented

    def sx_getitem(self, ex, idx, node):
        if isinstance(idx, (int, z3.ArithRef)):
            return expo(self.m, idx)
        raise U("row indexing", node)

    def sx_binop(self, ex, op, other, node, reflected):
        if op == "Sub" and isinstance(other, MonoRow) and not reflected:
            # unsigned 32-bit difference of two exponent rows (wraps when an entry would become negative)
            ctx = ex.ctx
            ex.oblige(f"pre({ex.site('row_difference')}).same_width", self.D == other.D, "precondition", node)
            m = ctx.const("rowdiff", Mono)
            d = z3.Int(ctx.fresh("d"))
            diff = expo(self.m, d) - expo(other.m, d)
            ctx.assume(z3.ForAll([d], expo(m, d) == z3.If(diff >= 0, diff, diff + 2 ** 32), patterns=[expo(m, d)]))
            out = MonoRow(m, self.D)
            out.difference_of = (self, other)
            return out
        return NotImplemented

    def sx_seq(self, ex):
        return V.Seq(self.D, lambda d: expo(self.m, d))

    def sx_iter(self, ex):
        return None


mono_zero = z3.Const("mono_zero", Mono)


def mono_axioms(ctx):
    d, D = z3.Int(ctx.fresh("d")), z3.Int(ctx.fresh("D"))
    m = z3.Const(ctx.fresh("m"), Mono)
    from .sortmodel import meq
    m2 = z3.Const(ctx.fresh("m"), Mono)
    dc = z3.Function("diffcol", Mono, Mono, I, I)
    return [z3.ForAll([m, m2, D], z3.Implies(z3.And(mzero(m, D), mzero(m2, D)), meq(m, m2, D))),
            # meq is entry-wise equality of the first D entries (skolemised in the negative direction)
            z3.ForAll([m, m2, D, d], z3.Implies(z3.And(meq(m, m2, D), 0 <= d, d < D), expo(m, d) == expo(m2, d)),
                      patterns=[z3.MultiPattern(meq(m, m2, D), expo(m, d))]),
            z3.ForAll([m, m2, D], z3.Implies(z3.Not(meq(m, m2, D)), z3.And(
                0 <= dc(m, m2, D), dc(m, m2, D) < D, expo(m, dc(m, m2, D)) != expo(m2, dc(m, m2, D)))),
                patterns=[meq(m, m2, D)]),
            z3.ForAll([d], expo(mono_zero, d) == 0),
            z3.ForAll([D], mzero(mono_zero, D)),
            # a row is all-zero iff each of its D entries is zero
            z3.ForAll([m, D, d], z3.Implies(z3.And(mzero(m, D), 0 <= d, d < D), expo(m, d) == 0))]


class RowArr:
    """Integer array of shape S + (D,): one exponent row per position of S."""

    def __init__(self, shape, D, rowelem, region=None):
        self.shape, self.D, self._rowelem = shape, D, rowelem
        self.region = region or Region("fresh")

    def rowelem(self, i):
        return self._rowelem(i)

    def sx_isinstance(self, ex, name):
        return name == "numpy.ndarray"

    def sx_getattr(self, ex, attr, node):
        if attr == "shape":
            sv = ShapeV(sconcat(self.shape, shape1(self.D)))
            sv.rowshape = (self.shape, self.D)
            return sv
        if attr == "size":
            return size(self.shape) * self.D
        return V.BoundMethod(self, attr)

    def sx_method(self, ex, attr, args, kw, node):
        if attr == "reshape" and len(args) == 1 and isinstance(args[0], ShapeV) and getattr(args[0], "rowshape", None):
            S, D = args[0].rowshape
            site = ex.site("reshape")
            ex.oblige(f"pre({site}).same_size", z3.And(size(S) == size(self.shape), D == self.D), "precondition", node)
            same = simplify_bool(S == self.shape)
            if same is True:
                return RowArr(S, D, self._rowelem, self.region)
            # reshape of the raveled layout back to the original shape
            if getattr(self, "raveled_from", None) is not None and simplify_bool(self.raveled_from == S) is True:
                f = self._rowelem
                return RowArr(S, D, lambda i: f(ravel_idx(i, S)), self.region)
            raise U("reshape of a row array to an unrelated shape", node)
        raise U(f"rowarray.{attr}", node)

    def sx_setitem(self, ex, idx, value, node):
        if isinstance(idx, Arr) and idx.kind == "bool" and isinstance(value, MonoRow):
            frame_check(ex, self.region, node)
            site = ex.site("mask_assign")
            ex.oblige(f"pre({site}).mask_shape", idx.shape == self.shape, "precondition", node)
            ex.oblige(f"pre({site}).row_width", value.D == self.D, "precondition", node)
            mask, old, m = _freeze(idx), self._rowelem, value.m
            self._rowelem = lambda i: z3.If(mask(i), m, old(i))
            return
        raise U("row array item assignment", node)


class BoolVec:
    """1-d boolean array of length n."""

    def __init__(self, n, at):
        self.n, self.at = n, at

    def sx_len(self, ex):
        return self.n

    def sx_seq(self, ex):
        return V.Seq(self.n, lambda k: self.at(k))

    def sx_iter(self, ex):
        return None

    def sx_binop(self, ex, op, other, node, reflected):
        if op == "BitXor" and other is True:
            return BoolVec(self.n, lambda k: z3.Not(self.at(k)))
        return NotImplemented


def iszero(v):
    """v == 0 for an array element that may be a number or a truth value (boolean arrays: False is the zero)"""
    if isinstance(v, z3.BoolRef):
        return z3.Not(v)
    if isinstance(v, bool):
        return z3.BoolVal(not v)
    return v == 0


class PolyFlags(dict):
    """ndarray.flags: flags["C_CONTIGUOUS"] and flags.c_contiguous"""

    def sx_getattr(self, ex, attr, node):
        key = attr.upper()
        if key in self:
            return self[key]
        raise U(f"flags.{attr}", node)


# ------------------------------------------------------------------ polynomial arrays
class Poly:
    def __init__(self, ctx, base, N=None, D=None, row=None, C=None, shape=None, dtype=None, names=None,
                 region=None, init=None):
        self.base = base
        self.N = N if N is not None else z3.Int(ctx.fresh(f"N_{base}"))
        self.D = D if D is not None else z3.Int(ctx.fresh(f"D_{base}"))
        if row is None:
            rf = z3.Function(ctx.fresh(f"row_{base}"), I, Mono)
            row = lambda t: rf(t)
        if C is None:
            cf = z3.Function(ctx.fresh(f"C_{base}"), I, Idx, R)
            C = lambda t, i: cf(t, i)
        self._row, self._C = row, C
        self.shape = shape if shape is not None else z3.Const(ctx.fresh(f"shape_{base}"), Shp)
        self.dtype = dtype if dtype is not None else z3.Const(ctx.fresh(f"dtype_{base}"), DT)
        self.names = names if names is not None else z3.Const(ctx.fresh(f"names_{base}"), Names)
        self.region = region or Region("fresh", base)
        self._init = init
        vf = z3.Function(ctx.fresh(f"val_{base}"), Idx, PV)       # abstract polynomial value of element i
        self._val = lambda i: vf(i)
        self.owndata = z3.Bool(ctx.fresh(f"owndata_{base}"))

    def row(self, t):
        return self._row(t)

    def C(self, t, i):
        return self._C(t, i)

    def init(self, t, i):
        return z3.BoolVal(True) if self._init is None else self._init(t, i)

    def val(self, i):
        return self._val(i)

    def frozenC(self):
        """Closure over the *current* coefficient state (later writes are not seen)."""
        if getattr(self, "_frozen", None) is not None:
            return self._frozen()
        return self._C

    def wf(self, ctx):
        """Well-formedness (C03): at least one term and one indeterminate, rows pairwise distinct, names match."""
        from .sortmodel import meq
        return z3.And(self.N >= 1, self.D >= 1, nlen(self.names) == self.D, names_distinct(ctx, self.names),
                      ctx.forall_range2(0, self.N, lambda t, s: z3.And(self.row(t) != self.row(s),
                                                                       z3.Not(meq(self.row(t), self.row(s), self.D)))))

    # ---- protocol
    def sx_isinstance(self, ex, name):
        return name in ("numpoly.ndpoly", "numpy.ndarray")

    def column(self, ex, t):
        """Live view of coefficient column t (as `poly.values[key]`)."""
        a = Arr(self.shape, lambda i: self.C(t, i), "real", self.dtype, self.region,
                None if self._init is None else (lambda i: self.init(t, i)))
        a.snapshot = lambda: (lambda i, f=self.frozenC(): f(t, i))
        a.colview = (self, t)

        def writer(ex_, new_elem, node):
            oldC = self._C
            self._C = lambda u, i: z3.If(u == t, new_elem(i), oldC(u, i))
            if self._init is not None:
                oldI = self._init
                self._init = lambda u, i: z3.Or(u == t, oldI(u, i))
            # the polynomial denoted by an element changes with its coefficients: forget the abstract value
            # (a contract that can justify what the write does to it says so in its `on_coefficient_write` hook)
            oldval = self._val
            vf = z3.Function(ex_.ctx.fresh(f"val_{self.base}_w"), Idx, PV)
            self._val = lambda i: vf(i)
            hook = getattr(ex_, "hooks", {}).get("on_coefficient_write") if isinstance(getattr(ex_, "hooks", None), dict) else None
            if hook:
                hook(ex_, self, t, oldval, oldC, node)
        a.writer = writer
        return a

    def sx_getattr(self, ex, attr, node):
        if attr == "coefficients":
            C = self.frozenC()                        # fresh copies of the current contents
            init = self._init
            sq = V.Seq(self.N, lambda t: Arr(self.shape, lambda i: C(t, i), "real", self.dtype, Region("fresh"),
                                             None if init is None else (lambda i, t=t: init(t, i))), "list")
            sq.source = (self, C)
            return sq
        if attr == "exponents":
            em = ExpMat(self.N, self.D, self._row, Region("fresh"))
            em.source = self
            return em
        if attr == "keys":
            return KeySeq(self)
        if attr == "values":
            return ValuesView(self)
        if attr == "shape":
            return ShapeV(self.shape)
        if attr in ("dtype", "_dtype"):
            return DTypeV(self.dtype)
        if attr == "names":
            return NamesV(self.names, getattr(self, "concrete_names", None))
        if attr == "size":
            return size(self.shape)
        if attr == "ndim":
            return ndim(self.shape)
        if attr == "KEY_OFFSET":
            from .codecmodel import key_offset_of
            return key_offset_of(ex.mod.repo)
        if attr == "indeterminants":
            ind = Poly(ex.ctx, self.base + "_indet", names=self.names, region=Region("fresh", "indeterminants"))
            ind.indeterminants_of = self
            return ind
        if attr == "allocation":
            return getattr(self, "allocation", None)
        if attr == "flags":
            if not hasattr(self, "f_contiguous"):
                self.f_contiguous = z3.Bool(ex.ctx.fresh(f"f_contiguous_{self.base}"))
            if not hasattr(self, "c_contiguous"):
                # an array handed in may be any view (transposed, strided); arrays made by ndpoly(...) are C-contiguous (set there)
                self.c_contiguous = z3.Bool(ex.ctx.fresh(f"c_contiguous_{self.base}"))
            return PolyFlags({"OWNDATA": self.owndata, "F_CONTIGUOUS": self.f_contiguous, "C_CONTIGUOUS": self.c_contiguous})
        return V.BoundMethod(self, attr)

    def sx_len(self, ex):
        src = getattr(self, "indeterminants_of", None)
        if src is not None:
            return src.D                 # poly.indeterminants is the vector of the D indeterminates
        # len(array) = extent of the first axis; a 0-d array has no len() (TypeError)
        if not ex.decide(ndim(self.shape) >= 1, "len.sized"):
            from .sx import RaiseSig
            raise RaiseSig("TypeError", None, "len() of unsized object")
        return extent(self.shape, z3.IntVal(0))

    def sx_iter(self, ex):
        src = getattr(self, "indeterminants_of", None)
        if src is not None and getattr(src, "concrete_names", None) is not None:
            return [IndetElem(src, d) for d in range(len(src.concrete_names))]
        return None

    OPERATORS = {"Add": "add", "Sub": "subtract", "Mult": "multiply", "Pow": "power"}

    def sx_binop(self, ex, op, other, node, reflected):
        """binary operators on an ndpoly reach the numpoly function of the same name through
        __array_ufunc__ / __array_priority__ (numpy protocol, A5; routing table proved under C08)"""
        fname = self.OPERATORS.get(op)
        if fname is None:
            return NotImplemented
        model = ex.reg.fn.get(f"numpoly.{fname}")
        if model is None:
            raise U(f"operator {op} on ndpoly: no contract for numpoly.{fname}", node)
        args = [other, self] if reflected else [self, other]
        return model(ex, args, {}, node)

    def sx_setitem(self, ex, idx, value, node):
        if isinstance(idx, KeyTok):
            # poly[key] = v  (ndarray field assignment): the same as poly.values[key] = v
            return ValuesView(self).sx_setitem(ex, idx, value, node)
        raise U("item assignment on a polynomial array", node)

    def sx_getitem(self, ex, idx, node):
        model = ex.reg.fn.get("numpoly.ndpoly.__getitem__")
        if model is None:
            raise U("ndpoly indexing", node)
        return model(ex, [self, idx], {}, node)

    def sx_method(self, ex, attr, args, kw, node):
        if attr == "ravel" and not args:
            s = self.shape
            p = Poly(ex.ctx, self.base + "_ravel", self.N, self.D, self._row,
                     lambda t, j: self.C(t, unravel_idx(j, s)), ravel_shape(s), self.dtype, self.names, self.region,
                     None if self._init is None else (lambda t, j: self.init(t, unravel_idx(j, s))))
            p._frozen = lambda: (lambda t, j, f=self.frozenC(): f(t, unravel_idx(j, s)))
            p._val = lambda j: self.val(unravel_idx(j, s))
            p.view_of = self
            return p
        if attr == "reshape" and len(args) == 1 and isinstance(args[0], ShapeV) and not kw and getattr(self, "outer_of", None) is not None:
            # numpy.ndarray.reshape (ndpoly does not override it; C order) of an outer product to a.shape + b.shape: the element
            # at (i ++ j) is the one at (position of i in a.ravel(), position of j in b.ravel())
            a, b = self.outer_of
            sa, sb, tgt = a.shape, b.shape, args[0].term
            site = ex.site("outer_reshape")
            ex.oblige(f"pre({site}).target_shape", tgt == sconcat(sa, sb), "precondition", node,
                      note="only the reshape of outer(a, b) to a.shape + b.shape is modelled")
            src = lambda p_: iconcat(ravel_idx(ileft(p_, sa, sb), sa), ravel_idx(iright(p_, sa, sb), sb))
            r = Poly(ex.ctx, ex.ctx.fresh("reshaped"), self.N, self.D, self._row, lambda t, p_: self.C(t, src(p_)), tgt, self.dtype,
                     self.names, self.region, None if self._init is None else (lambda t, p_: self.init(t, src(p_))))
            r._frozen = lambda: (lambda t, p_, f=self.frozenC(): f(t, src(p_)))
            r._val = lambda p_: self.val(src(p_))
            r.view_of = self
            r.outer_of = (a, b)
            return r
        model = ex.reg.fn.get(f"numpoly.ndpoly.{attr}")
        if model is not None:
            if attr in getattr(ex.reg, "static_methods", ()):
                return model(ex, list(args), kw, node)
            return model(ex, [self] + list(args), kw, node)
        raise U(f"ndpoly.{attr}", node)


pvar = z3.Function("pvar", Name, PV)            # the polynomial that is the indeterminate with that name


class IndetElem:
    """element d of poly.indeterminants: the 0-d polynomial x_d"""

    def __init__(self, poly, d):
        self.poly, self.d = poly, d

    def sx_isinstance(self, ex, name):
        return name in ("numpoly.ndpoly", "numpy.ndarray")

    def sx_getattr(self, ex, attr, node):
        if attr == "shape":
            return ShapeV(shp0)
        raise U(f"attribute {attr} of an indeterminate element", node)

    def as_poly(self, ex):
        """the 0-d polynomial x_d itself: its abstract value is the variable named names[d] (definition of pvar)"""
        cache = self.poly.__dict__.setdefault("_indet_polys", {})
        if self.d not in cache:
            ctx = ex.ctx
            q = Poly(ctx, ctx.fresh(f"indet{self.d}"), shape=shp0, names=self.poly.names, region=Region("fresh", "indeterminants"))
            ctx.assume(q.wf(ctx))
            ctx.assume(q.val(the_idx(shp0)) == pvar(nat(self.poly.names, self.d)))
            q.indeterminate = (self.poly, self.d)
            cache[self.d] = q
        return cache[self.d]

    def sx_binop(self, ex, op, other, node, reflected):
        return self.as_poly(ex).sx_binop(ex, op, other, node, reflected)


class NamesV:
    def __init__(self, term, concrete=None):
        self.term = term
        self.concrete = concrete          # python strings when the tuple is known concretely (enumerated cases)

    def sx_contains(self, ex, item, node):
        if self.concrete is not None and isinstance(item, str):
            return item in self.concrete
        return nin(self.term, as_name(ex, item, node))

    def sx_tuple(self, ex, node):
        return self

    def sx_isinstance(self, ex, name):
        return name == "tuple"

    def sx_set(self, ex, node):
        return _SortedNames(self.term, "set")

    def sx_sorted(self, ex, kw, node):
        if kw:
            raise U("sorted(names, key=...)", node)
        return _SortedNames(self.term, "tuple")

    def sx_len(self, ex):
        return nlen(self.term)

    def sx_getattr(self, ex, attr, node):
        return V.BoundMethod(self, attr)

    def sx_method(self, ex, attr, args, kw, node):
        if attr == "index" and len(args) == 1 and not kw:
            x = as_name(ex, args[0], node)
            nm = self.term
            if getattr(ex, "lazy_depth", 0) > 0:
                # inside a lazily evaluated comprehension element: record the definedness condition instead of forking
                if getattr(ex, "lazy_pre", None):
                    ex.lazy_pre[-1].append(nin(nm, x))
                return npos(nm, x)
            if ex.decide(nin(nm, x), "names.index"):
                return npos(nm, x)
            # not `in` the tuple: no position holds the name
            ex.ctx.assume(ex.ctx.forall_range(0, nlen(nm), lambda d: nat(nm, d) != x))
            from .sx import RaiseSig
            raise RaiseSig("ValueError", node, "tuple.index(x): x not in tuple")
        raise U(f"tuple.{attr} on a name tuple", node)

    def sx_getitem(self, ex, idx, node):
        if isinstance(idx, (int, z3.ArithRef)) and not isinstance(idx, bool):
            if isinstance(idx, int) and idx < 0:
                idx = nlen(self.term) + idx
            ex.oblige(f"pre({ex.site('index')}).in_bounds", z3.And(0 <= idx, idx < nlen(self.term)), "index", node)
            return nat(self.term, idx)
        if isinstance(idx, slice) and idx.start is None and idx.stop is None and idx.step == -1:
            ctx = ex.ctx
            nm = ctx.const("names_reversed", Names)
            n = nlen(self.term)
            ctx.assume(nlen(nm) == n)
            ctx.assume(ctx.forall_range(0, n, lambda d: nat(nm, d) == nat(self.term, n - 1 - d)))
            return NamesV(nm)
        if isinstance(idx, slice) and idx.start is None and idx.step is None and (
                (isinstance(idx.stop, int) and idx.stop >= 0) or isinstance(idx.stop, z3.ArithRef)):
            k = idx.stop
            if isinstance(k, z3.ArithRef):
                ex.oblige(f"pre({ex.site('slice')}).bound_not_negative", k >= 0, "precondition", node)
            ctx = ex.ctx
            nm = ctx.const("names_prefix", Names)
            ctx.assume(nlen(nm) == z3.If(nlen(self.term) < k, nlen(self.term), k))
            ctx.assume(ctx.forall_range(0, nlen(nm), lambda d: nat(nm, d) == nat(self.term, d)))
            return NamesV(nm)
        raise U("name tuple indexing", node)

    def sx_compare(self, ex, op, other, node, reflected):
        if isinstance(other, NamesV) and op in ("Eq", "NotEq"):
            e = self.term == other.term
            return e if op == "Eq" else z3.Not(e)
        return NotImplemented

    def sx_seq(self, ex):
        return V.Seq(nlen(self.term), lambda d: nat(self.term, d), "tuple")

    def sx_iter(self, ex):
        return list(self.concrete) if self.concrete is not None else None

    def sx_truth(self, ex):
        return nlen(self.term) > 0


def as_name(ex, v, node=None):
    if isinstance(v, z3.ExprRef) and v.sort() == Name:
        return v
    if isinstance(v, str):
        return z3.Const(f"name:{v}", Name)
    raise U("name designation", node)


def names_distinct(ctx, nm):
    return ctx.forall_range2(0, nlen(nm), lambda d, e: nat(nm, d) != nat(nm, e))


class _SortedNames:
    """sorted(set(names)) / sorted(names): they differ iff the tuple has a duplicate."""

    def __init__(self, term, kind):
        self.term, self.kind = term, kind

    def sx_sorted(self, ex, kw, node):
        return self

    def sx_compare(self, ex, op, other, node, reflected):
        if isinstance(other, _SortedNames) and other.term is self.term and {self.kind, other.kind} == {"set", "tuple"} \
                and op in ("Eq", "NotEq"):
            d = names_distinct(ex.ctx, self.term)
            return d if op == "Eq" else z3.Not(d)
        return NotImplemented


class KeyTok:
    """Storage key of term t of a polynomial (field name of the structured array)."""

    def __init__(self, poly, t):
        self.poly, self.t = poly, t


class KeySeq:
    def __init__(self, poly):
        self.poly = poly

    def sx_len(self, ex):
        return self.poly.N

    def sx_seq(self, ex):
        return V.Seq(self.poly.N, lambda t: KeyTok(self.poly, t))

    def sx_iter(self, ex):
        return None

    def sx_getitem(self, ex, idx, node):
        return self.sx_seq(ex).sx_getitem(ex, idx, node)

    def sx_contains(self, ex, item, node):
        """`key in poly.keys`: some term of the polynomial has the exponent row the key encodes
        (keys are an injective encoding of rows of one width: codec lemma, C20)"""
        if not isinstance(item, KeyTok):
            raise U("membership of a non-key in keys", node)
        p, q = self.poly, item.poly
        if q is p:
            return z3.And(0 <= item.t, item.t < p.N)
        from .sortmodel import meq
        return z3.And(p.D == q.D, z3.Not(ex.ctx.forall_range(0, p.N, lambda t: z3.Not(meq(p.row(t), q.row(item.t), p.D)))))


class ValuesView:
    """`poly.values`: the raw structured array, aliasing the polynomial's buffer."""

    def __init__(self, poly):
        self.poly = poly

    def _term(self, ex, key, node):
        from .mulmodel import RowKey, field_position
        if isinstance(key, RowKey):
            if getattr(ex, "fill_target", None) is not self.poly:
                raise U("values[computed key] on another polynomial than the one being filled", node)
            return field_position(ex, key, node)
        if not isinstance(key, KeyTok):
            raise U("values[...] with a non-key index", node)
        p = self.poly
        if key.poly is p:
            return key.t
        # key of another polynomial: valid when both share rows (aligned): same key <=> same row
        shared = getattr(p, "aligned_with", None)
        if shared is not None and key.poly in shared:
            return key.t
        same_pos = z3.And(key.t >= 0, key.t < p.N, key.poly.row(key.t) == p.row(key.t), key.poly.D == p.D)
        from .logic import simplify_bool as _sb
        if _sb(same_pos) is True:
            return key.t
        if key.poly._row is p._row and _sb(key.poly.N == p.N) is True and _sb(key.poly.D == p.D) is True:
            # built from the other polynomial's exponent rows (ndpoly(exponents=x.exponents, ...)): same keys, same positions
            ex.oblige(f"pre({ex.site('values_key')}).key_in_range", z3.And(key.t >= 0, key.t < p.N), "index", node)
            return key.t
        # general case: the field whose exponent row equals the row the key encodes (must exist: KeyError otherwise)
        from .sortmodel import meq
        ctx = ex.ctx
        q = key.poly
        ex.oblige(f"pre({ex.site('values_key')}).key_is_field",
                  z3.And(p.D == q.D, z3.Not(ctx.forall_range(0, p.N, lambda t: z3.Not(meq(p.row(t), q.row(key.t), p.D))))),
                  "precondition", node, note="field lookup by another polynomial's key: a term with that exponent row must exist")
        pos = ctx.int("field_pos")
        ctx.assume(z3.And(0 <= pos, pos < p.N, meq(p.row(pos), q.row(key.t), p.D)))
        return pos

    def sx_getitem(self, ex, idx, node):
        t = self._term(ex, idx, node)
        return self.poly.column(ex, t)

    def sx_setitem(self, ex, idx, value, node):
        t = self._term(ex, idx, node)
        col = self.poly.column(ex, t)
        src = elemfn(ex, value, self.poly.shape, node)
        col.write(ex, src, node)

    def sx_getattr(self, ex, attr, node):
        return V.BoundMethod(self, attr)

    def sx_method(self, ex, attr, args, kw, node):
        if attr == "ravel" and not args:
            return self                     # 1-d alias of the same buffer: same fields, same memory
        raise U(f"values.{attr}", node)


def install(reg):
    ax = reg.axiom

    def ufunc2(name, f, kind):
        @ax(f"numpy.{name}")
        def _u(ex, args, kw, node, f=f, kind=kind):
            if "out" in kw or "**" in kw or kw.get("where", True) is not True or set(kw) - {"where"}:
                raise U(f"numpy.{name} with out/where/extra keywords", node)
            return elementwise(ex, f, list(args), kind, node)

    ufunc2("greater", lambda a, b: a > b, "bool")
    ufunc2("greater_equal", lambda a, b: a >= b, "bool")
    ufunc2("less", lambda a, b: a < b, "bool")
    ufunc2("less_equal", lambda a, b: a <= b, "bool")
    ufunc2("equal", lambda a, b: a == b, "bool")
    ufunc2("not_equal", lambda a, b: a != b, "bool")
    ufunc2("add", lambda a, b: a + b, "real")
    ufunc2("subtract", lambda a, b: a - b, "real")
    ufunc2("multiply", lambda a, b: a * b, "real")

    def creation(name, value, kind_of):
        @ax(f"numpy.{name}")
        def _c(ex, args, kw, node):
            shp = args[0]
            if isinstance(shp, tuple) and not shp:
                shp = ShapeV(shp0)
            if isinstance(shp, int) and not isinstance(shp, bool) and shp >= 0:
                shp = ShapeV(shape1(z3.IntVal(shp)))          # numpy.zeros(n): the 1-d shape (n,)
                ex.ctx.assume(z3.And(ndim(shp.term) == 1, size(shp.term) == args[0]))
            if not isinstance(shp, ShapeV):
                raise U(f"numpy.{name} with non-symbolic shape", node)
            dt = kw.get("dtype", args[1] if len(args) > 1 else None)
            if getattr(shp, "rowshape", None) and value == 0:
                S, D = shp.rowshape
                return RowArr(S, D, lambda i: mono_zero)
            dtt = as_dtype(ex, dt, node) if dt is not None else dt_float
            isb = simplify_bool(dtt == dt_bool) is True
            v = z3.BoolVal(bool(value)) if isb else z3.RealVal(value)
            return Arr(shp.term, lambda i: v, "bool" if isb else "real", dtt, Region("fresh"))

    creation("ones", 1, None)
    creation("zeros", 0, None)

    @ax("numpy.array")
    def array(ex, args, kw, node):
        a = args[0]
        if isinstance(a, Arr) and not kw and len(args) == 1:
            return Arr(a.shape, _freeze(a), a.kind, a.dtype, Region("fresh"), a._init)
        if isinstance(a, IntVec) and not kw:
            return IntVec(a.n, a.at, "fresh")
        if isinstance(a, list) and not a and not kw:
            e = Arr(shape1(z3.IntVal(0)), lambda i: z3.RealVal(0), "real", dt_float, Region("fresh"))
            return e
        if isinstance(a, float) and not kw and len(args) == 1:
            return Arr(shp0, lambda i: z3.RealVal(repr(a)), "real", dt_float, Region("fresh"))
        if isinstance(a, V.Seq) and not kw and len(args) == 1:
            probe = a.item(z3.Int(ex.ctx.fresh("probe")))
            if isinstance(probe, z3.ArithRef) and probe.is_int():
                iv = IntVec(a.n, a.item, "fresh")
                iv.from_seq = a
                return iv
        raise U("numpy.array of this value", node)

    @ax("numpy.asarray")
    def asarray(ex, args, kw, node):
        a = args[0]
        if isinstance(a, Arr) and not kw and len(args) == 1:
            return a
        if isinstance(a, bool) and not kw:
            return a
        sv = scalar_of(a)
        if sv is not None and not isinstance(sv, z3.BoolRef) and not kw and len(args) == 1:
            return Arr(shp0, lambda i: sv, "real", ex.ctx.const("dt_scalar", DT), Region("fresh"))      # 0-d array of a number
        raise U("numpy.asarray of this value", node)

    @ax("numpy.any")
    def any_(ex, args, kw, node):
        a = args[0]
        if isinstance(a, MonoRow) and len(args) == 1 and not kw:
            return z3.Not(mzero(a.m, a.D))
        if isinstance(a, BoolVec) and len(args) == 1 and not kw:
            return z3.Not(ex.ctx.forall_range(0, a.n, lambda t: z3.Not(a.at(t))))
        if isinstance(a, (EntryTest, RowEntryTest)) and len(args) == 1 and not kw:
            return a.some(ex.ctx)
        if isinstance(a, ExpMat) and (args[1:] == [-1] or kw.get("axis") == -1) and len(args) + len(kw) == 2:
            m = a
            ctx = ex.ctx
            anyf = ctx.func("row_has_nonzero", I, B)
            ctx.assume(ctx.forall_range(0, m.n, lambda t: anyf(t) == z3.Not(ctx.forall_range(0, m.D, lambda d: expo(m.row(t), d) == 0)),
                                        pat=lambda t: anyf(t)))
            bv = BoolVec(m.n, lambda t: anyf(t))
            bv.row_any_of = m
            return bv
        if isinstance(a, Arr) and len(args) == 1 and not kw:
            i = z3.Const(ex.ctx.fresh("i"), Idx)
            nz = (a.elem(i) != 0) if a.kind != "bool" else a.elem(i)
            return z3.Exists([i], z3.And(inshape(i, a.shape), nz))
        raise U("numpy.any of this value", node)

    @ax("numpy.result_type")
    def result_type_(ex, args, kw, node):
        if len(args) == 1 and isinstance(args[0], V.StarSeq) and not kw:
            probe = args[0].seq.item(z3.Int(ex.ctx.fresh("probe")))
            if isinstance(probe, Arr):
                out = DTypeV(promoted_dtype(ex, args[0].seq))
                out.promotion_of = args[0].seq
                return out
        if len(args) >= 2 and not kw and not any(isinstance(a, V.StarSeq) for a in args):
            ds = []
            for a in args:
                if isinstance(a, (Arr, Poly)):
                    ds.append(a.dtype)
                else:
                    ds.append(as_dtype(ex, a, node))
            out = ds[0]
            for d in ds[1:]:
                out = result_type(out, d)          # numpy's promotion, folded left to right over the arguments
            return DTypeV(out)
        raise U("numpy.result_type of these values", node)

    fdiv = z3.Function("floor_div", R, R, R)

    def ufunc_out(name, f):
        @ax(f"numpy.{name}")
        def _u(ex, args, kw, node, f=f, name=name):
            out = kw.get("out")
            extra = kw.get("**")
            if len(args) == 2 and isinstance(out, Arr) and kw.get("where", True) is True and set(kw) <= {"out", "where", "**"} \
                    and (extra is None or (isinstance(extra, dict) and not extra)):
                site = ex.site(f"numpy.{name}")
                res = elementwise(ex, f, list(args), "real", node)
                ex.oblige(f"pre({site}).out_has_the_result_shape", out.shape == res.shape, "precondition", node)
                g = _freeze(res)
                out.write(ex, g, node)            # frame obligation: `out` must be a fresh array or a declared output
                return out
            raise U(f"numpy.{name} in this form", node)
    ufunc_out("true_divide", lambda a, b: _num(a) / _num(b))
    ufunc_out("floor_divide", lambda a, b: fdiv(_num(a), _num(b)))

    @ax("numpy.common_type")
    def common_type(ex, args, kw, node):
        ct = z3.Function("common_type2", DT, DT, DT)
        ds = []
        for a in args:
            if isinstance(a, (Arr, Poly)):
                ds.append(a.dtype)
            else:
                raise U("numpy.common_type of this value", node)
        if len(ds) == 2 and not kw:
            return DTypeV(ct(ds[0], ds[1]))
        raise U("numpy.common_type in this form", node)

    @ax("numpy.abs")
    def abs_(ex, args, kw, node):
        if len(args) == 1 and isinstance(args[0], Arr) and not kw:
            return elementwise(ex, lambda a: z3.If(_num(a) >= 0, _num(a), -_num(a)), [args[0]], "real", node, dtype=args[0].dtype)
        raise U("numpy.abs of this value", node)

    @ax("numpy.where")
    def where_(ex, args, kw, node):
        if len(args) == 3 and not kw and isinstance(args[0], Arr) and args[0].kind == "bool" and all(
                isinstance(a, Arr) or scalar_of(a) is not None for a in args[1:]):
            c, x, y = args
            r = elementwise(ex, lambda cc, a, b: z3.If(_bool(cc), _num(a), _num(b)), [c, x, y], "real", node)
            if isinstance(x, Arr) and isinstance(y, Arr):
                r.dtype = result_type(x.dtype, y.dtype)
            r.where_of = (c, x, y)
            return r
        raise U("numpy.where in this form", node)

    @ax("numpy.outer")
    def outer(ex, args, kw, node):
        a, b = args
        if isinstance(a, Arr) and isinstance(b, Arr) and not kw:
            return OuterProduct(a, b)
        raise U("numpy.outer of these values", node)

    @ax("numpy.allclose")
    def allclose(ex, args, kw, node):
        # numpy: all(|a - b| <= atol + rtol*|b|), defaults rtol=1e-5, atol=1e-8
        a, b = args[0], args[1]
        rtol = kw.get("rtol", args[2] if len(args) > 2 else 1e-5)
        atol = kw.get("atol", args[3] if len(args) > 3 else 1e-8)
        sb = scalar_of(b)
        if isinstance(a, Arr) and sb is not None and isinstance(rtol, float) and isinstance(atol, float):
            absb = z3.If(sb >= 0, sb, -sb)
            tol = z3.RealVal(repr(atol)) + z3.RealVal(repr(rtol)) * absb
            def close(i):
                d = _num(a.elem(i)) - sb
                return z3.And(d <= tol, -d <= tol)
            return ex.ctx.forall_idx(close, a.shape)
        raise U("numpy.allclose of these values", node)

    @ax("numpy.argwhere")
    def argwhere(ex, args, kw, node):
        a = args[0]
        if isinstance(a, BoolVec):
            return ArgWhere(a)
        raise U("numpy.argwhere of this value", node)

    @ax("numpy.mod")
    def mod_(ex, args, kw, node):
        # numpy.mod(exponents, 1): the fractional parts.  Exponent matrices of the model hold integers (sort Mono), so every
        # entry is 0; what the real array does with values that are not whole numbers is outside the model (bounded checks, C20).
        if len(args) == 2 and isinstance(args[0], ExpMat) and isinstance(args[1], int) and args[1] == 1 and not kw:
            return WholeParts(args[0])
        raise U("numpy.mod of these values", node)

    @ax("numpy.all")
    def all_(ex, args, kw, node):
        a = args[0]
        if isinstance(a, bool) and len(args) == 1 and not kw:
            return a
        if isinstance(a, RowsAllZero) and (args[1:] == [-1] or kw.get("axis") == -1):
            m = a.mat
            return BoolVec(m.n, lambda t: mzero(m.row(t), m.D))
        if isinstance(a, (EntryTest, RowEntryTest)) and len(args) == 1 and not kw:
            return a.every(ex.ctx)
        if isinstance(a, Arr) and len(args) == 1 and not kw:
            return ex.ctx.forall_idx(lambda i: (a.elem(i) != 0) if a.kind != "bool" else a.elem(i), a.shape)
        raise U("numpy.all of this value", node)


class WholeParts:
    """numpy.mod(E, 1) for an integer exponent matrix E: all zeros"""

    def __init__(self, mat):
        self.mat = mat

    def sx_compare(self, ex, op, other, node, reflected):
        if isinstance(other, int) and other == 0 and op in ("Eq", "NotEq"):
            return op == "Eq"          # every entry equals 0
        return NotImplemented


class ArgWhere:
    """numpy.argwhere(boolean vector): only `.item()` (exactly one true entry) is modelled."""

    def __init__(self, vec):
        self.vec = vec

    def sx_getattr(self, ex, attr, node):
        return V.BoundMethod(self, attr)

    def sx_method(self, ex, attr, args, kw, node):
        if attr == "item" and not args:
            v = self.vec
            ctx = ex.ctx
            site = ex.site("argwhere_item")
            ex.oblige(f"pre({site}).at_least_one", z3.Not(ctx.forall_range(0, v.n, lambda t: z3.Not(v.at(t)))),
                      "precondition", node)
            ex.oblige(f"pre({site}).at_most_one", ctx.forall_range2(0, v.n, lambda t, u: z3.Not(z3.And(v.at(t), v.at(u)))),
                      "precondition", node, note=".item() needs exactly one element")
            idx = ctx.int("argwhere")
            ctx.assume(z3.And(0 <= idx, idx < v.n, v.at(idx)))
            return idx
        raise U(f"argwhere.{attr}", node)


# ====================================================================== pieces used by construct/clean.py
class RowsNonZero:
    """`exponents != 0` (boolean matrix); only `numpy.any(_, 0)` (per column) is modelled."""

    def __init__(self, mat):
        self.mat = mat


class ColVec:
    """Boolean vector over the D columns of an exponent matrix (mutable: indices[0] = True)."""

    def __init__(self, D, at):
        self.D, self._at = D, at
        self.region = Region("fresh")

    def at(self, d):
        return self._at(d)

    def sx_setitem(self, ex, idx, value, node):
        if isinstance(idx, int) and value is True:
            old = self._at
            self._at = lambda d: z3.If(d == idx, z3.BoolVal(True), old(d))
            return
        raise U("column mask assignment", node)


class ColSel:
    """Strictly increasing selection of columns: col(j) for j < Dn, exactly the columns with used(d)."""

    def __init__(self, ctx, D, used):
        self.D, self.used = D, used
        self.Dn = ctx.int("Dn")
        self.col = ctx.func("col", I, I)
        self.pos = ctx.func("colpos", I, I)
        ctx.assume(z3.And(self.Dn >= 0, self.Dn <= D))
        ctx.assume(ctx.forall_range(0, self.Dn, lambda j: z3.And(0 <= self.col(j), self.col(j) < D, used(self.col(j)),
                                                                 self.pos(self.col(j)) == j), pat=lambda j: self.col(j)))
        ctx.assume(ctx.forall_range2(0, self.Dn, lambda j, l: self.col(j) < self.col(l)))
        ctx.assume(ctx.forall_range(0, D, lambda d: z3.Implies(used(d), z3.And(0 <= self.pos(d), self.pos(d) < self.Dn,
                                                                                self.col(self.pos(d)) == d)),
                                    pat=lambda d: self.pos(d)))


def project_columns(ex, mat, sel):
    """exponents[:, mask]: rows restricted to the selected columns."""
    ctx = ex.ctx
    rp = ctx.func("rowproj", I, Mono)
    ctx.assume(ctx.forall_range(0, mat.n, lambda t: ctx.forall_range(
        0, sel.Dn, lambda j: expo(rp(t), j) == expo(mat.row(t), sel.col(j))), pat=lambda t: rp(t)))
    out = ExpMat(mat.n, sel.Dn, lambda t: rp(t), Region("fresh"), mat.dtype)
    out.projected_from = (mat, sel)
    return out


class NameArr:
    """numpy.array(names)"""

    def __init__(self, names):
        self.names = names

    def sx_getitem(self, ex, idx, node):
        if isinstance(idx, ColVec):
            sel = getattr(idx, "colsel", None)
            if sel is None:
                sel = ColSel(ex.ctx, idx.D, idx.at)
                idx.colsel = sel
            ctx = ex.ctx
            nm = ctx.const("names_sel", Names)
            ctx.assume(nlen(nm) == sel.Dn)
            ctx.assume(ctx.forall_range(0, sel.Dn, lambda j: nat(nm, j) == nat(self.names, sel.col(j))))
            out = NameArr(nm)
            out.selected = (self.names, sel)
            return out
        raise U("name array indexing", node)

    def sx_getattr(self, ex, attr, node):
        return V.BoundMethod(self, attr)

    def sx_method(self, ex, attr, args, kw, node):
        if attr == "tolist":
            return NamesV(self.names)
        raise U(f"name array .{attr}", node)


class UniqueCounts:
    """second result of numpy.unique(rows, return_counts=True, axis=0); only `any(count > 1)` is modelled"""

    def __init__(self, mat):
        self.mat = mat

    def sx_compare(self, ex, op, other, node, reflected):
        if op == "Gt" and other == 1 and not reflected:
            return HasDuplicateMarker(self.mat)
        return NotImplemented


class HasDuplicateMarker:
    def __init__(self, mat):
        self.mat = mat


def has_duplicate_rows(ctx, mat):
    from .sortmodel import meq
    return z3.Not(ctx.forall_range2(0, mat.n, lambda t, s: z3.Not(meq(mat.row(t), mat.row(s), mat.D))))


def install_clean(reg):
    ax = reg.axiom
    prev_any = reg.fn["numpy.any"]
    prev_asarray = reg.fn["numpy.asarray"]
    prev_zeros = reg.fn["numpy.zeros"]
    prev_array = reg.fn["numpy.array"]

    @ax("numpy.any")
    def any_(ex, args, kw, node):
        a = args[0]
        if isinstance(a, RowsNonZero) and args[1:] == [0]:
            m = a.mat
            ctx = ex.ctx
            used = ctx.func("colused", I, B)
            ctx.assume(ctx.forall_range(0, m.D, lambda d: used(d) == z3.Not(
                ctx.forall_range(0, m.n, lambda t: expo(m.row(t), d) == 0)), pat=lambda d: used(d)))
            cv = ColVec(m.D, lambda d: used(d))
            cv.of = m
            return cv
        if isinstance(a, ColVec) and len(args) == 1:
            return z3.Not(ex.ctx.forall_range(0, a.D, lambda d: z3.Not(a.at(d))))
        if isinstance(a, HasDuplicateMarker):
            return has_duplicate_rows(ex.ctx, a.mat)
        return prev_any(ex, args, kw, node)

    @ax("numpy.asarray")
    def asarray(ex, args, kw, node):
        a = args[0]
        if isinstance(a, ExpMat):
            return a
        if isinstance(a, V.Seq) and a.kind == "tuple" and kw.get("dtype") is not None:
            probe = a.item(z3.Int(ex.ctx.fresh("probe")))
            if isinstance(probe, MonoRow):
                return ExpMat(a.n, probe.D, lambda t: a.item(t).m, Region("fresh"), dt_int)
        return prev_asarray(ex, args, kw, node)

    @ax("numpy.zeros")
    def zeros(ex, args, kw, node):
        shp = args[0]
        if isinstance(shp, tuple) and len(shp) == 2 and shp[0] == 1:
            return ExpMat(1, shp[1], lambda t: mono_zero, Region("fresh"), as_dtype(ex, kw.get("dtype", "float64"), node))
        return prev_zeros(ex, args, kw, node)

    def like(fname, value):
        @ax(f"numpy.{fname}")
        def _like(ex, args, kw, node):
            a = args[0]
            if isinstance(a, Arr) and len(args) == 1 and set(kw) <= {"dtype", "order", "shape"}:
                # dtype=None / shape=None: those of the prototype array; order only concerns the memory layout
                dt = a.dtype if kw.get("dtype") is None else as_dtype(ex, kw["dtype"], node)
                shp = a.shape
                if kw.get("shape") is not None:
                    if not isinstance(kw["shape"], ShapeV):
                        raise U(f"numpy.{fname} with this shape argument", node)
                    shp = kw["shape"].term
                isb = simplify_bool(dt == dt_bool) is True
                v = z3.BoolVal(bool(value)) if isb else z3.RealVal(value)
                out = Arr(shp, lambda i: v, "bool" if isb else ("real" if a.kind == "bool" and not isb else a.kind), dt, Region("fresh"))
                out.like_of = (a, dict(kw))
                return out
            raise U(f"numpy.{fname} of this value", node)
    like("zeros_like", 0)
    like("ones_like", 1)

    @ax("numpy.array")
    def array(ex, args, kw, node):
        a = args[0]
        if isinstance(a, NamesV) and len(args) == 1 and not kw:
            return NameArr(a.term)
        return prev_array(ex, args, kw, node)

    @ax("numpy.unique")
    def unique(ex, args, kw, node):
        a = args[0]
        if isinstance(a, ExpMat) and kw.get("return_counts") is True and kw.get("axis") == 0:
            return (object(), UniqueCounts(a))
        raise U("numpy.unique in this form", node)


# ====================================================================== pieces used by align.py
class SymDict:
    """{tuple(exponent): coefficient for ...} built over a symbolic sequence: n entries, key(t): Mono, val(t): Arr.
    Lookup goes through a ghost function fnd: Mono -> Int (-1 when absent; the LAST entry with an equal key otherwise)."""
    is_dict = True

    def __init__(self, ex, n, key, val, D):
        from .sortmodel import meq
        ctx = ex.ctx
        self.n, self.key, self.val, self.D = n, key, val, D
        self.fnd = ctx.func("dictfind", Mono, I)
        m = z3.Const(ctx.fresh("m"), Mono)
        f = self.fnd
        ctx.assume(z3.ForAll([m], z3.And(f(m) >= -1, f(m) < n), patterns=[f(m)]))
        ctx.assume(z3.ForAll([m], z3.Implies(f(m) >= 0, meq(key(f(m)), m, D)), patterns=[f(m)]))
        t = z3.Int(ctx.fresh("t"))
        ctx.assume(z3.ForAll([m, t], z3.Implies(z3.And(0 <= t, t < n, meq(key(t), m, D)), f(m) >= t),
                             patterns=[z3.MultiPattern(f(m), key(t))]))

    def sx_getattr(self, ex, attr, node):
        return V.BoundMethod(self, attr)

    def sx_method(self, ex, attr, args, kw, node):
        if attr == "get" and len(args) == 2 and isinstance(args[0], MonoRow) and isinstance(args[1], Arr):
            k, default = args
            src = self.fnd(k.m)
            dflt = _freeze(default)
            probe = self.val(z3.IntVal(0))
            vals = self.val
            a = Arr(default.shape, lambda i: z3.If(src == -1, dflt(i), vals(src).elem(i)), "real", default.dtype, Region("fresh"))
            a.dict_src = (self, src)
            return a
        if attr == "items" and not args:
            return V.Seq(self.n, lambda t: (MonoRow(self.key(t), self.D), self.val(t)), "list")
        raise U(f"dict.{attr} on a symbolic dictionary", node)


def _make_dict(ex, r, node):
    """dict comprehension / dict() over a symbolic sequence of (MonoRow, Arr) pairs"""
    seq = V.as_seq(ex, r, node)
    probe = seq.item(z3.Int(ex.ctx.fresh("probe")))
    if isinstance(probe, tuple) and len(probe) == 2 and isinstance(probe[0], MonoRow) and isinstance(probe[1], Arr):
        return SymDict(ex, seq.n, lambda t: seq.item(t)[0].m, lambda t: seq.item(t)[1], probe[0].D)
    raise U("dict over this kind of symbolic sequence", node)


class UniqueRows:
    """ghost data of numpy.unique(rows, axis=0): pos(t) = index of input row t in the result"""

    def __init__(self, pos, src):
        self.pos, self.src = pos, src


def unique_rows(ex, X):
    from .sortmodel import meq, lexle
    ctx = ex.ctx
    M = ctx.int("M")
    G = ctx.func("urow", I, Mono)
    pos = ctx.func("upos", I, I)
    src = ctx.func("usrc", I, I)
    ctx.assume(z3.And(M >= 0, M <= X.n, (M == 0) == (X.n == 0) if not isinstance(X.n, int) else z3.BoolVal(True)))
    ctx.assume(ctx.forall_range(0, X.n, lambda t: z3.And(0 <= pos(t), pos(t) < M, meq(X.row(t), G(pos(t)), X.D)),
                                pat=lambda t: pos(t)))
    ctx.assume(ctx.forall_range(0, M, lambda g: z3.And(0 <= src(g), src(g) < X.n, G(g) == X.row(src(g)), pos(src(g)) == g),
                                pat=lambda g: src(g)))
    ctx.assume(ctx.forall_range2(0, M, lambda g, h: z3.And(z3.Not(meq(G(g), G(h), X.D)), G(g) != G(h),
                                                           lexle(G(g), G(h), X.D, z3.BoolVal(True)))))
    U_ = ExpMat(M, X.D, lambda g: G(g), Region("fresh"), X.dtype)
    U_.unique_of = (X, UniqueRows(pos, src))
    ex.last_unique = U_
    return U_


class NameUnion:
    """{name for poly in polys for name in poly.names}: the union of the name tuples `terms`"""

    def __init__(self, terms):
        self.terms = terms

    def sx_sorted(self, ex, kw, node):
        import ast as _ast
        key = kw.get("key")
        # the only key recognised: the numeric suffix after the default variable-name prefix
        ok = isinstance(key, V.Closure) and isinstance(key.node, _ast.Lambda) and len(key.node.args.args) == 1 \
            and _ast.unparse(key.node.body) == f"int({key.node.args.args[0].arg}[length:] or '0')"
        length = key.env.get("length") if ok else None
        ok = ok and isinstance(length, z3.ArithRef) and length.decl().name() == "ovlen"
        if not ok or set(kw) != {"key"}:
            raise U("sorted(set of names) with an unrecognised key", node)
        ex.ctx.option_atoms.add("default_varname")
        return sorted_union(ex, self.terms)


def sorted_union(ex, terms):
    """tuple(sorted(union of the name tuples, key=numeric suffix)): CPython's set/sorted semantics as axioms
    (A6: names are canonical, so the numeric suffix `rank` orders them)"""
    from .logic import rank
    ctx = ex.ctx
    cn = ctx.const("common_names", Names)
    ctx.assume(names_distinct(ctx, cn))
    for nm in terms:
        ctx.assume(ctx.forall_range(0, nlen(nm), lambda d, nm=nm: nin(cn, nat(nm, d)), pat=lambda d, nm=nm: nat(nm, d)))
    ctx.assume(ctx.forall_range(0, nlen(cn), lambda e: z3.Or(*[nin(nm, nat(cn, e)) for nm in terms]), pat=lambda e: nat(cn, e)))
    ctx.assume(ctx.forall_range2(0, nlen(cn), lambda e, f: rank(nat(cn, e)) <= rank(nat(cn, f))))
    out = NamesV(cn)
    out.union_of = list(terms)
    return out


def _make_union(ex, r, node):
    terms = []
    K = z3.Int("k!union")
    for x in r:
        if not isinstance(x, V.Chunk):
            raise U("set of names with single elements", node)
        e = x.seq.item(K)
        if not (isinstance(e, z3.ExprRef) and e.decl().name() == "nat" and e.num_args() == 2 and z3.eq(e.arg(1), K)):
            raise U("set comprehension over something else than name tuples", node)
        terms.append(e.arg(0))
    return NameUnion(terms)


def install_align(reg):
    reg.make_union = _make_union
    ax = reg.axiom
    prev_zeros = reg.fn["numpy.zeros"]
    prev_unique = reg.fn["numpy.unique"]
    reg.make_dict = _make_dict

    @ax("numpy.broadcast_shapes")
    def broadcast_shapes(ex, args, kw, node):
        shapes = [a.term for a in args if isinstance(a, ShapeV)]
        if len(shapes) != len(args) or not shapes:
            raise U("broadcast_shapes of these values", node)
        site = ex.site("broadcast_shapes")
        s = shapes[0]
        for t in shapes[1:]:
            ex.oblige(f"pre({site}).broadcastable", bok(s, t), "precondition", node,
                      note="numpy.broadcast_shapes raises ValueError otherwise")
            s = bshape(s, t)
        return ShapeV(s)

    @ax("numpy.vstack")
    def vstack(ex, args, kw, node):
        mats = V.iterate(ex, args[0], node)
        if not mats or not all(isinstance(m, ExpMat) for m in mats):
            raise U("vstack of these values", node)
        site = ex.site("vstack")
        D = mats[0].D
        for m in mats[1:]:
            ex.oblige(f"pre({site}).equal_width", m.D == D, "precondition", node)
        total = mats[0].n
        offs = [0]
        for m in mats[1:]:
            offs.append(total)
            total = total + m.n
        X = ex.ctx.func("vstack", I, Mono)

        def rec(k, t):
            tt = t if k == 0 else t - offs[k]
            if k == len(mats) - 1:
                return mats[k].row(tt)
            return z3.If(t < offs[k] + mats[k].n, mats[k].row(tt), rec(k + 1, t))
        tq = z3.Int(ex.ctx.fresh("t"))
        ex.ctx.assume(z3.ForAll([tq], X(tq) == rec(0, tq), patterns=[X(tq)]))
        out = ExpMat(total, D, lambda t: X(t), Region("fresh"), mats[0].dtype)
        out.stack_of = (mats, offs)
        return out

    @ax("numpy.unique")
    def unique(ex, args, kw, node):
        a = args[0]
        if isinstance(a, ExpMat) and kw.get("axis") == 0 and not kw.get("return_counts"):
            return unique_rows(ex, a)
        return prev_unique(ex, args, kw, node)

    @ax("numpy.zeros")
    def zeros(ex, args, kw, node):
        shp = args[0]
        if isinstance(shp, tuple) and len(shp) == 2 and not (isinstance(shp[0], int) and shp[0] == 1):
            return ExpMat(shp[0], shp[1], lambda t: mono_zero, Region("fresh"), as_dtype(ex, kw.get("dtype", "float64"), node))
        return prev_zeros(ex, args, kw, node)
