"""CLI:  vcheck run <PROP> [--tier quick|thorough]   | vcheck replay <file> | vcheck lock [PROP...] | vcheck all"""
from __future__ import annotations
import argparse
import json
import os
import subprocess
import sys

HERE = os.path.dirname(os.path.abspath(__file__))
sys.path.insert(0, HERE)


def main():
    ap = argparse.ArgumentParser()
    sub = ap.add_subparsers(dest="cmd", required=True)
    r = sub.add_parser("run")
    r.add_argument("prop")
    r.add_argument("--tier", default=os.environ.get("VERIF_TIER", "quick"))
    r.add_argument("-v", "--verbose", action="store_true")
    p = sub.add_parser("replay")
    p.add_argument("file")
    l = sub.add_parser("lock")
    l.add_argument("props", nargs="*")
    a_ = sub.add_parser("all")
    a_.add_argument("--tier", default="quick")
    st = sub.add_parser("selftest")
    st.add_argument("--fast", action="store_true")
    a = ap.parse_args()
    seed = int(os.environ.get("VERIF_SEED", "0") or 0)
    if a.cmd == "run":
        from engine.check import run_property
        try:
            code, lines, summary = run_property(a.prop, a.tier, seed, verbose=a.verbose)
        except Exception:
            import traceback
            traceback.print_exc()
            print(f"CHECKER-ERROR property={a.prop}: internal error (not a verdict)")
            return 3
        for ln in lines:
            print(ln)
        print(summary)
        return code
    if a.cmd == "replay":
        rec = json.load(open(a.file))
        if rec.get("kind") == "concrete":
            return subprocess.call(["/venv/bin/python", os.path.join(HERE, "conc", "host.py"), "replay", a.file],
                                   env=dict(os.environ, PYTHONWARNINGS="ignore"))
        # obligation record: re-pose the obligation by re-running the property's proof
        from engine.check import run_property
        code, lines, summary = run_property(rec["property"], "quick", seed)
        still = any(rec["obligation"] in ln or os.path.basename(a.file) in ln for ln in lines if ln.startswith("VIOLATION"))
        print(f"obligation {rec['obligation']}: {'still fails' if still else 'discharged'} on the current tree")
        return 1 if still else 0
    if a.cmd == "lock":
        from props import PROPS
        from engine.check import write_lock
        write_lock(a.props or sorted(PROPS))
        return 0
    if a.cmd == "all":
        from props import PROPS
        from engine.check import run_property
        worst = 0
        for pid in sorted(PROPS):
            code, lines, summary = run_property(pid, a.tier, seed)
            for ln in lines:
                print(ln)
            print(summary)
            worst = max(worst, code)
        return worst
    if a.cmd == "selftest":
        from engine.selftest import main as st_main
        return st_main(fast=a.fast)


if __name__ == "__main__":
    sys.exit(main())
