#!/usr/bin/env python3
"""Regenerate MANIFEST.json from tools/claims.json (per-property level text) and props.py."""
import json, os, sys
HERE = os.path.dirname(os.path.dirname(os.path.abspath(__file__)))
props = {l['id']: l for l in map(json.loads, open(os.path.join(HERE, 'properties.jsonl')))}
claims = json.load(open(os.path.join(HERE, 'tools', 'claims.json')))
checks = []
for pid in sorted(claims['claimed']):
    c = claims['claimed'][pid]
    checks.append(dict(property_id=pid, quick_cmd=f"./vcheck run {pid} --tier quick",
                       thorough_cmd=f"./vcheck run {pid} --tier thorough", evidence_file=f"evidence/{pid}.json",
                       replay_cmd_template="./vcheck replay {path}", engine="vcheck",
                       level_claimed=dict(category=c['level'], text=c['text'], design_ref="DESIGN.md section 3 " + pid),
                       level_note=c['note'], technique=c['technique']))
na = [dict(property_id=p, reason=claims['not_applicable'].get(p, "check not built yet in this round (contracts planned in DESIGN.md section 3); not claimed until its check exists and exits 0"))
      for p in sorted(props) if p not in claims['claimed']]
m = dict(version=1,
         setup_cmd="python3-vt -m compileall -q engine contracts conc props.py vcheck.py && /venv/bin/python -c 'import numpoly, numpy'",
         hooks=dict(guard="NUMPOLY_VERIF", enable="no source hooks: contracts are sidecar files in /verif/contracts; the run-time side wraps functions inside its own subprocess (0xA5 poison of fresh ndpoly buffers, iteration counters)",
                    baseline_off_cmd="python3 /verif/tools/baseline.py /repo", source_commits=[], add_only=True),
         engines=[dict(name="vcheck", path="vcheck", serves_properties=sorted(claims['claimed']),
                       kind_free_text="AST->z3/cvc5 verification-condition generator over the real numpoly sources with sidecar contracts (engine/, contracts/); run-time contract host for bounded stand-ins and replay (conc/)")],
         checks=checks, not_applicable=na,
         notes="Exit codes: 0 held, 1 VIOLATION (replay file), 2 undecided, 3 checker error. Bounded stand-ins are labelled in evidence.coverage.bounded and never counted as proved. Fixes made to /repo are listed in known_findings.txt (fixed: lines).")
json.dump(m, open(os.path.join(HERE, 'MANIFEST.json'), 'w'), indent=1)
print("claimed:", sorted(claims['claimed']), "n/a:", len(na))
