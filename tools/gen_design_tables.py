#!/usr/bin/env python3
"""Regenerate the machine-written blocks of DESIGN.md (between <!-- BEGIN:x --> / <!-- END:x --> markers):

  table-B   per property: functions under contract, obligations generated/discharged, what is left to the bounded side, assumptions
            (from props.PROPS and evidence/<id>.json of the last run against /repo)
  table-C   per seeded change: what it breaks and which registered check reported it, by which clause / obligation
            (from seeded/<P>-<k>/meta.json as written by tools/collect_seed.py)

Run with python3-vt (props.py imports z3):  python3-vt tools/gen_design_tables.py
"""
from __future__ import annotations
import json, os, re, sys, glob

ROOT = os.path.dirname(os.path.dirname(os.path.abspath(__file__)))
sys.path.insert(0, ROOT)


def cell(s):
    return str(s).replace("|", "\\|").replace("\n", " ")


def table_b():
    import props
    out = ["| id | functions under contract (verified from the real source unless marked) | obligations generated = discharged | "
           "bounded evaluations | left to the bounded side / not decided | assumptions and bridges |", "|---|---|---|---|---|---|"]
    notes = []
    for pid in sorted(props.PROPS):
        P = props.PROPS[pid]
        ev = {}
        try:
            ev = json.load(open(os.path.join(ROOT, "evidence", pid + ".json")))
        except Exception:
            pass
        cov = ev.get("coverage", {})
        fns = []
        for f in cov.get("functions_under_contract", []):
            tag = "" if f.get("status") == "ok" else f" ({f.get('status')})"
            fns.append(f["name"].replace("numpoly.", "") + tag)
        statics = [s for s in P.get("statics", [])] if isinstance(P.get("statics"), (list, tuple)) else []
        obl = f"{cov.get('obligations', '?')} = {cov.get('discharged', '?')}"
        by = cov.get("discharged_by_backend")
        if by:
            obl += " (" + ", ".join(f"{k} {v}" for k, v in sorted(by.items())) + ")"
        bounded = cov.get("bounded", {}).get("evaluations", cov.get("evaluations", "?"))
        out.append(f"| {pid} | {cell(', '.join(fns))}{'; static: ' + cell(', '.join(getattr(x, '__name__', str(x)) for x in statics)) if statics else ''} | {obl} | {bounded} | "
                   f"{cell('; '.join(P.get('not_decided', [])))} | {cell('; '.join(dict.fromkeys(P.get('assumptions', []))))} |")
        notes.append(f"* **{pid}** — {P.get('explanation', '').strip()}")
    return "\n".join(out) + "\n\nWhat the discharged obligations say, per property (text of `props.PROPS[...]['explanation']`, also in each evidence file):\n\n" + "\n".join(notes)


def short(s, n=170):
    s = " ".join(str(s).split())
    return s if len(s) <= n else s[: n - 1].rsplit(" ", 1)[0] + " …"


def table_c():
    rows = ["| change | file(s) | what it breaks | reported by (quick tier) |", "|---|---|---|---|"]
    n = det = 0
    for d in sorted(glob.glob(os.path.join(ROOT, "seeded", "C*-*")), key=lambda p: (p.rsplit("/", 1)[1].split("-")[0], int(p.rsplit("-", 1)[1]))):
        mp = os.path.join(d, "meta.json")
        if not os.path.exists(mp):
            continue
        m = json.load(open(mp))
        name = os.path.basename(d)
        am = m.get("agent_meta", {})
        files = ", ".join(os.path.basename(f) for f in am.get("files_changed", [])) or "?"
        by = []
        for pid, c in sorted(m.get("checks", {}).items()):
            if c.get("exit") == 0 and not c.get("violations"):
                by.append(f"{pid}: silent")
                continue
            clauses, obls = [], []
            for line in c.get("detail", []):
                for x in re.findall(r"clause (C\d\d:[\w.\[\]=,\-]+)", line):
                    if x not in clauses:
                        clauses.append(x)
                for x in re.findall(r"obligations? (?:of the same function: )?(numpoly[^\s:,;]+)", line):
                    if x not in obls:
                        obls.append(x)
            nf = "no-failing-input-found" in c.get("first", "")
            part = f"**{pid}** exit {c.get('exit')}"
            if clauses:
                part += " bounded clause " + ", ".join(f"`{x.split(':', 1)[1]}`" for x in clauses[:2]) + (" …" if len(clauses) > 2 else "")
            if obls:
                part += (" obligation " if not nf else " obligation (no input) ") + ", ".join(f"`{x}`" for x in obls[:2]) + (" …" if len(obls) > 2 else "")
            und = c.get("undecided") or []
            if und:
                part += f" ({len(und)} undecided-by-proof)"
            by.append(part)
        n += 1
        det += bool(m.get("detected"))
        rows.append(f"| {name} | {cell(files)} | {cell(short(m.get('breaks') or am.get('what_it_breaks', '')))} | {cell('; '.join(by))}"
                    f"{'' if m.get('detected') else ' — **missed**'} |")
    head = f"{n} confirmed changes, {det} reported by at least one registered quick check at collection time (generated from seeded/*/meta.json).\n\n"
    return head + "\n".join(rows)


def main():
    path = os.path.join(ROOT, "DESIGN.md")
    s = open(path).read()
    for key, fn in (("table-B", table_b), ("table-C", table_c)):
        a, b = f"<!-- BEGIN:{key} -->", f"<!-- END:{key} -->"
        if a not in s or b not in s:
            print(f"marker {key} missing", file=sys.stderr)
            continue
        s = s[: s.index(a) + len(a)] + "\n" + fn() + "\n" + s[s.index(b):]
    open(path, "w").write(s)


def table_f():
    """Inventory of numpoly's public callables: under contract (verified from source), assumed contract, bounded only, none."""
    import props, re
    import subprocess
    code = ("import sys, json, inspect; sys.path.insert(0, '/repo'); import numpoly; "
            "print(json.dumps([n for n in sorted(dir(numpoly)) if not n.startswith('_') and (inspect.isfunction(getattr(numpoly, n)) or "
            "(callable(getattr(numpoly, n)) and getattr(getattr(numpoly, n), '__module__', '').startswith('numpoly')))]))")
    try:
        out = subprocess.run(["/venv/bin/python", "-c", code], capture_output=True, text=True, timeout=120).stdout.strip().splitlines()
        public = json.loads(out[-1]) if out else []
    except Exception:
        public = []
    if not public:
        old = open(os.path.join(ROOT, "DESIGN.md")).read()
        m = re.search(r"<!-- BEGIN:table-F -->\n(.*?)\n<!-- END:table-F -->", old, re.S)
        return m.group(1) if m else ""
    verified, assumed = {}, {}
    for n, c in props.ALL_CONTRACTS.items():
        try:
            k = sum(1 for _ in c.cases())
        except Exception:
            k = 0
        short = n.split(".")[-1]
        (verified if k > 0 else assumed).setdefault(short, []).append(n)
    used_in = {}
    for pid, P in props.PROPS.items():
        for n in P.get("contracts", []):
            used_in.setdefault(n.split(".")[-1], set()).add(pid)
    bounded = {}
    for path in glob.glob(os.path.join(ROOT, "conc", "checks_c*.py")):
        src = open(path).read()
        pid = "C" + re.search(r"checks_c(\d\d)", path).group(1)
        for fn in set(re.findall(r"numpoly\.([a-z_0-9]+)\b", src)) | set(re.findall(r"[\"']([a-z_][a-z_0-9]*)[\"']", src)):
            bounded.setdefault(fn, set()).add(pid)          # called as numpoly.f, or by name through getattr(numpoly, "f")
    rows = ["| function | status | properties whose check covers it |", "|---|---|---|"]
    cnt = {"verified": 0, "assumed": 0, "bounded": 0, "none": 0}
    for f in public:
        if f in verified:
            st, ps = "under contract, obligations discharged from the real source", sorted(used_in.get(f, set()) | bounded.get(f, set()))
            cnt["verified"] += 1
        elif f in assumed:
            st, ps = "ASSUMED contract (used at call sites, body not verified)", sorted(used_in.get(f, set()) | bounded.get(f, set()))
            cnt["assumed"] += 1
        elif f in bounded:
            st, ps = "bounded run-time checks only", sorted(bounded[f])
            cnt["bounded"] += 1
        else:
            st, ps = "not covered by any check", []
            cnt["none"] += 1
        rows.append(f"| {f} | {st} | {', '.join(ps)} |")
    methods = sorted(n for n in props.ALL_CONTRACTS if ".ndpoly." in n or n in ("numpoly.ndpoly", "numpoly.simple_dispatch", "numpoly._prod",
                                                                                  "numpoly.postprocess_attributes", "numpoly.get_division_candidate")
                     or n.count(".") == 2)
    head = (f"{len(public)} public callables of the `numpoly` namespace: {cnt['verified']} under contract with discharged obligations, "
            f"{cnt['assumed']} with an assumed contract only, {cnt['bounded']} covered by bounded run-time checks only, {cnt['none']} not covered. "
            f"Further functions under contract that are not in the public namespace (methods, helpers): {', '.join(m.replace('numpoly.', '') for m in methods)}.\n\n")
    return head + "\n".join(rows)


_old_main = main


def main():
    _old_main()
    path = os.path.join(ROOT, "DESIGN.md")
    s = open(path).read()
    a, b = "<!-- BEGIN:table-F -->", "<!-- END:table-F -->"
    if a in s and b in s:
        s = s[: s.index(a) + len(a)] + "\n" + table_f() + "\n" + s[s.index(b):]
        open(path, "w").write(s)


if __name__ == "__main__":
    main()
