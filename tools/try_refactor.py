#!/usr/bin/env python3
"""Run registered quick checks against a behaviour-preserving edit: nothing may be reported.
usage: tools/try_refactor.py <diff> <PROP>...   (scratch copy of /repo under /tmp, removed afterwards)"""
import os, shutil, subprocess, sys, tempfile
VERIF = os.path.dirname(os.path.dirname(os.path.abspath(__file__)))


def main():
    diff, props = sys.argv[1], sys.argv[2:]
    wt = tempfile.mkdtemp(prefix="refactor_", dir="/tmp")
    try:
        subprocess.run(f"rsync -a --exclude .git /repo/ {wt}/", shell=True, check=True)
        r = subprocess.run(f"patch -p1 -s < {diff}", shell=True, cwd=wt, capture_output=True, text=True)
        if r.returncode:
            print("patch does not apply:", r.stdout, r.stderr)
            return 2
        bad = 0
        for p in props:
            r = subprocess.run(f"NUMPOLY_REPO={wt} ./vcheck run {p} --tier quick", shell=True, cwd=VERIF, capture_output=True, text=True)
            lines = [l for l in (r.stdout + r.stderr).splitlines() if l.startswith(("VIOLATION", "UNDECIDED", "   ", "CHECKER")) or "exit" in l]
            status = "quiet" if r.returncode == 0 and not any(l.startswith("VIOLATION") for l in lines) else "ALARM"
            bad += status == "ALARM"
            print(f"{os.path.basename(os.path.dirname(diff))}/{os.path.basename(diff)} {p}: exit {r.returncode} {status}")
            for l in lines:
                if status == "ALARM" or l.startswith("UNDECIDED"):
                    print("    " + l[:260])
        return 1 if bad else 0
    finally:
        shutil.rmtree(wt, ignore_errors=True)


if __name__ == "__main__":
    sys.exit(main())
