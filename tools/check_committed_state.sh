#!/bin/bash
# Before committing in /verif: every evidence file must describe a run against /repo's HEAD (clean library files),
# the seeded changes and refactors must apply to it, and every "fix:" commit of /repo must be recorded in known_findings.txt.
cd "$(dirname "$0")/.." || exit 2
head=$(git -C /repo rev-parse --short HEAD)
bad=0
for f in evidence/C*.json; do
    c=$(jq -r '.coverage.checked_tree.commit // "none"' "$f")
    m=$(jq -r '.coverage.checked_tree.modified_files | length' "$f" 2>/dev/null || echo "?")
    u=$(jq -r '[.coverage.functions_under_contract[]? | select(.status != "ok")] | length' "$f")
    if [ "$c" != "$head" ] || [ "$m" != "0" ]; then echo "stale: $f describes commit $c ($m modified files), /repo is at $head"; bad=1; fi
    if [ "$u" != "0" ]; then echo "undecided by proof on the reference tree: $f ($u functions)"; bad=1; fi
done
for c in $(git -C /repo log --format=%h --grep='^fix:'); do
    grep -q "^fixed: property=C[0-9]* $c " known_findings.txt || { echo "fix commit $c of /repo is not recorded in known_findings.txt"; bad=1; }
done
bash tools/check_seeded_apply.sh | grep -v '^all seeded' && bad=1
[ $bad = 0 ] && echo "committed state is consistent with /repo $head"
exit $bad
