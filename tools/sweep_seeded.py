#!/usr/bin/env python3
"""Run the registered quick checks against every seeded change and record who catches what.

usage: tools/sweep_seeded.py [--only C05-1,C13-2] [--jobs 3]
For each seeded/<id>/patch.diff: scratch worktree of /repo under /tmp (removed afterwards), patch applied there,
`NUMPOLY_REPO=<worktree> ./vcheck run <P> -v` for the property the change targets and for the properties recorded in
its meta.json.  Writes seeded/MATRIX.json: per change and check the exit code, the number of VIOLATION lines, the
failed obligations (deductive side) and the failing bounded clauses (run-time side).
"""
import concurrent.futures as cf
import glob
import json
import os
import re
import shutil
import subprocess
import sys
import tempfile

VERIF = os.path.dirname(os.path.dirname(os.path.abspath(__file__)))


def sh(cmd, cwd=None, timeout=3600, env=None):
    p = subprocess.run(cmd, shell=True, cwd=cwd, capture_output=True, text=True, timeout=timeout, env=env)
    return p.returncode, p.stdout + p.stderr


def one(sid):
    d = os.path.join(VERIF, "seeded", sid)
    meta = json.load(open(os.path.join(d, "meta.json")))
    prop = sid.split("-")[0]
    props = [prop]
    ch = meta.get("checks")
    if isinstance(ch, str):
        try:
            ch = eval(ch)
        except Exception:
            ch = {}
    for p in (ch or {}):
        if p not in props:
            props.append(p)
    wt = tempfile.mkdtemp(prefix=f"sweep_{sid}_", dir="/tmp")
    os.rmdir(wt)
    out = {}
    try:
        rc, o = sh(f"git -C /repo worktree add -q --detach {wt} HEAD && cp /repo/numpoly/cfunctions/*.so {wt}/numpoly/cfunctions/ "
                   f"&& git -C {wt} apply {d}/patch.diff")
        if rc != 0:
            return sid, {"error": o[-400:]}
        for p in props:
            env = dict(os.environ, NUMPOLY_REPO=wt)
            rc, o = sh(f"./vcheck run {p} --tier quick -v", cwd=VERIF, env=env)
            viol = [l for l in o.splitlines() if l.startswith("VIOLATION")]
            obl = sorted(set(re.findall(r"(numpoly\.[^\s,;]+#[^\s,;]+|C\d\d\.[a-z_]+\.[^\s,;]+)", "\n".join(
                l for l in o.splitlines() if "obligation" in l and not l.startswith("KNOWN-FINDING")))))
            clauses = sorted(set(re.findall(r"run-time contract clause (\S+)", o)))
            undec = [l.split("function=")[1].split()[0] for l in o.splitlines() if l.startswith("UNDECIDED-BY-PROOF")]
            out[p] = dict(exit=rc, violations=len(viol), no_input=sum("no-failing-input-found" in v for v in viol),
                          failed_obligations=obl[:12], bounded_clauses=clauses[:8], unsupported=undec)
    finally:
        sh(f"git -C /repo worktree remove --force {wt}")
        shutil.rmtree(wt, ignore_errors=True)
    return sid, out


def main():
    ids = sorted(os.path.basename(os.path.dirname(p)) for p in glob.glob(os.path.join(VERIF, "seeded", "*", "patch.diff")))
    jobs = 3
    if "--only" in sys.argv:
        want = sys.argv[sys.argv.index("--only") + 1].split(",")
        ids = [i for i in ids if i in want]
    if "--jobs" in sys.argv:
        jobs = int(sys.argv[sys.argv.index("--jobs") + 1])
    path = os.path.join(VERIF, "seeded", "MATRIX.json")
    matrix = json.load(open(path)) if os.path.exists(path) else {}
    with cf.ThreadPoolExecutor(jobs) as ex:
        for sid, res in ex.map(one, ids):
            matrix[sid] = res
            det = any(isinstance(v, dict) and v.get("exit") == 1 and v.get("violations") for v in res.values())
            ded = sorted({o for v in res.values() if isinstance(v, dict) for o in v.get("failed_obligations", [])})
            print(f"{sid}: detected={det} " + " ".join(f"{p}:exit{v.get('exit')}/viol{v.get('violations')}" for p, v in res.items()
                                                          if isinstance(v, dict) and "exit" in v) + (f"  obligations: {ded[:3]}" if ded else ""), flush=True)
    json.dump(matrix, open(path, "w"), indent=1, sort_keys=True)
    return 0


if __name__ == "__main__":
    sys.exit(main())
