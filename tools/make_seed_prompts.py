#!/usr/bin/env python3
"""Prepare a round of independent seeded changes: one scratch worktree of /repo and one prompt file per property.

usage: tools/make_seed_prompts.py <dir under /tmp> C02 C10 ...
For every property id: `git -C /repo worktree add --detach <dir>/<P>`, the compiled helpers copied in, <dir>/<P>/seeded/ created,
and <dir>/<P>.prompt written: the property's statement and quantifier (nothing else from /verif), the task (two realistic, small,
test-passing changes that break it, each with change<k>.diff / demo<k>.py / meta<k>.json), and one line per change of earlier rounds
so that the new ones differ.  Start one fresh sub-agent per property with
    "Read the file <dir>/<P>.prompt and carry out the task it describes exactly. ..."
then keep each result with tools/collect_seed.py <P> <k> --src <dir>/<P>/seeded --as <next number> --props <P>,<others>, and remove
the worktrees (git -C /repo worktree remove --force <dir>/<P>).
"""
import glob
import json
import os
import subprocess
import sys

VERIF = os.path.dirname(os.path.dirname(os.path.abspath(__file__)))

TEMPLATE = """You are helping test a verification effort for the Python library jonathf/numpoly (polynomial arrays on numpy structured arrays). You work ONLY inside your own scratch git worktree of the library at {wt} (a detached checkout of the current source; the compiled .so helpers are already copied in). Do NOT touch /repo or /verif, and do not read anything under /verif. Do NOT use `git stash` (the stash is shared by all worktrees of the repository and other agents work in parallel): save a change with `git -C {wt} diff > file`, return to the pristine tree with `git -C {wt} checkout -- .`, re-apply with `git -C {wt} apply file`.

Here is a semantic property that the library is supposed to satisfy:

--- PROPERTY {pid}: {title} ---
{statement}
Quantifier: {quantifier}
--- end of property ---

Your task: produce TWO different, independent changes to the library source (under {wt}/numpoly/, Python files only) each of which BREAKS this property while the library still imports, and the existing test suite still passes. Each change must be realistic (the kind of slip or "optimisation" a maintainer could plausibly make: a wrong default, a dropped copy, an off-by-one, a swapped argument, a missing case, caching, an early return, reuse of a buffer, ...), small (a few lines), and must need something SPECIFIC to manifest - an unusual input, a particular option setting, a multi-step sequence of operations, a particular dtype/shape/size, or two cooperating sites that each look fine alone - NOT something ordinary use or the existing tests would expose at once. The two changes should touch different functions/mechanisms.

For each change k in (1, 2), each diff being against the pristine tree:
  1. write the change as a unified diff to {wt}/seeded/change<k>.diff (`git -C {wt} diff > seeded/change<k>.diff`; it must apply with `git apply` to the pristine tree);
  2. write a demonstration {wt}/seeded/demo<k>.py: a small self-contained program (imports numpoly/numpy only, no pytest) that exits 0 on the pristine tree and exits non-zero (failed assert) with the change applied. It is run with the worktree root as working directory and first on sys.path, so `import numpoly` picks up the worktree's package. The demonstration must check the PROPERTY (compare against an independent oracle such as plain numpy / exact arithmetic / the statement itself), not an implementation detail;
  3. confirm the existing suite still passes with the change: `cd {wt} && /venv/bin/python -m pytest -q -p no:cacheprovider --timeout=900 -q -rf 2>&1 | tail -30` - run it once on the pristine tree first and keep the list of failing test ids (about 209 pass and a dozen fail: pre-existing, unrelated failures); with your change exactly the same tests must still pass;
  4. write {wt}/seeded/meta<k>.json with keys: property ("{pid}"), files_changed, what_it_breaks (2-4 sentences), needs_to_manifest (what specific input/sequence/setting is needed), why_tests_miss_it.
Finally restore the worktree to the pristine state (git -C {wt} checkout -- . ; leave the seeded/ directory in place).
{earlier}
Use `cd {wt} && /venv/bin/python ...` to run things (python is /venv/bin/python; numpy 2.x). Run demos from the worktree root, e.g. `cd {wt} && cp seeded/demo1.py _demo.py && /venv/bin/python _demo.py; echo $?` and delete _demo.py afterwards. Every shell command prints a harmless first line starting with "WARNING conda" - ignore it.

Be creative and subtle; prefer changes deep in helper functions that the property depends on over changes to the obvious top-level function. Report back briefly: for each change the file, the idea, and the exit codes you observed for the demo without/with the change and the test-suite counts."""


def main():
    base, pids = sys.argv[1], sys.argv[2:]
    assert base.startswith("/tmp/"), "scratch worktrees live under /tmp"
    os.makedirs(base, exist_ok=True)
    props = {json.loads(l)["id"]: json.loads(l) for l in open(os.path.join(VERIF, "properties.jsonl"))}
    for pid in pids:
        d = props[pid]
        wt = os.path.join(base, pid)
        subprocess.run(f"git -C /repo worktree add -q --detach {wt} HEAD && cp /repo/numpoly/cfunctions/*.so {wt}/numpoly/cfunctions/ && mkdir -p {wt}/seeded",
                       shell=True, check=True)
        prev = []
        for m in sorted(glob.glob(os.path.join(VERIF, "seeded", f"{pid}-*", "meta.json"))):
            j = json.load(open(m))
            am = j.get("agent_meta", {})
            what = " ".join((j.get("breaks") or am.get("what_it_breaks") or "").split())
            files = ", ".join(os.path.basename(f) for f in am.get("files_changed", []))
            prev.append(f"  - [{files}] {what[:230]}")
        earlier = ("\nChanges of this kind were ALREADY produced in earlier rounds - do something different (another function, another "
                   "mechanism, another trigger):\n" + "\n".join(prev) + "\n") if prev else ""
        text = TEMPLATE.format(wt=wt, pid=pid, title=d["title"], statement=d["statement"], quantifier=d["quantifier"]["text"], earlier=earlier)
        open(os.path.join(base, f"{pid}.prompt"), "w").write(text)
        print(pid, wt, len(prev), "earlier changes listed")


if __name__ == "__main__":
    main()
