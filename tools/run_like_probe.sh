#!/bin/bash
# Runs every registered quick command the way the acceptance run does: offline environment, VERIF_SEED=1 VERIF_TIER=quick,
# MANIFEST.setup_cmd first, each evidence file removed before its check; prints one line per check and fails on any
# non-zero exit, VIOLATION line or missing evidence file.
cd "$(dirname "$0")/.." || exit 2
export CARGO_NET_OFFLINE=true GOPROXY=off PIP_NO_INDEX=1 VERIF_SEED=${VERIF_SEED:-1} VERIF_TIER=quick
bash -c "$(jq -r .setup_cmd MANIFEST.json)" || { echo "setup_cmd failed"; exit 2; }
bad=0
mkdir -p /tmp/scratch/probe
for id in $(jq -r '.checks[].property_id' MANIFEST.json); do
    cmd=$(jq -r --arg id "$id" '.checks[] | select(.property_id == $id) | .quick_cmd' MANIFEST.json)
    ev=$(jq -r --arg id "$id" '.checks[] | select(.property_id == $id) | .evidence_file' MANIFEST.json)
    rm -f "$ev"
    bash -c "$cmd" > /tmp/scratch/probe/$id.log 2>&1
    rc=$?
    v=$(grep -c '^VIOLATION' /tmp/scratch/probe/$id.log)
    u=$(grep -c '^UNDECIDED' /tmp/scratch/probe/$id.log)
    [ -s "$ev" ] && e=written || e=MISSING
    echo "$id exit=$rc violations=$v undecided=$u evidence=$e :: $(grep "^$id:" /tmp/scratch/probe/$id.log | cut -c1-150)"
    if [ $rc != 0 ] || [ $v != 0 ] || [ $u != 0 ] || [ $e != written ]; then bad=1; fi
done
exit $bad
