#!/bin/bash
# every seeded change (and every harmless refactor) must still apply to /repo's HEAD: run after each commit in /repo
cd /repo || exit 2
bad=0
for f in /verif/seeded/C*-*/patch.diff /verif/harmless/R*/change*.diff; do
    git apply --check "$f" 2>/dev/null || { echo "does not apply: $f"; bad=1; }
done
[ $bad = 0 ] && echo "all seeded patches and refactors apply to $(git log --oneline | head -1)"
exit $bad
