#!/usr/bin/env python3
"""Developer loop: generate and discharge the obligations of the named contracts.
usage: python3-vt tools/try_contract.py [--repo DIR] [--timeout MS] [--all] <contract name>...
prints every obligation that is not discharged (or all with --all)."""
import os
import sys
HERE = os.path.dirname(os.path.dirname(os.path.abspath(__file__)))
sys.path.insert(0, HERE)


def main():
    args = sys.argv[1:]
    repo, tmo, show_all, serial, dump = None, 20000, False, False, None
    names = []
    while args:
        a = args.pop(0)
        if a == "--repo":
            repo = args.pop(0)
        elif a == "--timeout":
            tmo = int(args.pop(0))
        elif a == "--all":
            show_all = True
        elif a == "--serial":
            serial = True
        elif a == "--dump":
            dump = args.pop(0)
        else:
            names.append(a)
    if repo:
        os.environ["NUMPOLY_REPO"] = repo
    from props import ALL_CONTRACTS, build_registry
    from engine.prover import prove
    if serial:
        # in-process generation: tracebacks of the generator are visible
        from engine.contract import verify
        reg = build_registry()
        for n in names:
            rep = verify(ALL_CONTRACTS[n], reg, repo)
            print(n, rep.status, rep.reason, "paths", rep.paths, "obligations", len(rep.obligations))
        return 0
    reg = build_registry()
    reports, results, secs = prove([ALL_CONTRACTS[n] for n in names], reg, repo, timeout_ms=tmo)
    for r in reports:
        print(f"{r.name}: status={r.status} {r.reason} cases={r.cases} paths={r.paths} obligations={r.n_obligations} gen={r.gen_s}s")
    bad = 0
    if dump:
        k = 0
        for d in results:
            if dump in d["oid"] and (d["verdict"] != "discharged" or d.get("z3") != "unsat"):
                k += 1
                open(f"/tmp/scratch/dump{k}.smt2", "w").write(d["smt2"])
                print("dumped", d["oid"], f"/tmp/scratch/dump{k}.smt2")
    for d in results:
        if d["verdict"] != "discharged":
            bad += 1
        if show_all or d["verdict"] != "discharged":
            print(f"  {d['verdict']:10s} {d['oid']}  (z3={d.get('z3')} {d.get('z3_s')}s cvc5={d.get('cvc5', '-')}) line {d.get('lineno')} {d.get('note', '')[:100]}")
    print(f"{len(results) - bad}/{len(results)} discharged in {secs}s")
    return 1 if bad else 0


if __name__ == "__main__":
    sys.exit(main())
