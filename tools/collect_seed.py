#!/usr/bin/env python3
"""Confirm and keep a seeded change produced by an independent sub-agent.

usage: tools/collect_seed.py <PROP> <k> [--props P1,P2] [--src DIR] [--as NEWK] [--overwrite]
       (reads <src or /tmp/wt/<PROP>/seeded>/{change,demo,meta}<k>.*; stores as seeded/<PROP>-<NEWK or k>)

Steps (all in a scratch worktree of /repo under /tmp, removed afterwards; /repo itself is only patched
for the duration of the check run and restored with `git checkout -- .`):
  1. the patch applies to the current /repo HEAD;
  2. the demonstration passes without the change and fails with it;
  3. the repository's stable baseline tests still pass with the change;
  4. run the registered quick check(s) against the change and record what they report.
Result: /verif/seeded/<PROP>-<k>/{patch.diff, demo.py, meta.json}.
"""
import json
import os
import shutil
import subprocess
import sys
import tempfile

VERIF = os.path.dirname(os.path.dirname(os.path.abspath(__file__)))


def sh(cmd, cwd=None, timeout=1800):
    p = subprocess.run(cmd, shell=True, cwd=cwd, capture_output=True, text=True, timeout=timeout)
    return p.returncode, (p.stdout + p.stderr)


def main():
    prop, k = sys.argv[1], sys.argv[2]
    props = [prop]
    if "--props" in sys.argv:
        props = sys.argv[sys.argv.index("--props") + 1].split(",")
    src = f"/tmp/wt/{prop}/seeded"
    if "--src" in sys.argv:
        src = sys.argv[sys.argv.index("--src") + 1]
    newk = sys.argv[sys.argv.index("--as") + 1] if "--as" in sys.argv else k
    patch, demo, meta = f"{src}/change{k}.diff", f"{src}/demo{k}.py", f"{src}/meta{k}.json"
    info = json.load(open(meta)) if os.path.exists(meta) else {}
    wt = tempfile.mkdtemp(prefix="seedchk_", dir="/tmp")
    os.rmdir(wt)
    rec = dict(property=prop, source=f"independent sub-agent, worktree /tmp/wt/{prop}", agent_meta=info)
    try:
        rc, out = sh(f"git -C /repo worktree add -q --detach {wt} HEAD && cp /repo/numpoly/cfunctions/*.so {wt}/numpoly/cfunctions/")
        assert rc == 0, out
        shutil.copy(demo, f"{wt}/_demo.py")
        rc0, out0 = sh("/venv/bin/python _demo.py", cwd=wt, timeout=600)
        rca, outa = sh(f"git apply {patch}", cwd=wt)
        rec["patch_applies"] = rca == 0
        if rca != 0:
            rec["error"] = outa[-500:]
            print(json.dumps(rec, indent=1))
            return 2
        rc1, out1 = sh("/venv/bin/python _demo.py", cwd=wt, timeout=600)
        rec["demo_exit_without_change"], rec["demo_exit_with_change"] = rc0, rc1
        rcb, outb = sh(f"python3 {VERIF}/tools/baseline.py {wt}", timeout=1800)
        rec["baseline_with_change"] = outb.strip().splitlines()[-1] if outb.strip() else ""
        rec["baseline_ok"] = rcb == 0
        confirmed = rec["demo_exit_without_change"] == 0 and rec["demo_exit_with_change"] != 0 and rec["baseline_ok"]
        rec["confirmed"] = confirmed
        # 4. our checks against the patched tree (scratch worktree via NUMPOLY_REPO, so /repo stays usable meanwhile;
        #    equivalent to `git -C /repo apply patch; ./vcheck run P; git -C /repo checkout -- .`)
        det = {}
        # the checks run from a private copy of /verif, so that editing /verif meanwhile cannot disturb them
        snap = tempfile.mkdtemp(prefix="seedchk_verif_", dir="/tmp")
        sh(f"rsync -a --exclude .git --exclude replays --exclude evidence_scratch --exclude __pycache__ {VERIF}/ {snap}/")
        for p in props:
            rcc, outc = sh(f"NUMPOLY_REPO={wt} ./vcheck run {p} --tier quick", cwd=snap, timeout=3600)
            outc = outc.replace(snap, VERIF)
            viol = [l for l in outc.splitlines() if l.startswith("VIOLATION")]
            det[p] = dict(exit=rcc, violations=len(viol), first=(viol[0] if viol else ""),
                          detail=[l.strip() for l in outc.splitlines() if l.startswith("   ")][:4],
                          undecided=[l for l in outc.splitlines() if l.startswith("UNDECIDED")][:3])
    finally:
        if "snap" in locals():
            shutil.rmtree(snap, ignore_errors=True)
        sh(f"git -C /repo worktree remove --force {wt}")
        shutil.rmtree(wt, ignore_errors=True)
    rec["checks"] = det
    rec["detected"] = any(d["exit"] == 1 and d["violations"] for d in det.values())
    rec["what_was_run"] = [f"git -C /repo apply patch.diff; ./vcheck run {p} --tier quick; git -C /repo checkout -- ." for p in props]
    dst = os.path.join(VERIF, "seeded", f"{prop}-{newk}")
    if os.path.exists(dst) and "--overwrite" not in sys.argv:
        print(f"{dst} exists; use --as <k> or --overwrite")
        return 2
    os.makedirs(dst, exist_ok=True)
    shutil.copy(patch, f"{dst}/patch.diff")
    shutil.copy(demo, f"{dst}/demo.py")
    rec["breaks"] = info.get("what_it_breaks", "")
    rec["needs_to_manifest"] = info.get("needs_to_manifest", "")
    json.dump(rec, open(f"{dst}/meta.json", "w"), indent=1)
    print(f"{prop}-{newk}: confirmed={confirmed} detected={rec['detected']} " +
          " ".join(f"{p}:exit{d['exit']}/viol{d['violations']}" for p, d in det.items()))
    return 0


if __name__ == "__main__":
    sys.exit(main())
