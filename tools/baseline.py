#!/usr/bin/env python3
"""Run the repository's pinned test suite (guard off) and compare with BASELINE.json's stable_pass.
usage: tools/baseline.py [repo_dir]   exit 0 iff every stable_pass test passes."""
import json, os, subprocess, sys, tempfile, xml.etree.ElementTree as ET
repo = sys.argv[1] if len(sys.argv) > 1 else "/repo"
base = json.load(open("/root/.vp/BASELINE.json"))
with tempfile.TemporaryDirectory() as td:
    x = os.path.join(td, "j.xml")
    env = dict(os.environ)
    env.pop("NUMPOLY_VERIF", None)
    p = subprocess.run(["/venv/bin/python", "-m", "pytest", "-ra", "-q", "-p", "no:cacheprovider", "--timeout=900",
                        "--continue-on-collection-errors", f"--junitxml={x}"], cwd=repo, env=env,
                       capture_output=True, text=True)
    passed = set()
    for tc in ET.parse(x).getroot().iter("testcase"):
        if not any(c.tag in ("failure", "error", "skipped") for c in tc):
            passed.add(f"{tc.get('classname')}::{tc.get('name')}")
missing = [t for t in base["stable_pass"] if t not in passed]
print(f"passed={len(passed)} stable_pass={len(base['stable_pass'])} missing={len(missing)}")
for m in missing:
    print("  MISSING", m)
sys.exit(1 if missing else 0)
