"""C16 run-time contracts: the text of str(p) / repr(p), read back as ordinary arithmetic over the indeterminates by a
small independent parser, denotes exactly p (for every display option, coefficient type and shape); the display_graded /
display_reverse / display_inverse options only permute the printed terms, which follow the selected monomial order;
to_sympy(p) converted back with polynomial(...) equals p for 0-d int/float polynomials.
Oracle: the exact model of the JSON spec (model.spec_model); numpoly is only asked for the text.

Order rule checked (from `_to_string`: indices = glexsort(exponents, graded=display_graded, reverse=display_reverse),
reversed when display_inverse): the monomials of the printed terms of one element, left to right, are strictly
ascending under model.mono_key(m, p.names, display_graded, display_reverse) when display_inverse is False and strictly
descending when display_inverse is True (the default)."""
from __future__ import annotations
import itertools
import re
import warnings
from fractions import Fraction
import numpy
from .common import check
from .gen import rand_poly, nested, count
from .model import MPoly, build, spec_model, from_ndpoly, same, describe, mono_key
from .wf import double_through_a_view

NAMES = tuple(f"q{i}" for i in range(13))
SHAPES = [(), (1,), (2,), (3,), (1, 1), (2, 2), (1, 3), (2, 1, 2), (1, 2, 2)]
POOLS = {"int64": [-12, -3, -2, -1, -1, 0, 1, 1, 2, 3, 10], "bool": [True, True, False],
         "float64": [-2.5, -1.0, -0.5, 0.0, 0.5, 1.0, 1.5, 0.1, 1e-10, -1e+20, 123456.789, -0.001,
                     # next to +-1 / 0 without being it: the coefficient may be dropped from the text only when it IS 1 or -1
                     1.000001, -0.9999999, 1 - 2.0 ** -53, -1 - 2.0 ** -52, 1 + 1e-9, 5e-324],
         "complex128": [-2.0, -1.0, -0.5, 0.0, 1.0, 1.5, 1e-9, 1 + 1e-9]}          # real and imaginary parts drawn independently
SIGNS = [("**", "*"), ("^", "·"), ("^", " ")]
FLAGS = list(itertools.product((False, True), repeat=3))


def poly_spec(rng, shape, dtype, maxterms=4, size0=None):
    names = sorted(rng.sample(NAMES, rng.choice([1, 1, 2, 2, 3])), key=lambda n: int(n[1:]))
    maxterms = min(maxterms, 4 ** len(names))       # rand_poly draws exponents from 4 values per indeterminate
    s = rand_poly(rng, shape=shape, names=names, maxterms=maxterms, maxexp=rng.choice([3, 3, 11]), dtype=dtype, pool=POOLS[dtype])
    if dtype == "complex128":
        s["im"] = [nested(rng, tuple(shape), POOLS[dtype] + [2.0, -1.0]) for _ in s["exponents"]]
    if size0:
        s["coefficients"], s["shape"] = [[] for _ in s["exponents"]], list(size0)
        s.pop("im", None)
    return s


def decode(js):
    s = dict(js)
    dt = numpy.dtype(js.get("dtype", "int64"))
    cs = [numpy.array(c, dtype=dt) for c in js["coefficients"]]
    if "im" in js:
        cs = [(c + 1j * numpy.array(i, dtype=float)).astype(dt) for c, i in zip(cs, js["im"])]
    if "shape" in js:
        cs = [c.reshape(js["shape"]) for c in cs]
    s["coefficients"] = cs
    return s


def options(o):
    return dict(display_graded=o["graded"], display_reverse=o["reverse"], display_inverse=o["inverse"],
                display_exponent=o["exponent"], display_multiply=o["multiply"])


# ------------------------------------------------------------------ independent reader of the printed text
class ParseError(Exception):
    pass


NUMBER = re.compile(r"(\d+\.\d*|\.\d+|\d+)([eE][+-]?\d+)?j?")
NAME = re.compile(r"[A-Za-z_]\w*")


def tokenize(text, mul, exp, ws_separates):
    """Tokens (kind, value).  White space is multiplication when the multiply sign is blank, an element separator inside
    brackets when `ws_separates` (str() of an array prints no commas), and insignificant otherwise."""
    toks, i = [], 0
    signs = sorted([(exp, "EXP"), (mul, "MUL")], key=lambda t: -len(t[0]))
    while i < len(text):
        ch = text[i]
        if ch.isspace():
            j = i
            while j < len(text) and text[j].isspace():
                j += 1
            toks.append(("WS", text[i:j]))
            i = j
            continue
        for sign, kind in signs:
            if sign.strip() and text.startswith(sign, i):
                toks.append((kind, sign))
                i += len(sign)
                break
        else:
            m = NUMBER.match(text, i)
            if m:
                toks.append(("NUM", m.group(0)))
                i = m.end()
            elif NAME.match(text, i):
                m = NAME.match(text, i)
                toks.append(("NAME", m.group(0)))
                i = m.end()
            elif ch in "+-()[],":
                toks.append((ch, ch))
                i += 1
            else:
                raise ParseError(f"unexpected character {ch!r} at position {i}")
    out = []
    for k, (kind, val) in enumerate(toks):
        if kind != "WS":
            out.append((kind, val))
            continue
        prev = toks[k - 1][0] if k else None
        nxt = toks[k + 1][0] if k + 1 < len(toks) else None
        if not mul.strip():
            if prev in ("NUM", "NAME", ")") and nxt in ("NUM", "NAME", "("):
                out.append(("MUL", mul))
        elif ws_separates and prev not in (None, "[", ",") and nxt not in (None, "]", ","):
            out.append((",", ","))
    return out


class Reader:
    def __init__(self, toks, names):
        self.toks, self.pos, self.names = toks, 0, set(names)

    def peek(self):
        return self.toks[self.pos][0] if self.pos < len(self.toks) else None

    def take(self, kind=None):
        if self.pos >= len(self.toks) or (kind and self.toks[self.pos][0] != kind):
            raise ParseError(f"expected {kind or 'a token'} at token {self.pos}: {self.toks[self.pos:self.pos + 4]}")
        self.pos += 1
        return self.toks[self.pos - 1][1]

    def value(self):
        """array | expression  ->  nested lists of [signed terms as MPoly]"""
        if self.peek() != "[":
            return self.expr()
        self.take("[")
        items = []
        while self.peek() != "]":
            items.append(self.value())
            if self.peek() == ",":
                self.take(",")
            elif self.peek() != "]":
                raise ParseError(f"expected ',' or ']' at token {self.pos}: {self.toks[self.pos:self.pos + 4]}")
        self.take("]")
        return items

    def expr(self):
        terms = []
        sign = 1
        if self.peek() in ("+", "-"):
            sign = -1 if self.take() == "-" else 1
        while True:
            t = self.term()
            terms.append(-t if sign < 0 else t)
            if self.peek() not in ("+", "-"):
                return tuple(terms)
            sign = -1 if self.take() == "-" else 1

    def term(self):
        v = self.factor()
        while self.peek() == "MUL":
            self.take()
            v = v * self.factor()
        return v

    def factor(self):
        if self.peek() in ("+", "-"):
            return -self.factor() if self.take() == "-" else self.factor()
        kind = self.peek()
        if kind == "NUM":
            t = self.take()
            v = MPoly.const(complex(0, float(t[:-1])) if t.endswith("j") else Fraction(int(t)) if t.isdigit() else Fraction(float(t)))
        elif kind == "NAME":
            t = self.take()
            if t in ("True", "False"):
                v = MPoly.const(t == "True")
            elif t in self.names:
                v = MPoly.var(t)
            else:
                raise ParseError(f"unknown identifier {t!r}")
        elif kind == "(":
            self.take("(")
            v = MPoly()
            for t in self.expr():
                v = v + t
            self.take(")")
        else:
            raise ParseError(f"expected a number, name or '(' at token {self.pos}: {self.toks[self.pos:self.pos + 4]}")
        if self.peek() == "EXP":
            self.take()
            k = self.take("NUM")
            if not k.isdigit():
                raise ParseError(f"exponent {k!r} is not a natural number")
            v = v ** int(k)
        return v


def read(text, names, mul, exp, is_repr):
    """-> (shape, flat list of term tuples in row-major order)"""
    body = text
    if is_repr:
        m = re.fullmatch(r"polynomial\((.*?)(, dtype=\w+)?\)", text, re.S)
        if not m:
            raise ParseError("repr is not of the form polynomial(...)")
        body = m.group(1)
    toks = tokenize(body.strip(), mul, exp, ws_separates=not is_repr)
    rd = Reader(toks, names)
    tree = rd.value()
    if rd.pos != len(toks):
        raise ParseError(f"text continues after a complete expression, at token {rd.pos}: {toks[rd.pos:rd.pos + 4]}")

    def shape_of(t):
        if isinstance(t, tuple):
            return ()
        subs = {shape_of(x) for x in t}
        if len(subs) > 1:
            raise ParseError("ragged nesting of brackets")
        return (len(t),) + (subs.pop() if subs else ())

    def flat(t):
        return [t] if isinstance(t, tuple) else [e for x in t for e in flat(x)]
    return shape_of(tree), flat(tree)


def printed(p, is_repr, o):
    import numpoly
    with numpoly.global_options(**options(o)), warnings.catch_warnings():
        warnings.simplefilter("ignore")
        return repr(p) if is_repr else str(p)


def ambiguous(o, shape, is_repr):
    """str() of an array separates elements by blanks: with a blank multiply sign the text has no unique reading."""
    return not o["multiply"].strip() and not is_repr and len(shape) > 0


# ------------------------------------------------------------------ denotation
def gen_denote(tier, rng, dtypes=("int64", "float64", "complex128", "bool"), maxterms=4):
    for g, r, i in FLAGS:
        for exp, mul in SIGNS:
            o = {"graded": g, "reverse": r, "inverse": i, "exponent": exp, "multiply": mul}
            for dtype in dtypes:
                shapes = SHAPES if tier == "thorough" else [()] + rng.sample(SHAPES[1:], 2)
                for shape in shapes:
                    for _ in range(count(tier, 1, 6)):
                        yield {"poly": poly_spec(rng, shape, dtype, maxterms=rng.choice([1, 2, maxterms, maxterms])), "options": o}


def denote_check(inp):
    import numpoly
    before = numpoly.get_options()
    spec, o = decode(inp["poly"]), inp["options"]
    p, model = build(spec), spec_model(decode(inp["poly"]))
    for is_repr in (False, True):
        what = "repr" if is_repr else "str"
        if ambiguous(o, p.shape, is_repr):
            continue
        try:
            text = printed(p, is_repr, o)
        except Exception as e:
            return f"{what}(p) raised {type(e).__name__}: {str(e)[:150]}"
        try:
            shape, elems = read(text, p.names, o["multiply"], o["exponent"], is_repr)
        except ParseError as e:
            return f"{what}(p) = {text!r:.300} is not readable as arithmetic over {tuple(p.names)}: {e}"
        if shape != tuple(p.shape):
            return f"{what}(p) = {text!r:.200} has bracket shape {shape}, array shape {tuple(p.shape)}"
        got = numpy.empty(len(elems), dtype=object)
        for k, terms in enumerate(elems):
            got[k] = sum(terms, MPoly())
        got = got.reshape(p.shape)
        if not same(got, model):
            return f"{what}(p) = {text!r:.300} denotes {describe(got)}, p is {describe(model)}"
    if numpoly.get_options() != before:
        return "global options not restored"
    # the text denotes the polynomial the array holds NOW: double every coefficient in place through a view of the same memory
    # (after str and repr have both been produced once) and read the text again
    if spec["dtype"] != "bool" and p.size:
        double_through_a_view(p)
        doubled = numpy.empty(model.size, dtype=object)
        for k, m in enumerate(model.reshape(-1)):
            doubled[k] = m + m
        doubled = doubled.reshape(model.shape)
        for is_repr in (True, False):
            what = "repr" if is_repr else "str"
            if ambiguous(o, p.shape, is_repr):
                continue
            try:
                text = printed(p, is_repr, o)
                shape, elems = read(text, p.names, o["multiply"], o["exponent"], is_repr)
            except Exception as e:      # noqa: BLE001
                return f"{what}(p) after an in-place update: {type(e).__name__}: {str(e)[:150]}"
            got = numpy.empty(len(elems), dtype=object)
            for k, terms in enumerate(elems):
                got[k] = sum(terms, MPoly())
            if shape != tuple(p.shape) or not same(got.reshape(p.shape), doubled):
                return (f"after every coefficient was doubled in place through the view p.T, {what}(p) = {text!r:.300} still denotes "
                        f"{describe(got.reshape(shape) if shape == tuple(p.shape) else got)}; the array now holds {describe(doubled)}")
    return None


check("C16", "str_repr.denotes", gen_denote, functions=("numpoly.array_str", "numpoly.array_repr", "numpoly.ndpoly.__str__", "numpoly.ndpoly.__repr__"),
      note="bounded: all 8 display_graded/reverse/inverse settings x signs ('**','*'), ('^','·'), ('^',' '); int64 (incl. negative), "
           "float64 (incl. 1e-10, -1e+20, 0.1), complex128 (every sign combination of real/imaginary part, zeros), bool; 9 shapes of 0-3 "
           "dimensions, 1-4 terms, <=3 names from q0..q12, exponents <=11; str and repr (str of an array with the blank multiply sign is "
           "skipped: no unique reading); text parsed by an independent reader and compared with the exact model; then every "
           "coefficient is doubled in place through the view p.T and both texts are read again (they denote what the array holds now)")(denote_check)


# ------------------------------------------------------------------ order of the printed terms
def gen_order(tier, rng):
    for inp in gen_denote(tier, rng, dtypes=("int64", "float64"), maxterms=6 if tier == "thorough" else 4):
        if len(inp["poly"]["exponents"]) >= 2:
            yield inp
    for g, r, i in FLAGS:               # a fixed dense case: every monomial of degree <=2 in q1,q10 (6 terms) and of degree <=3 in q3
        o = {"graded": g, "reverse": r, "inverse": i, "exponent": "**", "multiply": "*"}
        yield {"poly": {"names": ["q1", "q10"], "exponents": [[0, 0], [1, 0], [0, 1], [2, 0], [1, 1], [0, 2]],
                        "coefficients": [1, 2, 3, 4, 5, 6], "dtype": "int64"}, "options": o}
        yield {"poly": {"names": ["q3"], "exponents": [[0], [1], [2], [3]], "coefficients": [[1, 0], [2, 1], [3, 0], [4, 1]],
                        "dtype": "int64"}, "options": o}


@check("C16", "str_repr.term_order", gen_order, functions=("numpoly.array_str", "numpoly.array_repr", "numpoly.glexsort"),
       note="bounded: int64/float64 inputs of str_repr.denotes with >=2 terms (<=4 quick, <=6 thorough) plus two dense fixed cases, all 8 "
            "flag settings; rule: monomials of the printed terms of each element strictly ascending in model.mono_key(m, p.names, "
            "display_graded, display_reverse) when display_inverse is False, strictly descending when it is True")
def order_check(inp):
    spec, o = decode(inp["poly"]), inp["options"]
    p = build(spec)
    names = tuple(p.names)
    for is_repr in (False, True):
        what = "repr" if is_repr else "str"
        if ambiguous(o, p.shape, is_repr):
            continue
        try:
            text = printed(p, is_repr, o)
            _, elems = read(text, names, o["multiply"], o["exponent"], is_repr)
        except ParseError as e:
            return f"{what}(p) is not readable: {e}"
        except Exception as e:
            return f"{what}(p) raised {type(e).__name__}: {str(e)[:150]}"
        for k, terms in enumerate(elems):
            monos = []
            for t in terms:
                if len(t.t) > 1:
                    return f"{what}(p) = {text!r:.200}: a printed term of element {k} is not a single monomial: {t!r}"
                monos.extend(t.t)
            keys = [mono_key(m, names, o["graded"], o["reverse"]) for m in monos]
            want = sorted(keys, reverse=o["inverse"])
            if keys != want or len(set(keys)) != len(keys):
                return (f"{what}(p) = {text!r:.200}: element {k} prints monomials {monos} with keys {keys}; "
                        f"{'descending' if o['inverse'] else 'ascending'} order is {want}")
    return None


# ------------------------------------------------------------------ size-0 arrays
def gen_size0(tier, rng):
    for shape in [(0,), (0, 3), (2, 0), (2, 0, 2)]:
        for dtype in ("int64", "float64"):
            yield {"poly": poly_spec(rng, (), dtype, maxterms=2, size0=shape),
                   "options": {"graded": True, "reverse": False, "inverse": True, "exponent": "**", "multiply": "*"}}


@check("C16", "str_repr.size0", gen_size0, functions=("numpoly.array_str", "numpoly.array_repr"),
       note="bounded: shapes (0,), (0,3), (2,0), (2,0,2), default options; str/repr must not raise and must read as an array without elements")
def size0_check(inp):
    spec, o = decode(inp["poly"]), inp["options"]
    p = build(spec)
    if tuple(p.shape) != tuple(spec["coefficients"][0].shape):
        return f"input construction: from_attributes gives shape {tuple(p.shape)} for coefficient shape {spec['coefficients'][0].shape}"
    for is_repr in (False, True):
        what = "repr" if is_repr else "str"
        try:
            text = printed(p, is_repr, o)
            shape, elems = read(text, p.names, o["multiply"], o["exponent"], is_repr)
        except ParseError as e:
            return f"{what}(p) of shape {tuple(p.shape)} = {text!r:.200} is not readable: {e}"
        except Exception as e:
            return f"{what}(p) of shape {tuple(p.shape)} raised {type(e).__name__}: {str(e)[:150]}"
        if elems or 0 not in shape:
            return f"{what}(p) of shape {tuple(p.shape)} = {text!r:.200} reads as an array with elements (shape {shape})"
    return None


# ------------------------------------------------------------------ sympy export
def gen_sympy(tier, rng):
    for g, r, i in (FLAGS if tier == "thorough" else [(True, False, True)] + rng.sample(FLAGS, 3)):
        o = {"graded": g, "reverse": r, "inverse": i, "exponent": "**", "multiply": "*"}
        for dtype in ("int64", "float64"):
            for _ in range(count(tier, 8, 60)):
                s = rand_poly(rng, shape=(), maxterms=rng.choice([1, 2, 4]), dtype=dtype, names_pool=NAMES,
                              pool=[-12, -3, -1, 0, 1, 2, 10] if dtype == "int64" else [-2.5, -1.0, -0.5, 0.0, 0.5, 1.0, 1.5, 0.125, 1024.0])
                yield {"poly": s, "options": o}
        # integer coefficients that no float64 holds exactly (a detour through floating point would change them)
        for _ in range(count(tier, 4, 30)):
            s = rand_poly(rng, shape=(), maxterms=rng.choice([1, 2, 3]), dtype="int64", names_pool=NAMES,
                          pool=[2 ** 53 + 1, -(2 ** 53) - 1, 2 ** 62 + 3, 9007199254740993, -1, 1, 7])
            yield {"poly": s, "options": o}


@check("C16", "to_sympy.roundtrip", gen_sympy, functions=("numpoly.to_sympy", "numpoly.polynomial"),
       note="bounded: 0-d polynomials, int64 (incl. values beyond 2**53 that float64 cannot hold) and float64 (dyadic values, exact in any binary precision) coefficients, 1-4 terms, <=3 names "
            "from q0..q12, exponents<=3; default exponent/multiply signs, the 8 order-flag settings; polynomial(to_sympy(p)) must denote p")
def sympy_check(inp):
    import numpoly
    spec, o = decode(inp["poly"]), inp["options"]
    p, model = build(spec), spec_model(decode(inp["poly"]))
    with numpoly.global_options(**options(o)), warnings.catch_warnings():
        warnings.simplefilter("ignore")
        try:
            expr = numpoly.to_sympy(p)
        except Exception as e:
            return f"to_sympy(p) raised {type(e).__name__}: {str(e)[:150]} for p = {model[()]!r}"
        try:
            back = numpoly.polynomial(expr)
        except Exception as e:
            return f"polynomial(to_sympy(p)) raised {type(e).__name__}: {str(e)[:150]} for sympy expression {expr!r}"
    if not isinstance(back, numpoly.ndpoly) or back.shape != ():
        return f"polynomial(to_sympy(p)) is {type(back).__name__} of shape {getattr(back, 'shape', None)}"
    try:
        got = from_ndpoly(back)
    except TypeError as e:
        return f"polynomial(to_sympy(p)) has coefficients of dtype {back.dtype} that are not plain numbers: {e}"
    if not same(got, model):
        return f"polynomial(to_sympy(p)) denotes {got[()]!r}, p is {model[()]!r} (sympy expression {expr!r})"
    return None
