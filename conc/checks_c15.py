"""C15 run-time contracts: no option setting changes the mathematical value, shape or dtype of a
result, nor makes an operation fail (results compared with the exact model AND with the result
under default options)."""
from __future__ import annotations
import itertools
import pickle
import numpy
from .common import check
from .gen import rand_poly, count
from .model import operand, operand_model, from_ndpoly, same, obj_map, describe, MPoly
from .wf import wf, install_poison

BOOL_OPTS = ["retain_names", "retain_coefficients", "sort_graded", "sort_reverse", "display_graded", "display_reverse",
             "display_inverse", "force_number_suffix"]

OPS = ["construct", "add", "sub_self", "mul", "pow", "derivative", "gradient", "call_num", "call_partial", "call_staged",
       "call_staged_none", "hessian", "divmod", "divmod_quotient", "divmod_remainder", "derivative2", "derivative_positions", "construct_mixed_dtypes", "getitem",
       "align", "pickle", "sum", "concatenate", "where", "astype", "isconstant_tonumpy", "equal", "clean",
       "call_cancelled_mixed_dtypes", "constant_from_unsorted_terms", "construct_unnamed_unused_column", "derivative_positions_stored_order"]
# ordering-based functions: the sort options legitimately decide their result, every OTHER option must not
ORDER_OPS = ["argmax", "argmin", "amax", "amin", "sortable_proxy", "lead_exponent", "lead_coefficient", "maximum", "greater", "sort_like"]


def gen(tier, rng):
    n = count(tier, 250, 3000)
    for _ in range(n):
        opts = {k: rng.random() < 0.5 for k in BOOL_OPTS}
        if rng.random() < 0.3:
            opts["display_exponent"] = rng.choice(["^", "**"])
            opts["display_multiply"] = rng.choice([" ", "*"])
        op = rng.choice(OPS + ORDER_OPS)
        if op == "call_cancelled_mixed_dtypes":
            opts["retain_names"] = True          # (the cancelled indeterminate must stay a legal keyword in both runs)
        if op.startswith("divmod"):
            # C15's quantifier: division is checked under the default retain options only
            opts["retain_names"], opts["retain_coefficients"] = True, False
        a = rand_poly(rng, shape=rng.choice([(), (2,), (2, 2)]), pool=[-1, 0, 0, 1, 2], maxterms=3)
        if op == "derivative_positions_stored_order":
            a = rand_poly(rng, shape=rng.choice([(), (2,)]), pool=[-1, 1, 2, 3], maxterms=3, names=rng.choice([["q0", "q1"], ["q0", "q1", "q2"], ["q1", "q10"]]))
        if op in ("derivative", "derivative2", "derivative_positions", "gradient", "hessian", "derivative_positions_stored_order") \
                and len(a["names"]) > 1 and rng.random() < (0.9 if op == "derivative_positions_stored_order" else 0.4):
            # the same polynomial with its indeterminates stored in non-numeric order (names and exponent columns permuted together)
            perm = list(range(len(a["names"])))
            while perm == sorted(perm):
                rng.shuffle(perm)
            a["names"] = [a["names"][k] for k in perm]
            a["exponents"] = [[row[k] for k in perm] for row in a["exponents"]]
        yield {"op": op, "opts": opts, "a": a,
               "b": rand_poly(rng, shape=rng.choice([(), (2,)]), pool=[-1, 0, 1], maxterms=2)}
    # successive positional derivatives of polynomials whose names are stored in non-numeric order, names not retained
    for _ in range(count(tier, 12, 100)):
        names = rng.choice([["q1", "q0"], ["q2", "q0", "q1"], ["q10", "q1"], ["q1", "q2", "q0"]])
        a = rand_poly(rng, shape=rng.choice([(), (2,)]), pool=[-1, 1, 2, 3], maxterms=3, names=sorted(names, key=lambda n: int(n[1:])))
        perm = [a["names"].index(n) for n in names]
        a["names"], a["exponents"] = names, [[row[k] for k in perm] for row in a["exponents"]]
        opts = {k: rng.random() < 0.5 for k in BOOL_OPTS}
        opts["retain_names"] = False
        yield {"op": "derivative_positions_stored_order", "opts": opts, "a": a, "b": rand_poly(rng, shape=(), pool=[1], maxterms=1)}


def run_op(op, a, b, numpoly):
    if op == "construct":
        return numpoly.polynomial(a)
    if op == "add":
        return a + b
    if op == "sub_self":
        return (a + b) - b
    if op == "mul":
        return a * b
    if op == "pow":
        return a ** 2
    if op == "derivative":
        return numpoly.derivative(a, a.names[-1])
    if op == "gradient":
        return numpoly.gradient(a)
    if op == "call_num":
        return a(*[2] * len(a.names))
    if op == "call_partial":
        return a(**{a.names[0]: b})
    if op == "call_staged":
        # fix the first indeterminate, then supply the others positionally (placeholders keep their position)
        D = len(a.names)
        first = a(2)
        if D == 1 or not isinstance(first, numpoly.ndpoly):      # a constant result is a plain array
            return first
        return first(*([None] + [3] * (D - 1)))
    if op == "call_staged_none":
        D = len(a.names)
        if D == 1:
            same = a(None)
            return same(4) if isinstance(same, numpoly.ndpoly) else same
        second = a(*([None] * (D - 1) + [3]))
        if not isinstance(second, numpoly.ndpoly):
            return second
        return second(*([2] * (D - 1) + [None]))
    if op == "hessian":
        return numpoly.hessian(a)
    if op == "divmod":
        q, r = numpoly.poly_divmod(a * b + 1, b + 2)
        return q * (b + 2) + r
    if op in ("divmod_quotient", "divmod_remainder"):
        # quotient and remainder themselves (not only the identity) must not depend on the sort/display options
        x0 = numpoly.variable(2)[0]
        q, r = numpoly.poly_divmod(a * a + a * b + b * b + 3, a + b + x0)
        return q if op == "divmod_quotient" else r
    if op == "derivative2":
        # two successive variables, designated by name; only indeterminates that really occur (an option-independent
        # set: which names a polynomial carries beyond those legitimately depends on retain_names)
        p = a * b * b + a
        used = [n for n, col in zip(p.names, numpy.asarray(p.exponents).T)
                if any(e and numpy.any(c) for e, c in zip(col, p.coefficients))]
        return numpoly.derivative(p, *(used[:1] + used[-1:]))
    if op == "derivative_positions":
        # every indeterminate q0, q1, q2 occurs, so positions mean the same variable under every option setting;
        # the first derivative eliminates q0 from some terms, the positions must still refer to the original tuple
        x = numpoly.variable(3)
        p = a * b + 2 * x[0] + x[0] * x[1] ** 3 * x[2] + 5 * x[1] ** 2 * x[2] ** 2
        return numpoly.derivative(p, 0, 1)
    if op == "derivative_positions_stored_order":
        # positions count in the stored name tuple of the argument (kept by the constructor: every name retained), also when that
        # tuple is not in numeric order and an earlier step has removed an indeterminate from the intermediate result
        D = len(a.names)
        return numpoly.derivative(a, 0, 0) + 3 * numpoly.derivative(a, D - 1, 0) + 7 * numpoly.derivative(a, 0, D - 1, 0)
    if op == "construct_mixed_dtypes":
        # coefficient arrays of different dtypes in one call, an all-zero integer term first: whether that term is pruned
        # (retain_coefficients) must not decide the dtype, let alone the values, of the result
        shape = a.shape
        zero = numpy.zeros(shape, dtype="int64")
        half = numpy.full(shape, 1.5)
        return numpoly.polynomial_from_attributes([[1], [0], [2]], [zero, half, numpy.ones(shape, dtype="int64")])
    if op == "getitem":
        return a[..., None][..., 0]
    if op == "align":
        return numpoly.align_polynomials(a, b)[0]
    if op == "pickle":
        return pickle.loads(pickle.dumps(a))
    if op == "sum":
        return numpoly.sum(a)
    if op == "concatenate":
        return numpoly.concatenate([a.ravel(), b.ravel()])
    if op == "where":
        return numpoly.where(numpy.zeros(a.shape, dtype=bool), a, a * 2)
    if op == "astype":
        return a.astype(float)
    if op == "isconstant_tonumpy":
        c = a * 0 + 3
        return c.tonumpy() if c.isconstant() else None
    if op == "equal":
        return a == a
    if op == "clean":
        return numpoly.clean_attributes(a)
    if op == "call_cancelled_mixed_dtypes":
        # an indeterminate that survives only in a cancelled (all-zero) term, evaluated with a float for exactly that one: whether
        # the zero term is stored (retain_coefficients) must not decide the dtype of the value
        x = numpoly.variable(2)
        p = 3 * x[0] ** 2 + x[1] - x[1] + (a.ravel()[:1] * 0)[0]
        return p(**{"q0": numpy.array([1, 2, 3]), "q1": 0.5})
    if op == "construct_unnamed_unused_column":
        # no names given, a column that no term uses: the indeterminates that remain must keep their number
        return numpoly.polynomial({(1, 0, 2): 3, (0, 0, 1): 1}) + numpoly.polynomial_from_attributes([(0, 2)], [a.coefficients[0]])
    if op == "constant_from_unsorted_terms":
        # a constant given with its (all-zero) higher terms first: where the constant term is stored must not matter
        c = numpoly.polynomial({(2,): [0, 0], (1,): [0, 0], (0,): [4, 2]})
        return (numpoly.variable(1) + 1) ** c[1] + numpoly.polynomial(c.tonumpy())
    if op in ORDER_OPS:
        # an array whose elements differ in more than one monomial, so that the monomial order matters
        x = numpoly.variable(3)
        arr = numpoly.concatenate([(a.ravel() + x[0] * x[1] ** 2)[:1], (b.ravel() + x[0] ** 2 * x[1])[:1],
                                   (a.ravel() * 0 + x[1] ** 3 + x[2])[:1], (b.ravel() * 0 + x[0] * x[2] ** 2)[:1]])
        if op in ("argmax", "argmin", "amax", "amin", "sortable_proxy", "lead_exponent", "lead_coefficient"):
            return getattr(numpoly, op)(arr)
        if op == "maximum":
            return numpoly.maximum(arr, arr[::-1])
        if op == "greater":
            return numpoly.greater(arr, arr[::-1])
        return arr[numpy.argsort(numpoly.sortable_proxy(arr))]
    raise KeyError(op)


def as_model(r, numpoly):
    if isinstance(r, numpoly.ndpoly):
        return from_ndpoly(r)
    a = numpy.asarray(r)
    out = numpy.empty(a.shape, dtype=object)
    for idx in numpy.ndindex(*a.shape):
        out[idx] = MPoly.const(a[idx])
    return out


@check("C15", "options.do_not_change_results", gen,
       functions=("numpoly.polynomial_from_attributes", "numpoly.clean_attributes", "numpoly.postprocess_attributes"),
       note="bounded: 29 representative operations (construct, combine, differentiate, evaluate, index, align, (un)pickle ...) "
            "under random settings of the 8 boolean options and 2 display strings; oracle = same operation under default options; "
            "plus 10 ordering-based functions (argmax, amax, sortable_proxy, lead_*, maximum, > ...) whose oracle is the same call "
            "with the same SORT and RETAIN options and every other option at its default")
def options_invariance(inp):
    import numpoly
    install_poison()
    defaults = numpoly.get_options(defaults=True)
    if inp["op"] in ORDER_OPS:
        # the sort options decide the order, the retain options which indeterminates (hence how many exponent columns) there
        # are: both are taken over into the reference run; what must not matter is every display option and the name suffix
        defaults = dict(defaults, **{k: inp["opts"][k] for k in ("sort_graded", "sort_reverse", "retain_names", "retain_coefficients")})
    with numpoly.global_options(**defaults):
        a0, b0 = operand({"poly": inp["a"]}), operand({"poly": inp["b"]})
        try:
            ref = run_op(inp["op"], a0, b0, numpoly)
        except Exception as e:
            return None if inp["op"] in () else f"operation fails under DEFAULT options: {type(e).__name__}: {e}"
        refm = None if ref is None else as_model(ref, numpoly)
    with numpoly.global_options(**inp["opts"]):
        a, b = operand({"poly": inp["a"]}), operand({"poly": inp["b"]})
        try:
            r = run_op(inp["op"], a, b, numpoly)
        except Exception as e:
            return f"fails under options {inp['opts']}: {type(e).__name__}: {e}"
        if (r is None) != (ref is None):
            return "constant-ness differs from the default-options run"
        if r is None:
            return None
        m = as_model(r, numpoly)
        if isinstance(r, numpoly.ndpoly):
            w = wf(r)
            if w:
                return w
    if m.shape != refm.shape:
        return f"shape {m.shape} under {inp['opts']}, {refm.shape} under defaults"
    if not same(m, refm):
        return f"value {describe(m)} under {inp['opts']}, {describe(refm)} under defaults"
    d1 = getattr(r, "dtype", None)
    d0 = getattr(ref, "dtype", None)
    if d1 != d0:
        return f"dtype {d1} under {inp['opts']}, {d0} under defaults"
    return None
