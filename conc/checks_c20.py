"""C20 run-time contracts (exhaustive finite part + bounded stand-ins): monomials are never confused,
whatever the exponent size.  Oracle: the exact sparse-polynomial model and plain integer arithmetic on exponents.
Rule used throughout: when every exponent involved (operands and exact result) is below ACCEPT = 55 000 the
operation must succeed and be exact; otherwise it may raise, but whatever it returns must still be exact."""
from __future__ import annotations
import io
import operator
import os
import pathlib
import pickle
import tempfile
from fractions import Fraction
import warnings
import numpy
from .common import check, Timeout
from .gen import count
from .model import MPoly, from_ndpoly, same, describe
from .wf import wf, denotes, install_poison

ACCEPT = 55000
KEY_OFFSET = 59
BOUNDARY = sorted({0, 1, 68, 69, 196, 197, 255, 256, 54999, 55000, *range(55236, 55301), 0xD7FF - 59, 0xD800 - 59, 0xDFFF - 59,
                   0xE000 - 59, 65535, 65536, 0x10FFFF - 59, 0x10FFFF - 58, 2 ** 31, 2 ** 32 - 60, 2 ** 32 - 59, 2 ** 32 - 1,
                   127 - 59, 128 - 59, 2047 - 59, 2048 - 59, 65535 - 59, 65536 - 59, 2 ** 31 - 59, 2 ** 31 - 60, 2 ** 32 - 58,
                   2 ** 32 - 2})
BEYOND = [2 ** 32, 2 ** 32 + 1, 2 ** 32 + 43, 2 ** 32 + 58, 2 ** 32 + 59, 2 ** 33, 2 ** 40 + 7, 2 ** 63 - 1, 2 ** 64 - 1, 2 ** 64 + 3]
SWEEP_END = 0x110000 + 64


def decode(name, D=1):
    """Exponent row stored in a field name (independent of numpoly's own decoding)."""
    cps = [ord(ch) for ch in name] + [0] * (D - len(name))
    return tuple((cp - KEY_OFFSET) % 2 ** 32 for cp in cps)


def mono_poly(exps, coefs, names=None, dtype="int64"):
    """Polynomial with the given exponent rows and scalar coefficients, built directly (no multiplication)."""
    import numpoly
    rows = [list(e) if isinstance(e, (list, tuple)) else [e] for e in exps]
    names = tuple(names or [f"q{i}" for i in range(len(rows[0]))])
    return numpoly.polynomial_from_attributes(rows, [numpy.array(c, dtype=dtype) for c in coefs], names, allocation=len(rows),
                                              retain_coefficients=True, retain_names=True)


# ------------------------------------------------------------------ single exponent sweep
def mapping(E, C):
    return {int(e): int(c) for e, c in zip(numpy.asarray(E).reshape(-1), C)}


def diff(stage, got, want):
    if got == want:
        return None
    lost = sorted(set(want) - set(got))[:3]
    extra = sorted(set(got) - set(want))[:3]
    moved = [(e, want[e], got[e]) for e in sorted(set(want) & set(got)) if want[e] != got[e]][:3]
    return f"{stage}: exponents {lost} came back as {extra}; coefficients moved (exponent, expected, got): {moved}"


def stage_new(exps):
    """ndpoly(exponents=...) -> .exponents and the field names of the raw buffer."""
    import numpoly
    K = len(exps)
    p = numpoly.ndpoly(exponents=[[e] for e in exps], shape=(), names=("q0",), allocation=K)
    got = [int(v) for v in p.exponents.reshape(-1)]
    if got != list(exps):
        return f"ndpoly(exponents=...).exponents: (asked, stored) {[(e, g) for e, g in zip(exps, got) if e != g][:3]}, {len(got)} rows for {K}"
    raw = [decode(k)[0] for k in numpy.ndarray.view(p, numpy.ndarray).dtype.names]
    if raw != list(exps):
        return "ndpoly(...) field names decode to other exponents (asked, stored): " + str([(e, g) for e, g in zip(exps, raw) if e != g][:3])
    return None


def stage_attrs(exps):
    """polynomial_from_attributes -> public attributes and raw structured view."""
    want = {e: i + 1 for i, e in enumerate(exps)}
    q = mono_poly(exps, list(range(1, len(exps) + 1)))
    s = q.values
    return (diff("polynomial_from_attributes", mapping(q.exponents, q.coefficients), want)
            or diff("raw structured view", {decode(k)[0]: int(s[k]) for k in s.dtype.names}, want))


def stage_back(exps):
    import numpoly
    q = mono_poly(exps, list(range(1, len(exps) + 1)))
    r = numpoly.polynomial(q.values, names=q.names)
    return diff("polynomial(structured array)", mapping(r.exponents, r.coefficients), {e: i + 1 for i, e in enumerate(exps)})


def stage_pickle(exps):
    K, want = len(exps), {e: i + 1 for i, e in enumerate(exps)}
    t = pickle.loads(pickle.dumps(mono_poly(exps, list(range(1, K + 1)))))
    tv = t.values
    return (diff("pickle round trip", mapping(t.exponents, t.coefficients), want)
            or diff("pickle round trip (raw view)", {decode(k)[0]: int(tv[k]) for k in tv.dtype.names[:K]}, want))


STAGES = [stage_new, stage_attrs, stage_back, stage_pickle]


def sweep(exps, stages=STAGES):
    """Every stage on all exponents as distinct rows of one 0-d polynomial; bisect around exceptions."""
    for stage in stages:
        try:
            msg = stage(exps)
        except Timeout:
            raise
        except Exception as e:
            if len(exps) == 1:
                msg = None if exps[0] >= ACCEPT else f"exponent {exps[0]} (< {ACCEPT}) rejected by {stage.__name__}: {type(e).__name__}: {e}"
            else:
                mid = len(exps) // 2
                msg = sweep(exps[:mid], [stage]) or sweep(exps[mid:], [stage])
        if msg:
            return msg
    return None


def gen_sweep(tier, rng):
    yield {"values": BOUNDARY, "single": True}
    yield {"values": BOUNDARY, "single": False}
    if tier == "thorough":
        for lo in range(0, SWEEP_END, 4096):
            yield {"range": [lo, min(lo + 4096, SWEEP_END), 1], "single": False}
        yield {"values": sorted(rng.sample(range(0, 2 ** 32), 3000)), "single": False}
        yield {"values": sorted(rng.sample(range(0, ACCEPT), 500)), "single": True}
    else:
        off = rng.randrange(13)
        for lo in range(0, SWEEP_END, 13 * 4096):
            yield {"range": [lo + off, min(lo + 13 * 4096, SWEEP_END), 13], "single": False}
        yield {"range": [0, 1300, 1], "single": False}
        yield {"values": sorted(rng.sample(range(0, 2 ** 32), 300)), "single": False}
        yield {"values": sorted(rng.sample(range(0, ACCEPT), 60)), "single": True}


@check("C20", "codec.single_exponent_sweep", gen_sweep,
       functions=("numpoly.ndpoly.__new__", "numpoly.ndpoly.exponents", "numpoly.ndpoly.values", "numpoly.ndpoly.coefficients",
                  "numpoly.polynomial_from_attributes", "numpoly.polynomial", "numpoly.ndpoly.__reduce__"),
       note="exhaustive (thorough): every exponent 0..0x110040 as distinct rows of one polynomial in chunks of 4096 (bisecting to single "
            "values around failures), plus 3000 random values below 2**32, the boundary list (0,1,68,69,196,197,255,256,54999,55000,"
            "55236..55300, surrogate and 0x10FFFF edges, 65535/6, 2**31, 2**32-60..2**32-1) also one at a time, and 500 random values "
            "< 55000 one at a time; quick: stride-13 sample of the same range with random offset, 0..1299, boundaries, 300+60 random; "
            "ndpoly(exponents) -> .exponents -> field names -> polynomial_from_attributes -> .values -> polynomial(struct) -> pickle: "
            "error (allowed from 55000 on) or the very same exponent with its own coefficient")
def exponent_sweep(inp):
    install_poison()
    exps = list(inp["values"]) if "values" in inp else list(range(*inp["range"]))
    if inp["single"]:
        for e in exps:
            msg = sweep([e])
            if msg:
                return msg
        return None
    return sweep(exps)


def gen_beyond(tier, rng):
    for e in BEYOND + [2 ** 32 + rng.randrange(2 ** 20) for _ in range(count(tier, 5, 50))]:
        for route in ("ndpoly", "attrs", "attrs_two_rows", "attrs_array", "dict"):
            yield {"e": e, "route": route}


@check("C20", "codec.beyond_uint32_rejected", gen_beyond, functions=("numpoly.ndpoly.__new__", "numpoly.polynomial_from_attributes", "numpoly.polynomial"),
       note="bounded: 10 fixed and 5 (50) random exponents >= 2**32, which no 32-bit key can hold, through 5 construction routes; "
            "must raise - if a polynomial is returned it must still carry exactly that exponent")
def beyond_uint32(inp):
    import numpoly
    install_poison()
    e, route = inp["e"], inp["route"]
    try:
        if route == "ndpoly":
            r = numpoly.ndpoly(exponents=[[e]], shape=())
        elif route == "attrs":
            r = numpoly.polynomial_from_attributes([[e]], [7], ("q0",))
        elif route == "attrs_two_rows":
            r = numpoly.polynomial_from_attributes([[0], [e]], [1, 7], ("q0",))
        elif route == "attrs_array":
            r = numpoly.polynomial_from_attributes(numpy.array([[e]], dtype=object if e >= 2 ** 64 else "uint64"), [7], ("q0",))
        else:
            r = numpoly.polynomial({(e,): 7})
    except Timeout:
        raise
    except Exception:
        return None
    got = sorted(int(v) for v in numpy.asarray(r.exponents).reshape(-1))
    return None if e in got else f"exponent {e} was accepted and stored as {got} (field names {numpy.ndarray.view(r, numpy.ndarray).dtype.names})"


# ------------------------------------------------------------------ products and powers of monomials
def expect_mono(r, exps, coef, names, what):
    """r is the 0-d polynomial coef * prod names**exps (exact)."""
    import numpoly
    if (isinstance(r, numpoly.ndpoly) and r.shape == () and coef and any(exps) and len(r.keys) == 1 and tuple(r.names) == tuple(names)
            and r.exponents.tolist() == [list(exps)] and r.coefficients[0] == coef
            and decode(numpy.ndarray.view(r, numpy.ndarray).dtype.names[0], len(names)) == tuple(exps)):
        return None         # fast path: one stored term, identical in the public attributes and in the raw buffer
    want = numpy.empty((), dtype=object)
    want[()] = MPoly({MPoly.mono(names, exps): Fraction(coef)}) if coef else MPoly()
    return wf(r, what) or denotes(r, want, what)


def guarded(fn, biggest, what):
    """Run fn; an exception is a finding only when every exponent involved is below ACCEPT."""
    try:
        return fn()
    except Timeout:
        raise
    except Exception as e:
        return None if biggest >= ACCEPT else f"{what}: {type(e).__name__}: {e}"


def gen_small_products(tier, rng):
    edge = [0, 1, 2, 9, 10, 34, 35, 68, 69, 70, 127 - 59, 128 - 59, 137, 138, 196, 197, 198, 255, 256, 300, 541, 599, 600]
    for a in (range(0, 601) if tier == "thorough" else sorted(set(edge + rng.sample(range(601), 12)))):
        step = 1 if tier == "thorough" or a in (0, 1, 68, 69) else 7
        yield {"a": a, "b": [rng.randrange(step), 601 - a, step], "c": rng.choice([1, 2, -3, 5]), "d": rng.choice([1, -1, 3, 4]),
               "array": tier != "thorough" or a % 8 == 0 or a in edge}


@check("C20", "multiply.monomial_products_sum_le_600", gen_small_products, functions=("numpoly.multiply", "numpoly.cmultiply", "numpoly.clean_attributes"),
       note="exhaustive (thorough): all (a, b) with a+b <= 600, one input per a; (c*q0**a)*(d*q0**b) as 0-d monomials built directly, "
            "operand order alternating with b, plus for every 8th a and 23 boundary a the product with the array [d*q0**b for all b]; quick: 35 values of a incl. "
            "68/69/137/138/196/197/255/256 with every 7th b (every b for a in {0,1,68,69}); no exception allowed")
def small_products(inp):
    import numpoly
    install_poison()
    a, c, d = inp["a"], inp["c"], inp["d"]
    bs = list(range(*inp["b"]))
    x = mono_poly([a], [c])
    for b in bs:
        y = mono_poly([b], [d])
        what = f"({c}*q0**{a})*({d}*q0**{b})"
        r = guarded(lambda: x * y if b % 2 else numpoly.multiply(y, x), 0, what)
        msg = r if r is None or isinstance(r, str) else expect_mono(r, [a + b], c * d, ["q0"], what)
        if msg:
            return msg
    if not bs or not inp["array"]:
        return None
    ys = numpoly.polynomial_from_attributes([[b] for b in bs], list(d * numpy.eye(len(bs), dtype="int64")), ("q0",))
    what = f"({c}*q0**{a}) * [{d}*q0**b for b in range{tuple(inp['b'])}]"
    r = guarded(lambda: x * ys, 0, what)
    if r is None or isinstance(r, str):
        return r
    E, C = r.exponents.reshape(-1).astype(object), numpy.array(r.coefficients)
    W = (E[:, None] == numpy.array([a + b for b in bs], dtype=object)[None, :]) * (c * d)
    raw = numpy.ndarray.view(r, numpy.ndarray)
    if (r.shape == (len(bs),) and tuple(r.names) == ("q0",) and C.shape == W.shape and numpy.array_equal(C, W) and W.any(0).all()
            and [decode(k)[0] for k in raw.dtype.names[:len(E)]] == list(E) and all(numpy.array_equal(raw[k], C[t]) for t, k in enumerate(r.keys))):
        return None         # fast path (vectorised): element i holds exactly c*d*q0**(a+b_i), same in the raw buffer
    want = numpy.empty((len(bs),), dtype=object)
    for i, b in enumerate(bs):
        want[i] = MPoly({(("q0", a + b),): Fraction(c * d)} if a + b else {(): Fraction(c * d)})
    return wf(r, "array product") or denotes(r, want, what) or "array product: fast and full comparison disagree"


def gen_large_products(tier, rng):
    hot = [ACCEPT - 1, 27618, 27619, 32738, 32768, 65535 - 59, 196, 197, 68, 69, 0, 1]
    for i in range(count(tier, 250, 3000)):
        D = rng.choice([1, 1, 2, 3])
        pick = lambda: rng.choice(hot) if rng.random() < 0.15 else rng.randrange(ACCEPT)
        yield {"a": [pick() for _ in range(D)], "b": [pick() for _ in range(D)], "c": rng.choice([1, 2, -3]), "d": rng.choice([1, -1, 4]),
               "dtype": rng.choice(["int64", "int64", "float64"])}


@check("C20", "multiply.monomial_products_below_55000", gen_large_products, functions=("numpoly.multiply", "numpoly.cmultiply", "numpoly.align_indeterminants"),
       note="bounded: random exponent rows a, b < 55000 per indeterminate (1-3 indeterminates, 15% boundary values), monomials built "
            "directly; product must be c*d*q**(a+b); an exception is accepted only when some a_i+b_i >= 55000")
def large_products(inp):
    install_poison()
    a, b, c, d = inp["a"], inp["b"], inp["c"], inp["d"]
    names = [f"q{i}" for i in range(len(a))]
    x, y = mono_poly([a], [c], names, inp["dtype"]), mono_poly([b], [d], names, inp["dtype"])
    tot = [u + v for u, v in zip(a, b)]
    what = f"({c}*q**{a})*({d}*q**{b})"
    r = guarded(lambda: x * y, max(tot), what)
    return r if r is None or isinstance(r, str) else expect_mono(r, tot, c * d, names, what)


def gen_powers(tier, rng):
    for k in ([0, 1, 2, 3, 5, 10, 68, 69, 70, 137, 197, 256] + (list(range(4, 400, 9)) if tier == "thorough" else [rng.randrange(4, 300)])):
        yield {"a": [1], "k": k, "c": 1}
    for _ in range(count(tier, 60, 600)):
        D = rng.choice([1, 2])
        k = rng.choice([2, 2, 3, 4, 5])
        yield {"a": [rng.choice([rng.randrange(0, 700 // k), rng.randrange(0, ACCEPT // k), rng.randrange(ACCEPT)]) for _ in range(D)],
               "k": k, "c": rng.choice([1, -1, 2])}
    # a*k at or just beyond 2**32: 32-bit exponent arithmetic would wrap back into the accepted range
    for a, k in [(1048576, 4096), (65537, 65536), (100000, 42950), (65536, 65536), (2 ** 20, 2 ** 12 + 1)]:
        yield {"a": [a], "k": k, "c": 1}
    for _ in range(count(tier, 10, 100)):
        a = rng.randrange(2 ** 12, 10 ** 6)
        k = -(-2 ** 32 // a) + rng.randrange(0, 3)
        # (one indeterminate: the constructor rejects the first exponent above the unicode range, so the power fails after a few
        #  multiplications; with a second column numpy accepts such keys and the loop would run k times before 2**32 is reached)
        yield {"a": [a], "k": k, "c": 1}


@check("C20", "power.monomial_powers", gen_powers, functions=("numpoly.power", "numpoly.multiply"),
       note="bounded: q0**k for 12 boundary k and every 9th k < 400 (quick: one random k); (c*q**a)**k for k in 2..5 with a*k spread over "
            "< 700, < 55000 and beyond, and 15 (105) pairs with a*k at or just above 2**32; exact c**k*q**(a*k); exception accepted only when "
            "some a_i*k >= 55000")
def powers(inp):
    install_poison()
    a, k, c = inp["a"], inp["k"], inp["c"]
    names = [f"q{i}" for i in range(len(a))]
    x = mono_poly([a], [c], names)
    what = f"({c}*q**{a})**{k}"
    r = guarded(lambda: x ** k, max(a) * max(k, 1), what)
    return r if r is None or isinstance(r, str) else expect_mono(r, [e * k for e in a], c ** k, names, what)


# ------------------------------------------------------------------ random large exponent tuples through the listed operations
OPS = ["add", "sub", "mul", "align_exponents", "align_polynomials", "derivative", "call_full", "call_partial", "pickle", "raw_and_back",
       "construct_dict", "getitem", "equal"]


def rand_terms(rng, D, tuples, n):
    rows = rng.sample(tuples, n)
    return {"exponents": rows, "coefficients": [rng.choice([-2, -1, 1, 2, 3]) for _ in rows]}


def gen_ops(tier, rng):
    for _ in range(count(tier, 400, 5000)):
        D = rng.choice([1, 2, 3])
        top = rng.choice([300, 1000, ACCEPT, 10 ** 5])
        op, var = rng.choice(OPS), rng.randrange(D)
        # partial evaluation raises the remaining indeterminates to their exponents by repeated multiplication: keep those small
        tops = [top if op != "call_partial" or i == var else 40 for i in range(D)]
        tuples = [[rng.choice([0, 1, rng.randrange(t), rng.randrange(t)]) for t in tops] for _ in range(5)]
        tuples = [list(t) for t in sorted({tuple(t) for t in tuples})]
        n = len(tuples)
        yield {"D": D, "op": op, "x": rand_terms(rng, D, tuples, rng.randint(1, min(3, n))),
               "y": rand_terms(rng, D, tuples, rng.randint(1, min(3, n))), "var": var,
               "args": [rng.choice([1, -1, 0, 1, -1]) for _ in range(D)]}


def gen_ops_all(tier, rng):
    yield from gen_ops(tier, rng)
    yield from gen_ops_collisions(tier, rng)
    # products of multi-term operands whose large exponent sits in a NON-leading indeterminate (q1, q2), q0 exponents small
    for _ in range(count(tier, 250, 4000)):
        D = rng.choice([2, 2, 3])
        k = rng.randrange(1, D)
        big = lambda: rng.choice([rng.randrange(256, 325), rng.randrange(256, 325), rng.randrange(69, 401), rng.choice([69, 127, 128, 196, 197, 255, 256, 324, 325, 400])])
        row = lambda e, j: [e if i == j else 0 for i in range(D)]
        small = [row(0, 0), row(1, 0), row(2, 0), row(1, k), [1] * D, [1 if i != k else 0 for i in range(D)]]
        floats = rng.random() < 0.4
        cs = [-2.5, -1.0, 0.5, 1.0, 2.0, 3.0] if floats else [-2, -1, 1, 2, 3]
        xr = [row(big(), k)] + rng.sample(small, rng.randint(1, 3))
        if rng.random() < 0.3:
            xr[1] = [xr[1][i] + (rng.choice([1, 2]) if i == 0 else 0) for i in range(D)]    # highest-q0 term: still small exponents
        yr = rng.sample(small, rng.randint(1, 3)) + ([row(rng.choice([big(), rng.randrange(1, 120)]), rng.choice([k, rng.randrange(D)]))] if rng.random() < 0.4 else [])
        xr, yr = [list(t) for t in sorted({tuple(t) for t in xr})], [list(t) for t in sorted({tuple(t) for t in yr})]
        x = {"exponents": xr, "coefficients": [rng.choice(cs) for _ in xr]}
        y = {"exponents": yr, "coefficients": [rng.choice(cs) for _ in yr]}
        if rng.random() < 0.5:
            x, y = y, x
        yield {"D": D, "op": rng.choice(["mul", "mul", "mul_function"]), "x": x, "y": y, "var": k, "args": [1] * D, "dtype": "float64" if floats else "int64"}


def _radix_collision(rng, D, M, W):
    """two different exponent tuples with entries <= M whose readings as numbers in base M+1 differ by a multiple of W"""
    B = M + 1
    for _ in range(400):
        t1 = [rng.randrange(B) for _ in range(D)]
        t1[rng.randrange(D)] = M
        code = 0
        for e in t1:
            code = code * B + e
        for k in (rng.choice([1, 1, 2, 3]), 1):
            for sign in (1, -1):
                c2 = code + sign * k * W
                if 0 <= c2 < B ** D:
                    digits = []
                    for _ in range(D):
                        digits.append(c2 % B)
                        c2 //= B
                    t2 = digits[::-1]
                    if t2 != t1:
                        return t1, t2
    return None


def gen_ops_collisions(tier, rng):
    """operands whose exponent tuples would collide if a tuple were ever replaced by ONE machine number (the tuple read in base
    max+1, wrapped at 2**32 / 2**31 / 2**16): distinct tuples must stay distinct terms"""
    for _ in range(count(tier, 60, 600)):
        D = rng.choice([2, 3, 3])
        W = rng.choice([2 ** 32, 2 ** 32, 2 ** 31, 2 ** 16])
        M = rng.choice([65535, 70000, 99999] if D == 2 and W > 2 ** 16 else [300, 1023, 2047, 4095, 1625] if W > 2 ** 16 else [255, 300, 1000, 40])
        if (M + 1) ** D <= W:
            continue
        pair = _radix_collision(rng, D, M, W)
        if pair is None:
            continue
        t1, t2 = pair
        extra = [[rng.randrange(3) for _ in range(D)] for _ in range(rng.randint(0, 2))]
        xr = [list(t) for t in sorted({tuple(t) for t in [t1] + extra[:1]})]
        yr = [list(t) for t in sorted({tuple(t) for t in [t2] + extra[1:]})]
        yield {"D": D, "op": rng.choice(["add", "sub", "align_exponents", "align_polynomials", "equal", "mul"]),
               "x": {"exponents": xr, "coefficients": [rng.choice([-2, 1, 3, 5]) for _ in xr]},
               "y": {"exponents": yr, "coefficients": [rng.choice([-1, 2, 7, 11]) for _ in yr]}, "var": 0, "args": [1] * D}


def model_of(t, names):
    return MPoly({MPoly.mono(names, e): Fraction(c) for e, c in zip(t["exponents"], t["coefficients"])})


def evaluate(m, values):
    """Substitute numbers for the indeterminates in `values`; exact, no repeated multiplication."""
    out = MPoly()
    for mono, c in m.t.items():
        rest = []
        for n, e in mono:
            if n in values:
                v = values[n]
                c = c * (0 if v == 0 else (v if e % 2 else 1) if abs(v) == 1 else Fraction(v) ** e)
            else:
                rest.append((n, e))
        out = out + MPoly({tuple(rest): c})
    return out


def scalar(m):
    a = numpy.empty((), dtype=object)
    a[()] = m
    return a


@check("C20", "operations.large_exponent_tuples", gen_ops_all,
       functions=("numpoly.add", "numpoly.subtract", "numpoly.multiply", "numpoly.align_exponents", "numpoly.align_polynomials",
                  "numpoly.align_indeterminants", "numpoly.derivative", "numpoly.call", "numpoly.ndpoly.__reduce__", "numpoly.polynomial",
                  "numpoly.ndpoly.__getitem__", "numpoly.equal"),
       note="bounded: two 0-d operands of 1-3 terms drawn from a common pool of <=5 exponent tuples (so equal tuples meet and must merge, "
            "distinct ones must stay apart) in 1-3 indeterminates, exponents up to 300 / 1000 / 55000 / 10**5; 13 operations (+, -, *, "
            "align_exponents, align_polynomials, derivative, evaluation at 1/-1/0 full and partial (partial: exponents of the remaining indeterminates <= 40), pickle, raw view and back, dict "
            "construction, indexing, ==); exact model; exceptions accepted only when an exponent >= 55000 is involved; plus 250 (4000) "
            "products of 2-4-term operands in 2-3 indeterminates where an exponent 69..400 (mostly 256..324) sits in q1 or q2 while all "
            "q0 exponents are <= 4, either operand order, int64 and float64 coefficients, x*y and numpoly.multiply; plus 60 (600) operand "
            "pairs whose exponent tuples, read as numbers in base max+1, differ by a multiple of 2**32 / 2**31 / 2**16 (they would "
            "merge if a tuple were ever replaced by one machine number)")
def large_ops(inp):
    import numpoly
    install_poison()
    D, op = inp["D"], inp["op"]
    names = [f"q{i}" for i in range(D)]
    mx, my = model_of(inp["x"], names), model_of(inp["y"], names)
    biggest = max(max(e) for t in (inp["x"], inp["y"]) for e in t["exponents"])
    dtype = inp.get("dtype", "int64")
    if op in ("mul", "mul_function"):
        biggest = max([biggest] + [e for m in (mx * my).t for _, e in m])

    def run():
        x = mono_poly(inp["x"]["exponents"], inp["x"]["coefficients"], names, dtype)
        y = mono_poly(inp["y"]["exponents"], inp["y"]["coefficients"], names, dtype)
        msg = wf(x, "operand") or denotes(x, scalar(mx), "operand") or denotes(y, scalar(my), "second operand")
        if msg:
            return msg
        if op in ("add", "sub", "mul"):
            f = {"add": operator.add, "sub": operator.sub, "mul": operator.mul}[op]
            r = f(x, y)
            return wf(r) or denotes(r, scalar(f(mx, my)))
        if op == "mul_function":
            r = numpoly.multiply(x, y)
            return wf(r) or denotes(r, scalar(mx * my), "numpoly.multiply")
        if op in ("align_exponents", "align_polynomials"):
            rx, ry = getattr(numpoly, op)(x, y)
            if rx.exponents.tolist() != ry.exponents.tolist():
                return f"{op}: exponents differ {rx.exponents.tolist()} vs {ry.exponents.tolist()}"
            return wf(rx) or wf(ry) or denotes(rx, scalar(mx), "aligned first") or denotes(ry, scalar(my), "aligned second")
        if op == "derivative":
            n = names[inp["var"]]
            r = numpoly.derivative(x, n)
            return wf(r) or denotes(r, scalar(mx.deriv(n)), f"d/d{n}")
        if op == "call_full":
            r = x(*inp["args"])
            want = evaluate(mx, dict(zip(names, inp["args"])))
            got = from_ndpoly(numpoly.polynomial(r))
            return None if got.shape == () and got[()] == want else f"value at {inp['args']} is {describe(got)}, expected {want!r}"
        if op == "call_partial":
            n = names[inp["var"]]
            r = numpoly.polynomial(x(**{n: inp["args"][inp["var"]]}))
            return wf(r) or denotes(r, scalar(evaluate(mx, {n: inp["args"][inp["var"]]})), f"partial evaluation {n}={inp['args'][inp['var']]}")
        if op == "pickle":
            r = pickle.loads(pickle.dumps(x + y))
            return wf(r) or denotes(r, scalar(mx + my), "unpickled sum")
        if op == "raw_and_back":
            r = numpoly.polynomial(x.values, names=x.names)
            return wf(r) or denotes(r, scalar(mx), "polynomial(x.values)")
        if op == "construct_dict":
            r = numpoly.polynomial({tuple(e): c for e, c in zip(inp["x"]["exponents"], inp["x"]["coefficients"])}, names=tuple(names))
            return wf(r) or denotes(r, scalar(mx), "polynomial(dict)")
        if op == "getitem":
            r = numpoly.polynomial([x, y, x])[1]
            return wf(r) or denotes(r, scalar(my), "polynomial([x, y, x])[1]")
        eq = x == y
        return None if bool(eq) == (mx == my) and bool(x == x) else f"x == y gives {eq!r}, exact answer {mx == my}"
    return guarded(run, biggest, op)


# ------------------------------------------------------------------ text files
VIAS = ["path", "pathlib", "text_file", "binary_file", "stringio", "bytesio"]


def gen_text(tier, rng):
    singles = list(range(0, 1300 if tier == "thorough" else 300)) + [e for e in BOUNDARY if e < 2 ** 32]
    singles += [rng.randrange(10 ** 5) for _ in range(count(tier, 60, 600))]
    for e in singles:
        yield {"exponents": [[0], [e]] if e else [[0], [1]], "shape": rng.choice([[2], [3], [2, 2]]), "via": rng.choice(VIAS)}
    for _ in range(count(tier, 60, 600)):
        D = rng.choice([1, 2, 3])
        top = rng.choice([200, 300, 1000, 10 ** 5])
        rows = {tuple(rng.choice([0, 1, rng.randrange(top)]) for _ in range(D)) for _ in range(rng.randint(2, 4))}
        if len(rows) > 1:
            yield {"exponents": sorted(list(r) for r in rows), "shape": rng.choice([[2], [3], [2, 2]]), "via": rng.choice(VIAS)}
    # exactly one term; keys 128..255 are one latin-1 byte but two UTF-8 bytes: binary streams must not mix the two up
    for e in list(range(69, 197)) + [1, 2, 68, 197, 198, 255, 256, 300, 1000, 2000, ACCEPT]:
        for via in (VIAS if tier == "thorough" else ["bytesio", rng.choice(["stringio", "text_file"]), rng.choice(["path", "binary_file", "pathlib"])]):
            yield {"exponents": [[e]], "shape": rng.choice([[], [1], [3], [2, 2]]), "via": via}
        # the same file written and read with an explicit (consistent) encoding
        for enc in (["latin1", "utf-8", "ascii", "utf-16"] if tier == "thorough" else [rng.choice(["latin1", "latin1", "utf-8", "ascii", "utf-16"])]):
            yield {"exponents": [[e]] if rng.random() < 0.5 else [[0], [e]], "shape": rng.choice([[], [1], [3]]), "via": rng.choice(["path", "pathlib"]),
                   "encoding": enc}
    # exponent rows whose latin-1 key bytes form one valid UTF-8 sequence (lead byte, continuation bytes)
    for _ in range(count(tier, 40, 400)):
        row = [rng.randrange(0xC2, 0xE0) - KEY_OFFSET, rng.randrange(0x80, 0xC0) - KEY_OFFSET]
        if rng.random() < 0.4:
            row = [rng.randrange(0xE1, 0xED) - KEY_OFFSET, rng.randrange(0x80, 0xC0) - KEY_OFFSET, rng.randrange(0x80, 0xC0) - KEY_OFFSET]
        rows = [row] if rng.random() < 0.6 else [[0] * len(row), row]
        yield {"exponents": rows, "shape": rng.choice([[], [1], [3]]), "via": rng.choice(["bytesio", "bytesio", "binary_file", "stringio", "path"])}


def save_and_load(numpoly, p, via, tmp, encoding=None):
    path = os.path.join(tmp, "p.txt")
    if via in ("path", "pathlib"):
        path = pathlib.Path(path) if via == "pathlib" else path
        kw = {} if encoding is None else {"encoding": encoding}
        numpoly.savetxt(path, p, **kw)
        return numpoly.loadtxt(path, **kw)
    if via in ("text_file", "binary_file"):
        b = "b" if via == "binary_file" else ""
        with open(path, "w" + b) as dst:
            numpoly.savetxt(dst, p)
        with open(path, "r" + b) as src:
            return numpoly.loadtxt(src)
    stream = io.StringIO() if via == "stringio" else io.BytesIO()
    numpoly.savetxt(stream, p)
    stream.seek(0)
    return numpoly.loadtxt(stream)


@check("C20", "textio.large_exponents", gen_text, functions=("numpoly.savetxt", "numpoly.loadtxt", "numpoly.polynomial"),
       note="bounded: every exponent 0..1299 (quick 0..299), the boundary list and random exponents < 10**5 as a two-term 1-/2-d array, plus "
            "random 2-4-term arrays in 1-3 indeterminates, plus single-term arrays (0-d, 1-d, 2-d) for every exponent 69..196 and 11 others, "
            "plus 40 (400) rows in 2-3 indeterminates whose key bytes form one valid UTF-8 sequence; through a path, pathlib.Path, text and "
            "binary file objects, io.StringIO and io.BytesIO (all 6 in thorough, 3 per exponent in quick), and paths with encoding= latin1 / utf-8 / "
            "ascii / utf-16 given to both calls; savetxt then loadtxt: any "
            "exception is accepted (C13 covers the format), but a loaded polynomial must consist of exactly the saved monomials with their coefficients")
def text_roundtrip(inp):
    import numpoly
    install_poison()
    rows, shape = inp["exponents"], tuple(inp["shape"])
    size = int(numpy.prod(shape, dtype=int))
    coefs = [numpy.arange(1 + i, 1 + i + size, dtype="float64").reshape(shape) for i in range(len(rows))]
    names = tuple(f"q{i}" for i in range(len(rows[0])))
    want = numpy.empty(shape, dtype=object)
    for idx in numpy.ndindex(*shape):
        want[idx] = MPoly({MPoly.mono(names, e): Fraction(float(c[idx])) for e, c in zip(rows, coefs)})
    with tempfile.TemporaryDirectory() as tmp:
        try:
            p = numpoly.polynomial_from_attributes(rows, coefs, names, retain_coefficients=True, retain_names=True)
            r = save_and_load(numpoly, p, inp.get("via", "path"), tmp, inp.get("encoding"))
        except Timeout:
            raise
        except Exception:
            return None
    if not isinstance(r, numpoly.ndpoly):
        return f"loadtxt returned {type(r).__name__} for a saved polynomial with exponents {rows}"
    got = from_ndpoly(r)
    if got.shape != want.shape or not same(got, want):
        return f"saved {describe(want)} (exponents {rows}) via {inp.get('via', 'path')} encoding {inp.get('encoding')}, loaded {describe(got)} (exponents {r.exponents.tolist()})"
    return None


# ------------------------------------------------------------------ many indeterminates (the compiled kernel's key buffer)
_CHILD = r'''
import sys
sys.path.insert(0, sys.argv[1])
import numpy, numpoly
n, dtype = int(sys.argv[2]), sys.argv[3]
names = tuple(f"q{i}" for i in range(n))
def unit(*ds):
    row = [0] * n
    for d in ds:
        row[d] += 1
    return tuple(row)
# a = q0 + 2*q_{n-1} + 1,  b = q1 - q_{n-1}   (for n == 1: a = q0 + 1, b = q0 - 2)
if n == 1:
    A = {unit(0): 1, unit(): 1}; B = {unit(0): 1, unit(): -2}
else:
    A = {unit(0): 1, unit(n - 1): 2, unit(): 1}; B = {unit(1 % n): 1, unit(n - 1): -1}
def build(d):
    return numpoly.polynomial_from_attributes(numpy.array(list(d), dtype=int), [numpy.array(c, dtype=dtype) for c in d.values()], names,
                                              retain_coefficients=True, retain_names=True)
want = {}
for ea, ca in A.items():
    for eb, cb in B.items():
        e = tuple(x + y for x, y in zip(ea, eb))
        want[e] = want.get(e, 0) + ca * cb
want = {e: c for e, c in want.items() if c}
try:
    r = numpoly.multiply(build(A), build(B))
except Exception as e:
    print("RAISED", type(e).__name__, str(e)[:200]); sys.exit(0)
got = {tuple(int(x) for x in e): c.item() for e, c in zip(r.exponents, r.coefficients) if c.item()}
names_got = tuple(r.names)
# (exponents are relative to r.names, which may be a subset/permutation of names)
pos = {nm: k for k, nm in enumerate(names)}
full = {}
for e, c in got.items():
    row = [0] * n
    for x, nm in zip(e, names_got):
        row[pos[nm]] = x
    full[tuple(row)] = c
print("OK" if full == want else f"WRONG terms {len(full)} vs {len(want)}")
'''


def gen_many(tier, rng):
    for n in [1, 2, 64, 200, 254, 255, 256, 257, 272, 300, 400] + ([128, 258, 264, 280, 320, 512, 1000] if tier == "thorough" else []):
        yield {"n": n, "dtype": rng.choice(["int64", "float64"])}


@check("C20", "multiply.many_indeterminates", gen_many, functions=("numpoly.multiply", "numpoly.cmultiply"),
       note="bounded: products of two 2-3-term polynomials in n indeterminates, n in {1, 2, 64, 200, 254..257, 272, 300, 400} (thorough: 7 "
            "more up to 1000), int64 / float64 (the dtypes the compiled kernel handles); run in a child interpreter because the failure "
            "mode is a crash: the product must be exact (or an exception), never a wrong term, and the interpreter must survive")
def many_indeterminates(inp):
    import subprocess
    import sys
    from .common import REPO
    try:
        p = subprocess.run([sys.executable, "-c", _CHILD, REPO, str(inp["n"]), inp["dtype"]], capture_output=True, text=True, timeout=300)
    except subprocess.TimeoutExpired:
        return None
    out = (p.stdout or "").strip().splitlines()
    last = out[-1] if out else ""
    if p.returncode < 0:
        return f"multiplying two polynomials in {inp['n']} indeterminates killed the interpreter (signal {-p.returncode})"
    if p.returncode != 0:
        return f"child interpreter exit {p.returncode} for {inp['n']} indeterminates: {(p.stderr or '')[-300:]}"
    if last.startswith("WRONG"):
        return f"product in {inp['n']} indeterminates: {last}"
    return None


# ------------------------------------------------------------------ exponent tables handed in as numpy arrays of a narrow integer type
def gen_narrow_tables(tier, rng):
    tops = {"uint8": 255, "int8": 127, "uint16": 65535, "int16": 32767, "uint32": ACCEPT - 1, "int32": ACCEPT - 1, "int64": ACCEPT - 1}
    for dt, top in tops.items():
        for _ in range(count(tier, 4, 40)):
            D = rng.choice([1, 2])
            vals = [top, top - 1, top - rng.randrange(0, 60), rng.randrange(0, top + 1), 0, 1]
            rows = {tuple(rng.choice(vals) for _ in range(D)) for _ in range(rng.randint(1, 3))}
            yield {"dtype": dt, "rows": sorted(list(r) for r in rows), "via": rng.choice(["from_attributes", "ndpoly", "from_attributes_retain"])}


@check("C20", "codec.narrow_integer_exponent_tables", gen_narrow_tables, functions=("numpoly.ndpoly.__new__", "numpoly.polynomial_from_attributes", "numpoly.remove_redundant_coefficients"),
       note="bounded: exponent tables given as numpy arrays of dtype uint8/int8/uint16/int16/uint32/int32/int64 with entries at and just below the "
            "top of the type's range (adding the key offset in the caller's type would wrap): the stored exponents are the ones handed in, or an "
            "exception")
def narrow_tables(inp):
    import numpoly
    install_poison()
    E = numpy.array(inp["rows"], dtype=inp["dtype"])
    before = E.copy()
    names = tuple(f"q{i}" for i in range(E.shape[1]))
    coefs = [numpy.array(i + 1) for i in range(len(E))]
    try:
        if inp["via"] == "ndpoly":
            p = numpoly.ndpoly(exponents=E, shape=(), names=names)
            got = sorted(tuple(int(x) for x in r) for r in p.exponents)
            want = sorted(tuple(r) for r in inp["rows"])
        else:
            retain = inp["via"].endswith("retain")
            p = numpoly.polynomial_from_attributes(E, coefs, names, retain_coefficients=retain, retain_names=True)
            got = {tuple(int(x) for x in r): int(c) for r, c in zip(p.exponents, p.coefficients)}
            want = {tuple(r): i + 1 for i, r in enumerate(inp["rows"])}
    except Timeout:
        raise
    except Exception:
        return None
    if not numpy.array_equal(E, before):
        return f"the caller's exponent table (dtype {inp['dtype']}) was modified"
    if got != want:
        return f"exponent table {inp['rows']} of dtype {inp['dtype']} stored as {got}"
    return None


# ------------------------------------------------------------------ exponents that cannot be represented raise
def gen_unrepresentable(tier, rng):
    bad = [-1, -2, 0.5, 1.5, 1.7, 2.9, float("nan"), float("inf"), 2 ** 32, 2 ** 40, -0.5]
    for e in bad:
        for route in ("power_scalar", "power_array", "operator", "dict", "attributes", "ndpoly", "dict_second_column"):
            if route in ("power_scalar", "power_array", "operator") and isinstance(e, int) and e >= 2 ** 32:
                continue        # q0**k performs k multiplications before the constructor's range test can object: not run
            yield {"e": e, "route": route}
    for e in (0, 1, 2, 2.0, 3.0, True, 7):          # whole numbers in any numeric type are accepted and mean themselves
        for route in ("power_scalar", "operator", "dict", "attributes"):
            yield {"e": e, "route": route, "ok": True}


@check("C20", "unrepresentable.exponents_raise", gen_unrepresentable,
       functions=("numpoly.power", "numpoly.ndpoly", "numpoly.postprocess_attributes", "numpoly.polynomial"),
       note="exhaustive over 11 exponents that are no storable exponent (negative, fractional, nan, inf, 2**32, 2**40) x 7 routes (q0**e, "
            "numpoly.power with a number / an array exponent, polynomial({(e,): c}), polynomial_from_attributes, ndpoly(exponents=...), a "
            "second column of a dict key; the two huge whole numbers only through the construction routes, a power performs that many "
            "multiplications first): an exception is raised - never another monomial in its place; whole numbers given as int, "
            "float or bool are accepted and mean themselves")
def unrepresentable(inp):
    import numpoly
    e, route = inp["e"], inp["route"]
    q0 = numpoly.variable()
    try:
        with warnings.catch_warnings():
            warnings.simplefilter("ignore")
            if route == "power_scalar":
                r = numpoly.power(q0, e)
            elif route == "power_array":
                r = numpoly.power(q0, numpy.array([e, 2.0]))
            elif route == "operator":
                r = q0 ** e
            elif route == "dict":
                r = numpoly.polynomial({(e,): 3})
            elif route == "dict_second_column":
                r = numpoly.polynomial({(1, e): 3, (0, 0): 1})
            elif route == "attributes":
                r = numpoly.polynomial_from_attributes(numpy.array([[e]]), [3])
            else:
                r = numpoly.ndpoly(exponents=numpy.array([[e]]), shape=())
    except Exception as exc:      # noqa: BLE001
        if inp.get("ok"):
            return f"exponent {e!r} ({type(e).__name__}) through {route} raised {type(exc).__name__}: {str(exc)[:80]}"
        return None
    if not inp.get("ok"):
        return f"exponent {e!r} through {route} was accepted; the result is {r!r:.120} (exponents {numpy.asarray(r.exponents).tolist()})"
    want = [[int(e)]]
    got = numpy.asarray(r.exponents).tolist()
    if route in ("power_scalar", "operator"):
        want = [[int(e)]]
    if got != want:
        return f"exponent {e!r} through {route}: stored exponents {got}, expected {want}"
    return None
