"""Exact sparse-polynomial oracle (independent of numpoly): the concrete meaning of the
spec logic's abstract view `coefAt`.  Monomial = tuple of (name, exponent>0) sorted by name;
coefficients are Fractions (ints, bools, finite floats are exact) or Python complex."""
from __future__ import annotations
from fractions import Fraction
import itertools
import numpy


def num(x):
    """Exact value of a numpy / python scalar."""
    if isinstance(x, (bool, numpy.bool_)):
        return Fraction(int(x))
    if isinstance(x, (int, numpy.integer)):
        return Fraction(int(x))
    if isinstance(x, Fraction):
        return x
    if isinstance(x, (float, numpy.floating)):
        return Fraction(float(x))
    if isinstance(x, (complex, numpy.complexfloating)):
        c = complex(x)
        return Fraction(c.real) if c.imag == 0 else c
    raise TypeError(type(x))


def _add(a, b):
    if isinstance(a, complex) or isinstance(b, complex):
        return complex(a) + complex(b)
    return a + b


def _mul(a, b):
    if isinstance(a, complex) or isinstance(b, complex):
        return complex(a) * complex(b)
    return a * b


class MPoly:
    __slots__ = ("t",)

    def __init__(self, terms=None):
        self.t = {}
        if terms:
            for m, c in terms.items():
                if c != 0:
                    self.t[m] = c

    @staticmethod
    def const(c):
        return MPoly({(): num(c)})

    @staticmethod
    def var(name, e=1):
        return MPoly({((name, e),): Fraction(1)}) if e else MPoly.const(1)

    @staticmethod
    def mono(names, exps):
        return tuple(sorted((n, int(e)) for n, e in zip(names, exps) if int(e) != 0))

    def __eq__(self, other):
        return isinstance(other, MPoly) and self.t == other.t

    def __hash__(self):
        return hash(frozenset(self.t.items()))

    def __repr__(self):
        if not self.t:
            return "0"
        out = []
        for m, c in sorted(self.t.items()):
            ms = "*".join(f"{n}**{e}" if e != 1 else n for n, e in m)
            out.append(f"{c}" + ("*" + ms if ms else ""))
        return " + ".join(out)

    def __add__(self, o):
        r = dict(self.t)
        for m, c in o.t.items():
            r[m] = _add(r.get(m, Fraction(0)), c)
        return MPoly(r)

    def __neg__(self):
        return MPoly({m: -c for m, c in self.t.items()})

    def __sub__(self, o):
        return self + (-o)

    def __mul__(self, o):
        r = {}
        for m1, c1 in self.t.items():
            d1 = dict(m1)
            for m2, c2 in o.t.items():
                d = dict(d1)
                for n, e in m2:
                    d[n] = d.get(n, 0) + e
                m = tuple(sorted(d.items()))
                r[m] = _add(r.get(m, Fraction(0)), _mul(c1, c2))
        return MPoly(r)

    def __pow__(self, k):
        assert k >= 0
        r = MPoly.const(1)
        for _ in range(int(k)):
            r = r * self
        return r

    def scale(self, c):
        return MPoly({m: _mul(v, c) for m, v in self.t.items()})

    def is_zero(self):
        return not self.t

    def is_const(self):
        return all(m == () for m in self.t)

    def const_value(self):
        return self.t.get((), Fraction(0))

    def names(self):
        return sorted({n for m in self.t for n, _ in m})

    def deriv(self, name):
        r = {}
        for m, c in self.t.items():
            d = dict(m)
            e = d.get(name, 0)
            if not e:
                continue
            if e == 1:
                del d[name]
            else:
                d[name] = e - 1
            mm = tuple(sorted(d.items()))
            r[mm] = _add(r.get(mm, Fraction(0)), _mul(c, Fraction(e)))
        return MPoly(r)

    def subs(self, mapping):
        """mapping name -> MPoly; names not in mapping stay."""
        out = MPoly()
        for m, c in self.t.items():
            term = MPoly.const(1).scale(c)
            for n, e in m:
                base = mapping[n] if n in mapping else MPoly.var(n)
                term = term * (base ** e)
            out = out + term
        return out

    def evaluate(self, values):
        """values name -> exact number; all names must be given."""
        tot = Fraction(0)
        for m, c in self.t.items():
            v = c
            for n, e in m:
                v = _mul(v, values[n] ** e)
            tot = _add(tot, v)
        return tot


# ------------------------------------------------------------------ monomial orders
def mono_key(m, names, graded, reverse):
    """Sort key of a monomial under numpoly's (graded) (reverse) lexicographic order.
    reverse=False: the LAST indeterminate is most significant; reverse=True: the first."""
    d = dict(m)
    row = [d.get(n, 0) for n in names]
    sig = tuple(row) if reverse else tuple(row[::-1])
    return ((sum(row),) if graded else ()) + sig


def col_key(col, graded, reverse):
    col = [int(x) for x in col]
    sig = tuple(col) if reverse else tuple(col[::-1])
    return ((sum(col),) if graded else ()) + sig


def lead(p, names, graded, reverse):
    """(monomial, coefficient) of the largest term, or (None, 0)."""
    if not p.t:
        return None, Fraction(0)
    m = max(p.t, key=lambda mm: mono_key(mm, names, graded, reverse))
    return m, p.t[m]


def poly_cmp(a, b, names, graded, reverse):
    """-1/0/1 under the documented order: compare coefficients at the largest differing monomial."""
    diff = [m for m in set(a.t) | set(b.t) if a.t.get(m, 0) != b.t.get(m, 0)]
    if not diff:
        return 0
    m = max(diff, key=lambda mm: mono_key(mm, names, graded, reverse))
    ca, cb = a.t.get(m, Fraction(0)), b.t.get(m, Fraction(0))
    return -1 if ca < cb else 1


# ------------------------------------------------------------------ numpoly <-> model
def canon_name_sort(names):
    return sorted(names, key=lambda s: (int(s[1:]) if s[1:].isdigit() else 0, s))


def from_ndpoly(p):
    """Object array (shape p.shape) of MPoly read from the public attributes."""
    names = tuple(p.names)
    E = numpy.asarray(p.exponents)
    C = p.coefficients
    shape = tuple(p.shape)
    out = numpy.empty(shape, dtype=object)
    flat = [MPoly() for _ in range(int(numpy.prod(shape, dtype=int)))]
    for t in range(len(E)):
        m = MPoly.mono(names, E[t])
        col = numpy.asarray(C[t]).reshape(-1)
        for i, v in enumerate(col):
            if v != 0:
                flat[i] = flat[i] + MPoly({m: num(v)})
    for i, idx in enumerate(numpy.ndindex(*shape)):
        out[idx] = flat[i]
    return out


def from_raw(p):
    """Same, but decoded independently from the raw structured buffer (field names)."""
    import numpoly
    names = tuple(p.names)
    raw = numpy.ndarray.view(p, numpy.ndarray) if isinstance(p, numpoly.ndpoly) else p
    D = len(names)
    shape = tuple(raw.shape)
    out = numpy.empty(shape, dtype=object)
    for idx in numpy.ndindex(*shape):
        out[idx] = MPoly()
    for key in raw.dtype.names:
        if key.isdigit() and len(key) != D:
            continue        # allocation padding fields
        cps = [ord(ch) for ch in key] + [0] * (D - len(key))
        exps = [(cp - 59) % 2 ** 32 for cp in cps]
        m = MPoly.mono(names, exps)
        col = raw[key]
        for idx in numpy.ndindex(*shape):
            v = col[idx]
            if v != 0:
                out[idx] = out[idx] + MPoly({m: num(v)})
    return out


def from_any(x):
    """Model of a poly-like operand (number, list, ndarray, ndpoly)."""
    import numpoly
    if isinstance(x, numpoly.ndpoly):
        return from_ndpoly(x)
    a = numpy.asarray(x)
    out = numpy.empty(a.shape, dtype=object)
    for idx in numpy.ndindex(*a.shape):
        out[idx] = MPoly.const(a[idx])
    return out


def obj_map(f, *arrs):
    b = numpy.broadcast(*arrs)
    out = numpy.empty(b.shape, dtype=object)
    bs = numpy.broadcast_arrays(*arrs)
    for idx in numpy.ndindex(*b.shape):
        out[idx] = f(*[a[idx] for a in bs])
    return out


def same(model_a, model_b):
    if model_a.shape != model_b.shape:
        return False
    return all(model_a[idx] == model_b[idx] for idx in numpy.ndindex(*model_a.shape))


def describe(model):
    return {"shape": list(model.shape), "elements": [repr(model[idx]) for idx in numpy.ndindex(*model.shape)][:12]}


# ------------------------------------------------------------------ building inputs
def build(spec):
    """spec: {"names": [...], "exponents": [[..]..], "coefficients": nested lists (N x shape), "dtype": str}
    -> ndpoly, constructed with every term retained; verified against the spec by raw decoding."""
    import numpoly
    dtype = numpy.dtype(spec.get("dtype", "int64"))
    coeffs = [numpy.array(c, dtype=dtype) for c in spec["coefficients"]]
    p = numpoly.ndpoly.from_attributes(exponents=numpy.array(spec["exponents"], dtype=int).reshape(len(coeffs), -1),
                                       coefficients=coeffs, names=tuple(spec["names"]),
                                       retain_coefficients=spec.get("retain", True), retain_names=spec.get("retain", True))
    return p


def spec_model(spec):
    dtype = numpy.dtype(spec.get("dtype", "int64"))
    coeffs = [numpy.array(c, dtype=dtype) for c in spec["coefficients"]]
    shape = coeffs[0].shape
    out = numpy.empty(shape, dtype=object)
    for idx in numpy.ndindex(*shape):
        out[idx] = MPoly()
    for e, c in zip(spec["exponents"], coeffs):
        m = MPoly.mono(spec["names"], e)
        for idx in numpy.ndindex(*shape):
            if c[idx] != 0:
                out[idx] = out[idx] + MPoly({m: num(c[idx])})
    return out


def operand(spec):
    """A poly-like operand from its JSON form: {"poly": spec} | {"num": x} | {"list": [...]} | {"array": [...], "dtype": ..}"""
    if "poly" in spec:
        return build(spec["poly"])
    if "num" in spec:
        return spec["num"]
    if "list" in spec:
        return spec["list"]
    if "array" in spec:
        return numpy.array(spec["array"], dtype=spec.get("dtype"))
    if "polylist" in spec:
        # a Python list whose entries are 0-d polynomials (each with its own names) or plain numbers
        return [build(e["poly"]) if "poly" in e else e["num"] for e in spec["polylist"]]
    raise KeyError(spec)


def operand_model(spec):
    if "polylist" in spec:
        out = numpy.empty(len(spec["polylist"]), dtype=object)
        for k, e in enumerate(spec["polylist"]):
            out[k] = (spec_model(e["poly"]) if "poly" in e else from_any(e["num"]))[()]
        return out
    if "poly" in spec:
        return spec_model(spec["poly"])
    if "num" in spec:
        return from_any(spec["num"])
    if "list" in spec:
        return from_any(spec["list"])
    return from_any(numpy.array(spec["array"], dtype=spec.get("dtype")))
