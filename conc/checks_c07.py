"""C07 run-time contracts: the six comparisons, maximum/minimum against the documented order
(model.poly_cmp) under all four sort_graded/sort_reverse settings; order laws on samples."""
from __future__ import annotations
import operator
import numpy
from .common import check
from .gen import nested, rand_operand, rand_poly, broadcastable_pair, count
from .model import operand, operand_model, obj_map, poly_cmp, canon_name_sort
from .wf import wf, denotes, snapshot, unchanged, install_poison

OPS = {"lt": (operator.lt, "less", lambda c: c < 0), "le": (operator.le, "less_equal", lambda c: c <= 0),
       "gt": (operator.gt, "greater", lambda c: c > 0), "ge": (operator.ge, "greater_equal", lambda c: c >= 0),
       "eq": (operator.eq, "equal", lambda c: c == 0), "ne": (operator.ne, "not_equal", lambda c: c != 0)}


def _names(*specs):
    ns = set()
    for s in specs:
        if "poly" in s:
            ns.update(s["poly"]["names"])
    return canon_name_sort(ns) or ["q0"]


def _pair(rng, same_terms=False):
    s1, s2 = broadcastable_pair(rng)
    if rng.random() < 0.2:
        # operands built over different name tuples whose numeric and string order differ (q2 vs q10)
        pa, pb = rng.sample([("q2",), ("q10",), ("q2", "q10"), ("q9", "q11"), ("q1", "q10")], 2)
        return ({"poly": rand_poly(rng, shape=s1, pool=[-1, 0, 1, 2], names_pool=pa, maxterms=2)},
                {"poly": rand_poly(rng, shape=s2, pool=[-1, 0, 1, 2], names_pool=pb, maxterms=2)})
    if rng.random() < 0.15:
        # unsigned / narrow coefficient types on both sides (a difference of coefficients would wrap; a comparison does not),
        # poly or plain array of the same type on either side
        dt = rng.choice(["uint8", "uint16", "uint32", "uint64", "int8", "uint64", "int64"])
        pool = [0, 1, 2, 5, 200] if dt.startswith("u") else [-100, -1, 0, 1, 100]
        if dt.endswith("64") and rng.random() < 0.6:
            # 64-bit values that differ only below float64 precision (a promotion to float on one side would merge them)
            pool = [2 ** 53, 2 ** 53 + 1, 2 ** 53 + 2, 2 ** 62 + 1, 2 ** 62 + 2] + ([2 ** 63 + 1, 2 ** 63 + 2] if dt == "uint64" else [-(2 ** 53) - 1])
        a = {"poly": rand_poly(rng, shape=s1, pool=pool, dtype=dt, maxterms=2)}
        b = {"poly": rand_poly(rng, shape=s2, pool=pool, dtype=dt, maxterms=2, names=a["poly"]["names"])} if rng.random() < 0.6 else \
            {"array": nested(rng, tuple(s2), pool), "dtype": dt}
        return (a, b) if rng.random() < 0.5 else (b, a)
    a = {"poly": rand_poly(rng, shape=s1, pool=[-1, 0, 0, 1, 2])}
    if rng.random() < 0.3:
        # near-equal operands: same exponents, coefficients differing in few places (ties at the top terms)
        b = {"poly": dict(a["poly"])}
        cs = [list(numpy.array(c).reshape(-1)) for c in a["poly"]["coefficients"]]
        shape = numpy.array(a["poly"]["coefficients"][0]).shape
        t = rng.randrange(len(cs))
        if cs[t]:
            cs[t][rng.randrange(len(cs[t]))] += rng.choice([-1, 0, 1])
        b["poly"]["coefficients"] = [numpy.array(c, dtype=int).reshape(shape).tolist() for c in cs]
        return a, b
    b = rand_operand(rng, shape=s2, pool=[-1, 0, 0, 1, 2]) if rng.random() < 0.8 else {"num": rng.choice([-1, 0, 1, 2])}
    return a, b


def gen_cmp(tier, rng):
    for _ in range(count(tier, 200, 2500)):
        a, b = _pair(rng)
        yield {"a": a, "b": b, "op": rng.choice(sorted(OPS)), "via": rng.choice(["operator", "numpoly", "numpy"]),
               "graded": rng.random() < 0.5, "reverse": rng.random() < 0.5}


@check("C07", "compare.documented_order", gen_cmp,
       functions=("numpoly.greater", "numpoly.greater_equal", "numpoly.less", "numpoly.less_equal", "numpoly.equal",
                  "numpoly.not_equal", "numpoly.glexsort", "numpoly.align_polynomials"),
       note="bounded: operands <=3 terms, <=3 indeterminates, 13 broadcastable shape pairs, near-equal operands, "
            "all four sort option settings, operator / numpoly / numpy spellings; a seventh of the pairs in uint8/16/32/64, int8 or "
            "int64 (poly or plain array on either side), the 64-bit ones mostly with values that differ only below float64 precision")
def compare_order(inp):
    import numpoly
    x, y = operand(inp["a"]), operand(inp["b"])
    bx, by = snapshot(x), snapshot(y)
    f, name, pred = OPS[inp["op"]]
    with numpoly.global_options(sort_graded=inp["graded"], sort_reverse=inp["reverse"]):
        if inp["via"] == "operator":
            r = f(x, y)
        elif inp["via"] == "numpoly":
            r = getattr(numpoly, name)(x, y)
        else:
            r = getattr(numpy, name)(x, y)
    names = _names(inp["a"], inp["b"])
    want = obj_map(lambda p, q: pred(poly_cmp(p, q, names, inp["graded"], inp["reverse"])),
                   operand_model(inp["a"]), operand_model(inp["b"]))
    r = numpy.asarray(r)
    if r.shape != want.shape:
        return f"shape {r.shape}, numpy broadcast shape {want.shape}"
    if r.dtype != bool:
        return f"dtype {r.dtype}"
    if not numpy.array_equal(r, want.astype(bool)):
        return f"result {r.tolist()} expected {want.astype(bool).tolist()}"
    return unchanged(bx, x, "left operand") or unchanged(by, y, "right operand")


def gen_ext(tier, rng):
    for _ in range(count(tier, 80, 800)):
        a, b = _pair(rng)
        if "poly" not in b:
            # (same coefficient type as the other side: numpy promotes uint64 with int64 to float64, which rounds 64-bit values)
            b = {"poly": rand_poly(rng, shape=(), dtype=a["poly"].get("dtype", "int64") if "poly" in a else b.get("dtype", "int64"),
                                   pool=[0, 1, 2, 5] if str(a.get("poly", b).get("dtype", "int64")).startswith("u") else None)}
        yield {"a": a, "b": b, "which": rng.choice(["maximum", "minimum"]), "via": rng.choice(["numpoly", "numpy"]),
               "graded": rng.random() < 0.5, "reverse": rng.random() < 0.5}


@check("C07", "extremum.selects_operand", gen_ext, functions=("numpoly.maximum", "numpoly.minimum", "numpoly.where"),
       note="bounded: same operand space; result element is the larger/smaller operand element under the selected order")
def extremum(inp):
    import numpoly
    install_poison()
    x, y = operand(inp["a"]), operand(inp["b"])
    with numpoly.global_options(sort_graded=inp["graded"], sort_reverse=inp["reverse"]):
        r = getattr(numpoly if inp["via"] == "numpoly" else numpy, inp["which"])(x, y)
    names = _names(inp["a"], inp["b"])
    sign = 1 if inp["which"] == "maximum" else -1
    want = obj_map(lambda p, q: p if sign * poly_cmp(p, q, names, inp["graded"], inp["reverse"]) > 0 else q,
                   operand_model(inp["a"]), operand_model(inp["b"]))
    return wf(r) or denotes(r, want)


def gen_laws(tier, rng):
    for _ in range(count(tier, 60, 600)):
        names = ["q0", "q1"][: rng.randint(1, 2)]
        ps = [{"poly": rand_poly(rng, shape=(), names=names, maxterms=2, maxexp=2, pool=[-1, 0, 1, 1])} for _ in range(3)]
        yield {"p": ps, "graded": rng.random() < 0.5, "reverse": rng.random() < 0.5}


@check("C07", "order_laws.sampled", gen_laws, functions=("numpoly.less", "numpoly.greater", "numpoly.equal"),
       note="bounded: trichotomy, complements, antisymmetry, transitivity on triples of 0-d polynomials")
def laws(inp):
    import numpoly
    a, b, c = (operand(s) for s in inp["p"])
    with numpoly.global_options(sort_graded=inp["graded"], sort_reverse=inp["reverse"]):
        lt, eq, gt = bool(a < b), bool(a == b), bool(a > b)
        if [lt, eq, gt].count(True) != 1:
            return f"trichotomy: a<b {lt}, a==b {eq}, a>b {gt}"
        if bool(a <= b) != (not gt) or bool(a >= b) != (not lt) or bool(a != b) != (not eq):
            return "complements disagree"
        if lt != bool(b > a) or gt != bool(b < a):
            return "antisymmetry: a<b differs from b>a"
        if lt and bool(b < c) and not bool(a < c):
            return "transitivity: a<b, b<c but not a<c"
        ma, mb = operand_model(inp["p"][0]), operand_model(inp["p"][1])
        if eq != (ma[()] == mb[()]):
            return f"== is {eq} but polynomials identical is {ma[()] == mb[()]}"
    return None
