"""C19 run-time contracts: leading-term queries, isconstant/tonumpy/todict/decompose/set_dimensions and the
sort proxy (sortable_proxy, argmax/argmin/amax/amin without axis) against the exact sparse-polynomial model.
Cross-check of the contracts of the leading-term functions; bounded stand-in for the proxy's tie behaviour."""
from __future__ import annotations
from fractions import Fraction
import numpy
from .common import check
from .gen import rand_poly, nested, count, INT_COEFFS, FLOAT_COEFFS
from .model import MPoly, build, spec_model, from_ndpoly, lead, mono_key, num, same, describe
from .wf import wf, denotes, snapshot, unchanged, install_poison

FLAGS = [(False, False), (False, True), (True, False), (True, True)]
SHAPES = [(), (1,), (2,), (3,), (5,), (2, 2), (2, 3), (2, 1, 2)]


def rand_spec(rng, shapes=SHAPES, kind=None):
    """C01 operand space plus the special elements the property names: zero elements, equal leading terms,
    negative leading coefficients, constants stored with (zero) non-constant columns or without a constant column."""
    kind = kind or rng.choice(["any", "any", "any", "few_values", "zero_elements", "constant", "constant_padded", "zero"])
    dtype = rng.choice(["int64", "int64", "float64"])
    shape = tuple(rng.choice(shapes))
    pool = {"few_values": [-1, 0, 1], "zero": [0]}.get(kind)
    if kind == "constant":
        D = rng.choice([1, 2])
        return {"names": ["q0", "q1"][:D], "exponents": [[0] * D], "dtype": dtype,
                "coefficients": [nested(rng, shape, FLOAT_COEFFS if dtype == "float64" else INT_COEFFS)]}
    s = rand_poly(rng, shape=shape, dtype=dtype, pool=pool, maxterms=4, force_const_row=kind == "constant_padded")
    if kind == "constant_padded":
        s["coefficients"] = [c if not any(e) else nested(rng, shape, [0]) for e, c in zip(s["exponents"], s["coefficients"])]
    if kind == "zero_elements" and shape:
        flat = [numpy.array(c, dtype=dtype).reshape(-1) for c in s["coefficients"]]
        for i in rng.sample(range(flat[0].size), max(1, flat[0].size // 2)):
            for c in flat:
                c[i] = 0
        s["coefficients"] = [c.reshape(shape).tolist() for c in flat]
    if rng.random() < 0.12:
        # tiny (but non-zero, exactly representable: 2**-30 < 1e-8) coefficients: non-constant however small
        def scale(c):
            return [scale(x) for x in c] if isinstance(c, list) else c * 2.0 ** -30
        s["coefficients"] = [c if not any(e) else scale(c) for e, c in zip(s["exponents"], s["coefficients"])]
        s["dtype"] = "float64"
    return s


def gen_flagged(n_quick, n_thorough, **kw):
    def gen(tier, rng):
        for _ in range(count(tier, n_quick, n_thorough)):
            s = rand_spec(rng, **kw)
            for g, r in FLAGS:
                yield {"p": s, "graded": g, "reverse": r}
    return gen


def gen_plain(n_quick, n_thorough, **kw):
    def gen(tier, rng):
        for _ in range(count(tier, n_quick, n_thorough)):
            yield {"p": rand_spec(rng, **kw)}
    return gen


def elements(model):
    return [model[idx] for idx in numpy.ndindex(*model.shape)]


def lead_key(m, names, g, r):
    """(order key of the leading exponent, leading coefficient); the zero polynomial has exponent 0, coefficient 0."""
    mono, c = lead(m, names, g, r)
    return (mono_key(mono or (), names, g, r), c)


SPACE = ("bounded: arrays of <=4 terms, <=3 indeterminates, exponents<=3, 8 shapes up to 6 elements, int64/float64 coefficients "
         "from 6-value pools (3-value pools for many ties), zero elements, all-zero arrays, constants with and without zero "
         "non-constant columns")


# ------------------------------------------------------------------ lead_exponent / lead_coefficient
@check("C19", "lead.exponent_and_coefficient", gen_flagged(150, 4000),
       functions=("numpoly.lead_exponent", "numpoly.lead_coefficient", "numpoly.glexsort"),
       note=SPACE + "; all four (graded, reverse) settings")
def lead_terms(inp):
    import numpoly
    install_poison()
    p, model = build(inp["p"]), spec_model(inp["p"])
    g, r = inp["graded"], inp["reverse"]
    names, before = tuple(p.names), snapshot(p)
    E = numpoly.lead_exponent(p, graded=g, reverse=r)
    C = numpoly.lead_coefficient(p, graded=g, reverse=r)
    E, C = numpy.asarray(E), numpy.asarray(C)
    if E.shape != model.shape + (len(names),):
        return f"lead_exponent shape {E.shape}, expected {model.shape + (len(names),)}"
    if C.shape != model.shape:
        return f"lead_coefficient shape {C.shape}, expected {model.shape}"
    for idx in numpy.ndindex(*model.shape):
        mono, c = lead(model[idx], names, g, r)
        d = dict(mono or ())
        want = [d.get(n, 0) for n in names]
        if [int(v) for v in E[idx]] != want:
            return f"element {idx} = {model[idx]!r}: lead_exponent {E[idx].tolist()}, expected {want} (graded={g}, reverse={r})"
        if num(C[idx]) != c:
            return f"element {idx} = {model[idx]!r}: lead_coefficient {C[idx]!r}, expected {c} (graded={g}, reverse={r})"
    return unchanged(before, p)


# ------------------------------------------------------------------ isconstant / tonumpy / todict
@check("C19", "isconstant_tonumpy.exact", gen_plain(300, 8000), functions=("numpoly.isconstant", "numpoly.tonumpy", "numpoly.ndpoly.isconstant",
                                                                            "numpoly.ndpoly.tonumpy"),
       note=SPACE + "; tonumpy must raise for a non-constant array and return the constant terms otherwise")
def isconstant_tonumpy(inp):
    import numpoly
    install_poison()
    p, model = build(inp["p"]), spec_model(inp["p"])
    want = all(m.is_const() for m in elements(model))
    for got in (numpoly.isconstant(p), p.isconstant()):
        if bool(got) != want:
            return f"isconstant {got!r}, expected {want} for {describe(model)}"
    for f in (numpoly.tonumpy, lambda x: x.tonumpy()):
        try:
            a = f(p)
        except Exception as e:
            if want:
                return f"tonumpy raised {type(e).__name__}: {e} for the constant array {describe(model)}"
            continue
        if not want:
            return f"tonumpy returned {a!r} for the non-constant array {describe(model)}"
        if not isinstance(a, numpy.ndarray) or isinstance(a, numpoly.ndpoly) or a.shape != model.shape:
            return f"tonumpy returned {type(a).__name__} of shape {numpy.shape(a)}, expected ndarray of shape {model.shape}"
        for idx in numpy.ndindex(*model.shape):
            if num(a[idx]) != model[idx].const_value():
                return f"tonumpy element {idx} is {a[idx]!r}, expected {model[idx].const_value()}"
    return None


@check("C19", "todict.exact", gen_plain(200, 5000), functions=("numpoly.ndpoly.todict",),
       note=SPACE + "; the dict's exponent keys with their coefficient arrays sum to the array")
def todict_exact(inp):
    install_poison()
    p, model = build(inp["p"]), spec_model(inp["p"])
    d = p.todict()
    got = numpy.empty(model.shape, dtype=object)
    for idx in numpy.ndindex(*model.shape):
        got[idx] = MPoly()
    for key, coef in d.items():
        if not isinstance(key, tuple) or len(key) != len(p.names):
            return f"key {key!r} is not an exponent tuple over {p.names}"
        coef = numpy.asarray(coef)
        if coef.shape != model.shape:
            return f"coefficient of {key} has shape {coef.shape}, expected {model.shape}"
        mono = MPoly.mono(p.names, key)
        for idx in numpy.ndindex(*model.shape):
            if coef[idx] != 0:
                got[idx] = got[idx] + MPoly({mono: num(coef[idx])})
    return None if same(got, model) else f"todict denotes {describe(got)}, expected {describe(model)}"


# ------------------------------------------------------------------ decompose
def gen_decompose(tier, rng):
    yield from gen_plain(150, 4000)(tier, rng)
    # coefficient types other than the default ones, and 64-bit integers that no float64 holds (the slices are the input's own
    # coefficients: nothing may pass through another type)
    for dt, pool in (("int64", [2 ** 53 + 1, -(2 ** 53) - 1, 2 ** 62 + 3, 5]), ("uint64", [2 ** 53 + 1, 2 ** 63 + 5, 2 ** 64 - 1, 7]),
                     ("int8", [-128, 127, 3]), ("uint8", [255, 200, 1]), ("int32", [2 ** 31 - 1, -7]), ("float32", [0.5, -1.5, 16777216.0])):
        for _ in range(count(tier, 4, 40)):
            yield {"p": rand_poly(rng, shape=tuple(rng.choice(SHAPES)), dtype=dt, pool=pool, maxterms=3)}


@check("C19", "decompose.slices", gen_decompose, functions=("numpoly.decompose", "numpoly.concatenate", "numpoly.polynomial_from_attributes"),
       note=SPACE + "; result has shape (k,)+shape, every slice holds at most one monomial, slices sum to the input; also int8/uint8/int32/"
       "float32 and 64-bit integer coefficients beyond 2**53; dtype of the result = dtype of the input")
def decompose_slices(inp):
    import numpoly
    install_poison()
    p, model = build(inp["p"]), spec_model(inp["p"])
    before = snapshot(p)
    r = numpoly.decompose(p)
    msg = wf(r)
    if msg:
        return msg
    if tuple(r.shape[1:]) != model.shape or r.ndim != len(model.shape) + 1:
        return f"shape {r.shape}, expected (k,)+{model.shape}"
    if r.dtype != p.dtype:
        return f"dtype {r.dtype}, the input has {p.dtype}"
    R = from_ndpoly(r)
    total = numpy.empty(model.shape, dtype=object)
    for idx in numpy.ndindex(*model.shape):
        total[idx] = MPoly()
    for t in range(r.shape[0]):
        monos = {m for e in elements(R[t]) for m in e.t} if model.shape else set(R[t].t)
        if len(monos) > 1:
            return f"slice {t} holds several monomials: {sorted(monos)}"
        for idx in numpy.ndindex(*model.shape):
            total[idx] = total[idx] + (R[(t,) + idx])
    if not same(total, model):
        return f"slices sum to {describe(total)}, expected {describe(model)}"
    return unchanged(before, p)


# ------------------------------------------------------------------ set_dimensions
def gen_setdim(tier, rng):
    for _ in range(count(tier, 80, 1500)):
        s = rand_spec(rng)
        for dims in [None, 1, 2, 3, 4, 5]:
            yield {"p": s, "dimensions": dims}


@check("C19", "set_dimensions.up_and_down", gen_setdim, functions=("numpoly.set_dimensions", "numpoly.polynomial_from_attributes"),
       note=SPACE + "; target dimensions 1..5 and None (= one more); up: old names kept, new unused names, same polynomial; "
            "down: names truncated, exactly the terms free of the dropped indeterminates survive (possibly none)")
def set_dimensions(inp):
    import numpoly
    install_poison()
    p, model = build(inp["p"]), spec_model(inp["p"])
    names, before = list(p.names), snapshot(p)
    dims = inp["dimensions"]
    r = numpoly.set_dimensions(p) if dims is None else numpoly.set_dimensions(p, dims)
    dims = len(names) + 1 if dims is None else dims
    msg = wf(r)
    if msg:
        return msg
    if len(r.names) != dims:
        return f"result has indeterminates {r.names}, expected {dims} of them"
    if dims >= len(names):
        if not set(names) <= set(r.names):
            return f"indeterminates {names} not kept: {r.names}"
        want = model
    else:
        if list(r.names) != names[:dims]:
            return f"indeterminates {r.names}, expected {names[:dims]}"
        gone = set(names[dims:])
        want = numpy.empty(model.shape, dtype=object)
        for idx in numpy.ndindex(*model.shape):
            want[idx] = MPoly({m: c for m, c in model[idx].t.items() if not any(n in gone for n, _ in m)})
    if r.dtype != p.dtype:
        return f"dtype {r.dtype}, input has {p.dtype}"
    return denotes(r, want) or unchanged(before, p)


# ------------------------------------------------------------------ sortable_proxy
def proxy_verdict(proxy, keys, shape, what):
    proxy = numpy.asarray(proxy)
    if proxy.shape != shape:
        return f"{what}: shape {proxy.shape}, expected {shape}"
    flat = [int(v) for v in proxy.reshape(-1)]
    if sorted(flat) != list(range(len(keys))):
        return f"{what}: {flat} is not a permutation of 0..{len(keys) - 1}"
    for i in range(len(keys)):
        for j in range(len(keys)):
            if keys[i] < keys[j] and not flat[i] < flat[j]:
                return f"{what}: element {i} {keys[i]} sorts before element {j} {keys[j]} but proxy is {flat[i]} >= {flat[j]} (proxy {flat})"
    return None


@check("C19", "sortable_proxy.order", gen_flagged(200, 5000), functions=("numpoly.sortable_proxy", "numpoly.lead_exponent", "numpoly.glexsort"),
       note=SPACE + "; all four (graded, reverse) settings; required: a permutation of 0..size-1 with proxy[i] < proxy[j] whenever "
            "(leading exponent, leading coefficient) of i is strictly smaller than that of j; elements with equal leading terms may "
            "get either order")
def proxy_order(inp):
    import numpoly
    install_poison()
    p, model = build(inp["p"]), spec_model(inp["p"])
    g, r = inp["graded"], inp["reverse"]
    before = snapshot(p)
    keys = [lead_key(m, tuple(p.names), g, r) for m in elements(model)]
    return proxy_verdict(numpoly.sortable_proxy(p, graded=g, reverse=r), keys, model.shape, "proxy") or unchanged(before, p)


def gen_numeric(tier, rng):
    for _ in range(count(tier, 300, 6000)):
        shape = tuple(rng.choice(SHAPES + [(7,), (3, 3), (12,)]))
        pool = rng.choice([[0, 1], [-1, 0, 1, 2], [-2.5, -1.0, 0.0, 0.5, 2.0, 3.0], list(range(-4, 5))])
        dtype = "float64" if isinstance(pool[0], float) else rng.choice(["int64", "float64"])
        yield {"array": nested(rng, shape, pool), "dtype": dtype, "graded": rng.random() < 0.5, "reverse": rng.random() < 0.5,
               "form": rng.choice(["polynomial", "padded", "ndarray"])}


def numeric_operand(inp):
    import numpoly
    a = numpy.array(inp["array"], dtype=inp["dtype"])
    if inp["form"] == "ndarray":
        return a, a
    if inp["form"] == "padded":     # constant stored with an all-zero non-constant column
        return a, numpoly.polynomial_from_attributes([[0, 0], [1, 2]], [a, numpy.zeros_like(a)], ("q0", "q1"),
                                                     retain_coefficients=True, retain_names=True)
    return a, numpoly.polynomial(a)


@check("C19", "sortable_proxy.constants_numeric_order", gen_numeric, functions=("numpoly.sortable_proxy",),
       note="bounded: constant arrays of up to 12 elements with repeats, negatives, zeros, ints and floats, given as ndpoly, as ndpoly "
            "with a zero non-constant column, or as ndarray; permutation with proxy[i] < proxy[j] whenever value i < value j "
            "(equal values: either order)")
def proxy_constants(inp):
    import numpoly
    install_poison()
    a, p = numeric_operand(inp)
    keys = [Fraction(float(v)) for v in a.reshape(-1)]
    return proxy_verdict(numpoly.sortable_proxy(p, graded=inp["graded"], reverse=inp["reverse"]), keys, a.shape, "proxy")


# ------------------------------------------------------------------ argmax / argmin / amax / amin without axis
def gen_extreme(tier, rng):
    for _ in range(count(tier, 120, 3000)):
        s = rand_spec(rng, shapes=[s for s in SHAPES if s])
        for g, r in FLAGS:
            yield {"p": s, "graded": g, "reverse": r, "which": rng.choice(["max", "min"]), "via": rng.choice(["numpoly", "numpy", "method"])}


def _call(name, p, via):
    import numpoly
    if via == "method" and name in ("max", "min"):
        return getattr(p, name)()
    fn = {"max": "amax", "min": "amin"}.get(name, name)
    return getattr(numpoly, fn)(p) if via != "numpy" else getattr(numpy, name)(p)


@check("C19", "argmax_argmin.extreme_for_proxy", gen_extreme, functions=("numpoly.argmax", "numpoly.argmin", "numpoly.sortable_proxy"),
       note=SPACE + " (non-scalar shapes); all four sort_graded/sort_reverse settings; the flat index returned selects an element "
            "whose (leading exponent, leading coefficient) is not exceeded (argmax) / undercut (argmin) by any other element")
def arg_extreme(inp):
    import numpoly
    install_poison()
    p, model = build(inp["p"]), spec_model(inp["p"])
    g, r, which = inp["graded"], inp["reverse"], inp["which"]
    keys = [lead_key(m, tuple(p.names), g, r) for m in elements(model)]
    with numpoly.global_options(sort_graded=g, sort_reverse=r):
        i = _call("arg" + which, p, inp["via"] if inp["via"] != "method" else "numpoly")
    if not isinstance(i, (int, numpy.integer)) or not 0 <= int(i) < len(keys):
        return f"arg{which} returned {i!r}, expected a flat index below {len(keys)}"
    best = max(keys) if which == "max" else min(keys)
    if keys[int(i)] != best:
        return f"arg{which} = {int(i)} selects {elements(model)[int(i)]!r} with leading term {keys[int(i)]}, but an element has {best}"
    return None


@check("C19", "amax_amin.extreme_for_proxy", gen_extreme, functions=("numpoly.amax", "numpoly.amin", "numpoly.ndpoly.max", "numpoly.ndpoly.min",
                                                                      "numpoly.sortable_proxy", "numpoly.reshape"),
       note=SPACE + " (non-scalar shapes); all four sort settings; the 0-d result equals an element of the array whose leading "
            "term is extreme")
def amax_extreme(inp):
    import numpoly
    install_poison()
    p, model = build(inp["p"]), spec_model(inp["p"])
    g, r, which = inp["graded"], inp["reverse"], inp["which"]
    names = tuple(p.names)
    keys = [lead_key(m, names, g, r) for m in elements(model)]
    with numpoly.global_options(sort_graded=g, sort_reverse=r):
        v = _call(which, p, inp["via"])
    msg = wf(v)
    if msg:
        return msg
    if v.shape != ():
        return f"a{which} without axis has shape {v.shape}"
    got = from_ndpoly(v)[()]
    if got not in elements(model):
        return f"a{which} returned {got!r}, which is not an element of {describe(model)}"
    best = max(keys) if which == "max" else min(keys)
    if lead_key(got, names, g, r) != best:
        return f"a{which} returned {got!r} with leading term {lead_key(got, names, g, r)}, but an element has {best}"
    return None


def gen_ties(tier, rng):
    for inp in gen_numeric(tier, rng):
        if numpy.size(inp["array"]) > 1:
            yield dict(inp, which=rng.choice(["max", "min"]), via=rng.choice(["numpoly", "numpy"]))


@check("C19", "argmax_argmin.constant_ties_first_occurrence", gen_ties, functions=("numpoly.argmax", "numpoly.argmin", "numpoly.sortable_proxy"),
       note="tie clause (shared with C11): on constant arrays (same space as sortable_proxy.constants_numeric_order, >=2 elements) "
            "argmax/argmin without axis return numpy's index, i.e. the first occurrence of the extreme value; amax/amin return numpy's value")
def arg_ties(inp):
    import numpoly
    install_poison()
    a, p = numeric_operand(inp)
    if inp["form"] == "ndarray":
        p = numpoly.polynomial(a)
    which = inp["which"]
    with numpoly.global_options(sort_graded=inp["graded"], sort_reverse=inp["reverse"]):
        i = _call("arg" + which, p, inp["via"])
        v = _call(which, p, inp["via"])
    want = int(getattr(numpy, "arg" + which)(a))
    if int(i) != want:
        return f"arg{which}({a.tolist()}) = {int(i)}, numpy gives {want}"
    got = from_ndpoly(numpoly.aspolynomial(v))
    if got.shape != () or got[()] != MPoly.const(a.reshape(-1)[want]):
        return f"a{which}({a.tolist()}) = {describe(got)}, numpy gives {a.reshape(-1)[want]!r}"
    return None
