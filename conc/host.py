"""Entry point of the run-time side (run with /venv/bin/python):

    host.py bounded <PROP> --tier quick|thorough --seed N --out FILE [--focus f1,f2] [--only c1,c2]
    host.py replay FILE            exit 1 if the recorded input still violates its clause
    host.py signatures --out FILE  inspect.signature of the numpy callables the wrappers forward to
"""
from __future__ import annotations
import argparse
import importlib
import json
import os
import sys

HERE = os.path.dirname(os.path.abspath(__file__))
sys.path.insert(0, os.path.dirname(HERE))

from conc import common  # noqa: E402  (sets sys.path for the tree under test)

def _discover():
    """checks_c07.py, checks_c07_extra.py ... -> property C07"""
    import glob
    import re
    mods = {}
    for path in sorted(glob.glob(os.path.join(HERE, "checks_c*.py"))):
        name = os.path.basename(path)[:-3]
        m = re.match(r"checks_c(\d\d)", name)
        if m:
            mods.setdefault(f"C{m.group(1)}", []).append(name)
    return mods


MODULES = _discover()


def load(prop):
    for m in MODULES.get(prop, []):
        importlib.import_module(f"conc.{m}")


def load_all():
    for p in list(MODULES):
        load(p)


def main():
    ap = argparse.ArgumentParser()
    sub = ap.add_subparsers(dest="cmd", required=True)
    b = sub.add_parser("bounded")
    b.add_argument("prop")
    b.add_argument("--tier", default="quick")
    b.add_argument("--seed", type=int, default=0)
    b.add_argument("--out", required=True)
    b.add_argument("--focus", default="")
    b.add_argument("--only", default="")
    r = sub.add_parser("replay")
    r.add_argument("file")
    s = sub.add_parser("signatures")
    s.add_argument("--out", required=True)
    a = ap.parse_args()
    if a.cmd == "bounded":
        load(a.prop)
        res = common.run_checks(a.prop, a.tier, a.seed, focus=[f for f in a.focus.split(",") if f],
                                only=[c for c in a.only.split(",") if c])
        with open(a.out, "w") as fh:
            json.dump(res, fh, default=str)
        return 0
    if a.cmd == "replay":
        rec = json.load(open(a.file))
        if rec.get("kind") != "concrete":
            print(f"replay file carries no concrete input (obligation {rec.get('obligation')}); "
                  "re-run the property check to re-pose the obligation")
            return 2
        load(rec["property"])
        chk = common.CHECKS[rec["check"]]
        res = common.run_one(chk, rec["input"])
        if res is None:
            print(f"replay: clause {rec['check']} holds on the recorded input (current tree)")
            return 0
        print(f"replay: clause {rec['check']} VIOLATED on the recorded input:\n{res}")
        return 1
    if a.cmd == "signatures":
        import inspect
        import numpy
        out = {}
        for name in dir(numpy):
            f = getattr(numpy, name)
            if callable(f):
                try:
                    out[f"numpy.{name}"] = [p.name for p in inspect.signature(f).parameters.values()]
                except (ValueError, TypeError):
                    pass
        out["__numpy_version__"] = numpy.__version__
        json.dump(out, open(a.out, "w"))
        return 0


if __name__ == "__main__":
    sys.exit(main())
