"""C14 run-time contracts: option histories against the stack model (bounded cross-check of the
proved rules; also the CPython cross-check of the engine for option.py)."""
from __future__ import annotations
import itertools
from .common import check

VALID = [("retain_names", False), ("sort_graded", False), ("default_varname", "z"), ("display_inverse", False)]
BAD = ("no_such_option", 1)
ATOMS = ["set0", "set1", "setbad", "setmixed", "mutate_copy", "with0", "with1", "withbad", "withmixed"]


def programs(depth):
    """All operation trees up to `depth` atoms.  A `with` atom takes a body (list) and an exit kind."""
    def gen(d):
        if d == 0:
            yield []
            return
        yield []
        for a in ATOMS:
            if a.startswith("with") and a not in ("withbad", "withmixed"):
                for nbody in range(0, d):
                    for body in gen_exact(nbody):
                        # ways out of the block: normally, by an ordinary exception, by an exception that is NOT an Exception
                        # (KeyboardInterrupt-like), by closing a generator that is suspended inside the block (GeneratorExit)
                        for ex in ("normal", "raise", "raise_base", "close"):
                            for rest in gen(d - 1 - nbody):
                                yield [[a, body, ex]] + rest
            else:
                for rest in gen(d - 1):
                    yield [[a, [], "normal"]] + rest

    def gen_exact(n):
        for p in gen(n):
            if size(p) == n:
                yield p

    def size(p):
        return sum(1 + size(op[1]) for op in p)
    seen = set()
    for p in gen(depth):
        k = repr(p)
        if k not in seen:
            seen.add(k)
            yield p


def gen(tier, rng):
    depth = 4 if tier == "thorough" else 3
    progs = list(programs(depth))
    if tier != "thorough":
        rng.shuffle(progs)
        progs = progs[:400]
    for p in progs:
        yield {"program": p}


class Boom(Exception):
    pass


class Abort(BaseException):
    pass


def kw_of(atom):
    if atom.endswith("0"):
        return dict([VALID[0]])
    if atom.endswith("1"):
        return dict([VALID[1], VALID[2]])
    if atom.endswith("bad"):
        return dict([BAD])
    return dict([VALID[3], BAD])


def run(program, model, numpoly, trace):
    for atom, body, exit_kind in program:
        before = dict(model)
        if atom == "mutate_copy":
            c = numpoly.get_options()
            c["retain_names"] = "garbage"
            c["new_key"] = 1
            d = numpoly.get_options(defaults=True)
            d["sort_graded"] = "garbage"
        elif atom.startswith("set"):
            kw = kw_of(atom)
            try:
                numpoly.set_options(**kw)
                if any(k not in model for k in kw):
                    return f"set_options({kw}) accepted an unknown option"
                model.update(kw)
            except KeyError:
                if all(k in model for k in kw):
                    return f"set_options({kw}) raised KeyError for known options"
        else:
            kw = kw_of(atom)
            entered = False
            if exit_kind == "close" and all(k in model for k in kw):
                # a generator suspended inside the block is closed: GeneratorExit is raised at its yield
                def held():
                    with numpoly.global_options(**kw):
                        yield numpoly.get_options()
                g = held()
                want = dict(before)
                want.update(kw)
                if next(g) != want:
                    return f"inside a generator-held global_options({kw}): options differ from {want}"
                r = run(body, dict(want), numpoly, trace)
                if r:
                    return r
                g.close()
                if numpoly.get_options() != before:
                    return f"after closing a generator suspended inside global_options({kw}): {numpoly.get_options()} != previous {before}"
                continue
            try:
                with numpoly.global_options(**kw) as inside:
                    entered = True
                    if any(k not in model for k in kw):
                        return f"global_options({kw}) entered the block with an unknown option"
                    want = dict(before)
                    want.update(kw)
                    if numpoly.get_options() != want:
                        return f"inside global_options({kw}): options {numpoly.get_options()} != {want}"
                    if inside != want:
                        return f"global_options yielded {inside} != {want}"
                    inner = dict(want)
                    r = run(body, inner, numpoly, trace)
                    if r:
                        return r
                    if exit_kind == "raise":
                        raise Boom()
                    if exit_kind == "raise_base":
                        raise Abort()
            except (Boom, Abort):
                pass
            except KeyError:
                if entered or all(k in model for k in kw):
                    return f"global_options({kw}) raised KeyError unexpectedly"
            # complete previous option set restored
            if numpoly.get_options() != before:
                return f"after global_options({kw}) exit={exit_kind}: {numpoly.get_options()} != previous {before}"
        got = numpoly.get_options()
        if got != model:
            return f"after {atom}: options {got} != model {model}"
    return None


@check("C14", "history.stack_model", gen, functions=("numpoly.get_options", "numpoly.set_options", "numpoly.global_options"),
       note="bounded: all operation trees up to depth 4 (thorough) / 400 sampled of depth<=3 (quick)")
def history(inp):
    import numpoly
    shipped = numpoly.get_options(defaults=True)
    start = numpoly.get_options()
    model = dict(start)
    try:
        r = run(inp["program"], model, numpoly, [])
        if r:
            return r
        if numpoly.get_options(defaults=True) != shipped:
            return "get_options(defaults=True) changed"
        a, b = numpoly.get_options(), numpoly.get_options()
        if a is b:
            return "get_options() returned the same object twice (not a detached copy)"
    finally:
        numpoly.set_options(**start)
    return None


# ------------------------------------------------------------------ managers made before they are entered
def gen_prepared(tier, rng):
    kws = [dict([VALID[0]]), dict([VALID[1], VALID[2]]), dict([VALID[3]]), {}]
    between = [None, dict([VALID[0]]), dict([VALID[2]]), dict([VALID[1], VALID[3]])]
    for a in range(len(kws)):
        for b in range(len(kws)):
            for s in range(len(between)):
                for shape in ("single", "nested", "exitstack", "reentered_later"):
                    for ex in ("normal", "raise"):
                        yield {"a": a, "b": b, "between": s, "shape": shape, "exit": ex}


@check("C14", "history.prepared_managers", gen_prepared, functions=("numpoly.global_options", "numpoly.set_options", "numpoly.get_options"),
       note="exhaustive over 4 x 4 option sets x 4 set_options calls in between x 4 shapes x 2 exits: the object global_options(...) returns is "
            "made first and entered later (alone after a set_options call, two prepared managers nested, both on a contextlib.ExitStack, "
            "entered after another block was opened and closed); the block applies its options to what is in force AT ENTRY and the exit "
            "restores exactly that")
def prepared_managers(inp):
    import contextlib
    import numpoly
    kws = [dict([VALID[0]]), dict([VALID[1], VALID[2]]), dict([VALID[3]]), {}]
    between = [None, dict([VALID[0]]), dict([VALID[2]]), dict([VALID[1], VALID[3]])]
    ka, kb, ks = kws[inp["a"]], kws[inp["b"]], between[inp["between"]]
    start = numpoly.get_options()

    def upd(base, kw):
        out = dict(base)
        out.update(kw)
        return out

    def leave():
        if inp["exit"] == "raise":
            raise Boom()
    try:
        cm_a = numpoly.global_options(**ka)
        cm_b = numpoly.global_options(**kb)
        if ks is not None:
            numpoly.set_options(**ks)
        entry = upd(start, ks or {})
        if numpoly.get_options() != entry:
            return f"making two managers and set_options({ks}) left {numpoly.get_options()}, expected {entry}"
        try:
            if inp["shape"] == "single":
                with cm_a:
                    if numpoly.get_options() != upd(entry, ka):
                        return f"inside a manager made before set_options({ks}): {numpoly.get_options()} != {upd(entry, ka)}"
                    leave()
            elif inp["shape"] == "nested":
                with cm_a:
                    with cm_b:
                        if numpoly.get_options() != upd(upd(entry, ka), kb):
                            return f"inside two prepared managers: {numpoly.get_options()} != {upd(upd(entry, ka), kb)}"
                    if numpoly.get_options() != upd(entry, ka):
                        return (f"the inner prepared block ({kb}) has ended, the outer one ({ka}) is still open: options "
                                f"{numpoly.get_options()}, expected {upd(entry, ka)}")
                    leave()
            elif inp["shape"] == "exitstack":
                with contextlib.ExitStack() as stack:
                    stack.enter_context(cm_a)
                    stack.enter_context(cm_b)
                    if numpoly.get_options() != upd(upd(entry, ka), kb):
                        return f"inside an ExitStack of two prepared managers: {numpoly.get_options()} != {upd(upd(entry, ka), kb)}"
                    leave()
            else:
                with numpoly.global_options(**kb):
                    pass
                with cm_a:
                    if numpoly.get_options() != upd(entry, ka):
                        return f"inside a prepared manager entered after another block: {numpoly.get_options()} != {upd(entry, ka)}"
                    leave()
        except Boom:
            pass
        if numpoly.get_options() != entry:
            return (f"after the prepared blocks ({inp['shape']}, exit {inp['exit']}): options {numpoly.get_options()}; in force when the first "
                    f"block was entered: {entry}")
    finally:
        numpoly.set_options(**start)
    return None


# ------------------------------------------------------------------ an unknown name among any number of valid ones
def gen_reject_counts(tier, rng):
    for k in range(0, 13):
        for via in ("set_options", "global_options"):
            for inside in (False, True):
                for bad in ("no_such_option", "retain_name", "Sort_graded"):
                    yield {"k": k, "via": via, "inside_block": inside, "bad": bad, "pick": rng.random()}


@check("C14", "rejection.unknown_name_among_k_valid_ones", gen_reject_counts, functions=("numpoly.set_options", "numpoly.global_options"),
       note="exhaustive: k = 0..12 valid options (k = 11 makes a call with as many keywords as there are options) plus ONE unknown name, "
            "through set_options and global_options, at top level and inside an open block: KeyError, and no option - valid or not - is "
            "changed or added")
def reject_counts(inp):
    import random
    import numpoly
    start = numpoly.get_options()
    names = sorted(start)
    rng = random.Random(inp["pick"])
    valid = rng.sample(names, min(inp["k"], len(names)))
    flip = lambda v: (not v) if isinstance(v, bool) else (v + "x")
    kw = {n: flip(start[n]) for n in valid}
    kw[inp["bad"]] = True

    def attempt():
        before = numpoly.get_options()
        try:
            if inp["via"] == "set_options":
                numpoly.set_options(**kw)
            else:
                with numpoly.global_options(**kw):
                    return f"global_options entered its block with the unknown option {inp['bad']!r} among {len(kw)} keywords"
        except KeyError:
            after = numpoly.get_options()
            return None if after == before else f"{inp['via']} rejected {inp['bad']!r} but changed the options: {before} -> {after}"
        return f"{inp['via']} accepted the unknown option {inp['bad']!r} among {len(kw)} keywords; options now {numpoly.get_options()}"
    try:
        if inp["inside_block"]:
            with numpoly.global_options(retain_names=not start["retain_names"]):
                r = attempt()
        else:
            r = attempt()
        if r is None and numpoly.get_options() != start:
            r = f"options after the rejected call (and the enclosing block): {numpoly.get_options()} != {start}"
        return r
    finally:
        live = numpoly.get_options()
        for key in list(live):
            if key not in start:      # an unknown key that slipped in: remove it from the live dictionary for the next input
                from numpoly import option as _o
                _o._NUMPOLY_OPTIONS.pop(key, None)
        numpoly.set_options(**start)
