"""C10 run-time contracts (bounded stand-ins): reductions and linear algebra on polynomial arrays equal
finite sums and products of their elements.  Oracle: explicit index loops over the object array of
model polynomials in exact (Fraction) arithmetic; never numpoly itself."""
from __future__ import annotations
import functools
import itertools
import operator
from fractions import Fraction
import numpy
from .common import check
from .gen import rand_poly, nested, count
from .model import operand, operand_model, from_ndpoly, MPoly
from .wf import wf, denotes, snapshot, unchanged, install_poison, double_through_a_view

SHAPES = [s for d in range(4) for s in itertools.product((1, 2, 3), repeat=d)]
LAYOUTS = ("C", "T", "F")
NAMESETS = [["q0"], ["q1"], ["q0", "q1"], ["q1", "q2"], ["q0", "q1", "q2"], ["q2"]]
BOUNDS = ("bounded: arrays of 0-3 dimensions with extents 1..3, laid out C-ordered / as transposed view p.T / as Fortran-ordered copy, "
          "int64 and float64 (multiples of 1/2) coefficients, 1-3 indeterminates, <=3 terms, exponents <=3; ")


def rpoly(rng, shape, layout="C", dtype=None, **kw):
    shape = tuple(shape)[::-1] if layout == "T" else tuple(shape)
    return {"poly": rand_poly(rng, shape=shape, dtype=dtype or rng.choice(["int64", "int64", "float64"]), **kw)}


def other(rng, shape, layout="C", **kw):
    """a second operand: mostly a polynomial over other indeterminates, sometimes a plain int array / number"""
    if rng.random() < 0.8:
        return rpoly(rng, shape, layout, names=rng.choice(NAMESETS), **kw)
    return {"array": nested(rng, tuple(shape), [-1, 0, 2]), "dtype": "int64"} if shape else {"num": rng.choice([-1, 2, 3])}


def make(spec, layout="C"):
    """(operand, model, description of a broken input or None)"""
    x, m = operand(spec), operand_model(spec)
    if "poly" in spec and layout != "C":
        x, m = (x.T, m.T) if layout == "T" else (x.copy(order="F"), m.copy(order="F"))
    return x, m, (wf(x, "input") or denotes(x, m, f"input in layout {layout}")) if "poly" in spec else None


def make_all(specs, layouts):
    made = [make(s, l) for s, l in zip(specs, layouts)]
    return [t[0] for t in made], [t[1] for t in made], next((t[2] for t in made if t[2]), None)


class Raised:
    def __init__(self, e):
        self.text = f"{type(e).__name__}: {str(e)[:160]}"


def attempt(f, *a, **k):
    """the call's result, or Raised: an exception where numpy accepts the arguments is a violation, not a crash of the check"""
    try:
        return f(*a, **k)
    except Exception as e:
        return Raised(e)


def agree(r, want, what, exact=True):
    """r is an ndpoly of the expected shape denoting `want`; exact=False: up to float64 rounding of the division (mean)"""
    import numpoly
    want = numpy.array(want, dtype=object)
    if isinstance(r, Raised):
        return f"{what}: numpoly raised {r.text} where numpy returns shape {want.shape}"
    if not isinstance(r, numpoly.ndpoly):
        return f"{what}: {type(r).__name__} instead of ndpoly"
    if tuple(r.shape) != want.shape:
        return f"{what}: shape {tuple(r.shape)}, numpy gives {want.shape}"
    if not want.size:
        return None
    try:
        if exact:
            return wf(r, what) or denotes(r, want, what)
        got = from_ndpoly(r)
    except Exception as e:
        return f"{what}: cannot be read as a polynomial array ({type(e).__name__}: {e})"
    for idx in numpy.ndindex(*want.shape):
        for mono in set(got[idx].t) | set(want[idx].t):
            g, w = got[idx].t.get(mono, Fraction(0)), want[idx].t.get(mono, Fraction(0))
            if abs(g - w) > Fraction(1, 10 ** 12) * max(1, abs(w)):
                return f"{what}: element {idx} is {got[idx]!r}, exact value {want[idx]!r}"
    return wf(r, what)


def msum(items):
    return functools.reduce(operator.add, items, MPoly())


def mprod(items):
    return functools.reduce(operator.mul, items, MPoly.const(1))


def put(idx, axis, k):
    return idx[:axis] + (k,) + idx[axis + 1:]


# ------------------------------------------------------------------ sum / prod / mean / cumsum and the ufunc-method spellings
def fold(m, axis, keepdims, f):
    """f over the elements along `axis` (None: all, int, tuple) of the model array"""
    axes = tuple(range(m.ndim)) if axis is None or not m.ndim else tuple(sorted({a % m.ndim for a in ([axis] if isinstance(axis, int) else axis)}))
    shape = tuple(1 if i in axes else n for i, n in enumerate(m.shape))
    out = numpy.empty(shape, dtype=object)
    for idx in numpy.ndindex(*shape):
        cells = []
        for sub in itertools.product(*[range(m.shape[a]) for a in axes]):
            full = list(idx)
            for a, k in zip(axes, sub):
                full[a] = k
            cells.append(m[tuple(full)])
        out[idx] = f(cells)
    return out if keepdims else out.reshape([n for i, n in enumerate(m.shape) if i not in axes])


def cumulate(m, axis):
    if axis is None:
        m, axis = m.reshape(-1), 0                  # numpy flattens in C order
    axis %= m.ndim
    out = numpy.empty(m.shape, dtype=object)
    for idx in numpy.ndindex(*m.shape):
        out[idx] = msum(m[put(idx, axis, j)] for j in range(idx[axis] + 1))
    return out


VIAS = {"sum": ("numpoly", "numpy", "method", "add.reduce"), "prod": ("numpoly", "numpy", "method"), "mean": ("numpoly", "numpy", "method"),
        "cumsum": ("numpoly", "numpy", "method", "add.accumulate")}


def call(via, fn, x, kw):
    import numpoly
    if via == "method":
        return getattr(x, fn)(**kw)
    if via.startswith("add."):
        return getattr(numpy.add, via[4:])(x, **kw)
    return getattr(numpoly if via == "numpoly" else numpy, fn)(x, **kw)


def untuple(kw):
    return {k: tuple(v) if isinstance(v, list) else v for k, v in kw.items()}


def gen_fold(fn):
    def gen(tier, rng):
        space = []
        for s in SHAPES:
            nd = len(s)
            axes = [{}, {"axis": None}] + [{"axis": a} for a in range(-nd, nd)]
            if fn != "cumsum":
                axes += [{"axis": list(c)} for k in range(nd + 1) for c in itertools.combinations(range(nd), k)] + [{"axis": [-1, 0]}] * (nd > 1)
            for ax, keep, via in itertools.product(axes, [{}] if fn == "cumsum" else [{}, {"keepdims": True}, {"keepdims": False}], VIAS[fn]):
                kw = dict(ax, **keep)
                try:
                    call("numpy" if via == "numpoly" else via, fn, numpy.ones(s), untuple(kw))       # numpy accepts these arguments for this shape
                except Exception:
                    continue
                default = 0 if via.startswith("add.") else None
                n = int(numpy.prod(numpy.ones(s).sum(axis=untuple(kw).get("axis", default), keepdims=True).shape))
                if fn != "prod" or numpy.prod(s, dtype=int) // n <= 9:       # at most 9 factors per product
                    space.append((s, kw, via))
        for s, kw, via in (space if tier == "thorough" else rng.sample(space, 150)):
            lay, small = rng.choice(LAYOUTS), {"maxterms": 2, "maxexp": 2} if fn == "prod" else {}
            yield {"fn": fn, "a": rpoly(rng, s, lay, **small), "layout": lay, "kw": kw, "via": via}
    return gen


def folded(inp):
    install_poison()
    x, m, bad = make(inp["a"], inp["layout"])
    if bad:
        return bad
    fn, via, kw, before = inp["fn"], inp["via"], untuple(inp["kw"]), snapshot(x)
    axis = kw.get("axis", 0 if via.startswith("add.") and m.ndim else None)
    if fn == "cumsum":
        want = cumulate(m, axis)
    elif fn == "mean":
        want = fold(m, axis, kw.get("keepdims", False), lambda cells: msum(cells).scale(Fraction(1, len(cells))))
    else:
        want = fold(m, axis, kw.get("keepdims", False), msum if fn == "sum" else mprod)
    r = attempt(call, via, fn, x, kw)
    msg = agree(r, want, f"{fn} spelled {via} with {inp['kw']}", exact=fn != "mean") or unchanged(before, x)
    if msg or not x.size or inp["layout"] == "F":
        return msg
    # the same call once more after every coefficient was doubled in place through a view of the same memory: the result
    # is the sum / product of the elements the array holds NOW (a value remembered from the first call would be stale)
    double_through_a_view(x)
    m2 = numpy.empty(m.size, dtype=object)
    for k, cell in enumerate(m.reshape(-1)):
        m2[k] = cell + cell
    m2 = m2.reshape(m.shape)
    if fn == "cumsum":
        want2 = cumulate(m2, axis)
    elif fn == "mean":
        want2 = fold(m2, axis, kw.get("keepdims", False), lambda cells: msum(cells).scale(Fraction(1, len(cells))))
    else:
        want2 = fold(m2, axis, kw.get("keepdims", False), msum if fn == "sum" else mprod)
    r2 = attempt(call, via, fn, x, kw)
    return agree(r2, want2, f"{fn} spelled {via} with {inp['kw']}, called again after the array was doubled in place through the view x.T",
                 exact=fn != "mean")


for _fn in VIAS:
    check("C10", f"{_fn}.finite_{'product' if _fn == 'prod' else 'sum'}", gen_fold(_fn), functions=(f"numpoly.{_fn}", "numpoly.ndpoly.__array_ufunc__"),
          note=BOUNDS + f"every axis argument numpy accepts (omitted, None, each int -ndim..ndim-1" + ("" if _fn == "cumsum" else ", every tuple of axes incl. ()")
          + ")" + ("" if _fn == "cumsum" else " x keepdims omitted/True/False") + f"; spellings {'/'.join(VIAS[_fn])} (omitted axis means 0 for the "
          f"numpy.add.* spellings)" + ("; <=2 terms, exponents <=2, <=9 factors per product" if _fn == "prod" else "")
          + ("; compared up to float64 rounding of the division" if _fn == "mean" else "") + "; each call is repeated after every coefficient was doubled in place through a view (result follows the current elements)"
          + "; thorough tier exhaustive over shape x arguments x spelling")(folded)


# ------------------------------------------------------------------ diff / ediff1d
def differences(m, n, axis):
    for _ in range(n):
        out = numpy.empty(put(m.shape, axis, max(m.shape[axis] - 1, 0)), dtype=object)
        for idx in numpy.ndindex(*out.shape):
            out[idx] = m[put(idx, axis, idx[axis] + 1)] - m[idx]
        m = out
    return m


def gen_diff(tier, rng, zero=False):
    """zero: ONLY the cases whose result has size 0 (n > 0 and n >= extent along the axis incl. prepend/append); otherwise none of them"""
    extent = {None: 0, "scalar": 1, 1: 1, 2: 2}
    space = [(s, n, ax, pre, app) for s in SHAPES if s for n in range(4) for ax in [None] + list(range(-len(s), len(s)))
             for pre in (None, "scalar", 1, 2) for app in (None, "scalar", 1, 2)
             if (0 < n >= s[-1 if ax is None else ax] + extent[pre] + extent[app]) == zero]
    for s, n, ax, pre, app in (space if tier == "thorough" else rng.sample(space, 80 if zero else 250)):
        lay = rng.choice(LAYOUTS)
        ends = [None if e is None else other(rng, () if e == "scalar" else put(s, (-1 if ax is None else ax) % len(s), e)) for e in (pre, app)]
        kw = dict({} if n == 1 and rng.random() < 0.5 else {"n": n}, **({} if ax is None else {"axis": ax}))
        yield {"a": rpoly(rng, s, lay), "layout": lay, "kw": kw, "prepend": ends[0], "append": ends[1], "via": rng.choice(["numpoly", "numpy"])}


def diff(inp):
    import numpoly
    install_poison()
    specs = [inp["a"]] + [inp[k] for k in ("prepend", "append") if inp[k] is not None]
    xs, ms, bad = make_all(specs, [inp["layout"]] + ["C"] * 2)
    if bad:
        return bad
    before = [snapshot(x) for x in xs]
    kw, axis = dict(inp["kw"]), inp["kw"].get("axis", -1) % ms[0].ndim
    parts = {"a": ms[0]}
    for key, x, m in zip([k for k in ("prepend", "append") if inp[k] is not None], xs[1:], ms[1:]):
        kw[key], parts[key] = x, numpy.broadcast_to(m, put(ms[0].shape, axis, 1)) if not m.ndim else m
    n = inp["kw"].get("n", 1)       # numpy returns the array itself for n=0, before looking at prepend/append
    whole = numpy.concatenate([parts[k] for k in ("prepend", "a", "append") if k in parts], axis=axis) if n else ms[0]
    r = attempt((numpoly if inp["via"] == "numpoly" else numpy).diff, xs[0], **kw)
    return (agree(r, differences(whole, n, axis), f"diff with {inp['kw']}")
            or next((e for e in (unchanged(b, x, f"operand {i}") for i, (b, x) in enumerate(zip(before, xs))) if e), None))


DIFF = ("every axis (and omitted = last), prepend/append each omitted, a 0-d operand, or an array with extent 1 or 2 along the axis; prepend/append "
        "polynomials over other indeterminates, plain int arrays or numbers; spellings numpoly/numpy; thorough tier exhaustive over shape x n x "
        "axis x prepend/append kinds; ")
check("C10", "diff.differences", gen_diff, functions=("numpoly.diff",),
      note=BOUNDS + DIFF + "n in 0..3 (n=0 returns the array itself, like numpy) as long as the result is non-empty")(diff)
check("C10", "diff.size0", lambda tier, rng: gen_diff(tier, rng, True), functions=("numpoly.diff",),
      note=BOUNDS + DIFF + "ONLY n in 1..3 at least as large as the extent along the axis (prepend/append included): result of size 0")(diff)


def gen_ediff(tier, rng, zero=False):
    shapes = [s for s in SHAPES if (numpy.prod(s, dtype=int) == 1) == zero]       # zero: size-1 arrays have no consecutive differences
    for _ in range(count(tier, 30, 300) if zero else count(tier, 120, 1500)):
        lay = rng.choice(LAYOUTS)
        a = rpoly(rng, rng.choice(shapes), lay)       # numpy wants to_end/to_begin castable to the array's dtype: same dtype, or plain ints
        ends = [None if rng.random() < 0.5 else other(rng, rng.choice([(), (1,), (2,), (2, 2)]), dtype=a["poly"]["dtype"]) for _ in range(2)]
        yield {"a": a, "layout": lay, "to_end": ends[0], "to_begin": ends[1], "via": rng.choice(["numpoly", "numpy"])}


def ediff1d(inp):
    import numpoly
    install_poison()
    keys = [k for k in ("to_end", "to_begin") if inp[k] is not None]
    xs, ms, bad = make_all([inp["a"]] + [inp[k] for k in keys], [inp["layout"], "C", "C"])
    if bad:
        return bad
    before = [snapshot(x) for x in xs]
    flat, ends = ms[0].reshape(-1), dict(zip(keys, [list(m.reshape(-1)) for m in ms[1:]]))
    want = ends.get("to_begin", []) + [flat[i + 1] - flat[i] for i in range(len(flat) - 1)] + ends.get("to_end", [])
    r = attempt((numpoly if inp["via"] == "numpoly" else numpy).ediff1d, xs[0], **dict(zip(keys, xs[1:])))
    return (agree(r, want, "ediff1d")
            or next((e for e in (unchanged(b, x, f"operand {i}") for i, (b, x) in enumerate(zip(before, xs))) if e), None))


EDIFF = ("to_end/to_begin each omitted, 0-d, 1-d or 2-d, polynomials (same coefficient dtype) over other indeterminates, plain int arrays or "
         "numbers; spellings numpoly/numpy; sampled; ")
check("C10", "ediff1d.differences", gen_ediff, functions=("numpoly.ediff1d",),
      note=BOUNDS + EDIFF + "consecutive differences of the flattened array of size >= 2")(ediff1d)
check("C10", "ediff1d.size0", lambda tier, rng: gen_ediff(tier, rng, True), functions=("numpoly.ediff1d",),
      note=BOUNDS + EDIFF + "ONLY arrays of size 1 (shapes (), (1,), (1,1), (1,1,1)): no difference, result is to_begin + to_end, possibly empty")(ediff1d)


# ------------------------------------------------------------------ inner / outer / matmul / det
def matmul_model(a, b):
    a2, b2 = (a[None, :] if a.ndim == 1 else a), (b[:, None] if b.ndim == 1 else b)
    batch = numpy.broadcast_shapes(a2.shape[:-2], b2.shape[:-2])
    a2, b2 = numpy.broadcast_to(a2, batch + a2.shape[-2:]), numpy.broadcast_to(b2, batch + b2.shape[-2:])
    out = numpy.empty(batch + (a2.shape[-2], b2.shape[-1]), dtype=object)
    for idx in numpy.ndindex(*out.shape):
        out[idx] = msum(a2[idx[:-2] + (idx[-2], k)] * b2[idx[:-2] + (k, idx[-1])] for k in range(a2.shape[-1]))
    out = out[..., 0] if b.ndim == 1 else out
    return out[..., 0, :] if a.ndim == 1 and b.ndim > 1 else out[..., 0] if a.ndim == 1 else out


def det_model(a):
    n, out = a.shape[-1], numpy.empty(a.shape[:-2], dtype=object)
    for idx in numpy.ndindex(*out.shape):
        out[idx] = msum(mprod([MPoly.const((-1) ** sum(p[i] > p[j] for i in range(n) for j in range(i + 1, n)))] + [a[idx + (i, p[i])] for i in range(n)])
                        for p in itertools.permutations(range(n)))
    return out


def accepts(f, *shapes):
    try:
        f(*[numpy.ones(s) for s in shapes])
        return True
    except Exception:
        return False


def gen_linalg(fn):
    def gen(tier, rng):
        space = {"inner": [((n,), (n,)) for n in (1, 2, 3) for _ in range(12)],
                 "outer": [(s1, s2) for s1 in SHAPES[:13] for s2 in SHAPES[:13]],
                 "matmul": [(s1, s2) for s1 in SHAPES[4:] for s2 in SHAPES[4:] if accepts(numpy.matmul, s1, s2)],
                 "matmul.vector_operand": [(s1, s2) for s1 in SHAPES[1:] for s2 in SHAPES[1:] if min(len(s1), len(s2)) == 1 and accepts(numpy.matmul, s1, s2)],
                 "det": [(s + (n, n), None) for n in (1, 2, 3) for s in [(), (1,), (2,), (3,)] for _ in range(6)]}[fn]
        for s1, s2 in (space if tier == "thorough" else rng.sample(space, min(len(space), 80 if fn.startswith("matmul") else 40))):
            lay, small = [rng.choice(LAYOUTS), rng.choice(LAYOUTS)], {"maxterms": 2, "maxexp": 2}
            ops = [rpoly(rng, s1, lay[0], names=rng.choice(NAMESETS), **small)] + ([] if s2 is None else [other(rng, s2, lay[1], **small)])
            yield {"fn": fn.split(".")[0], "ops": ops, "layouts": lay, "via": rng.choice(["numpoly", "numpy"] + ["operator"] * fn.startswith("matmul"))}
    return gen


def linalg(inp):
    import numpoly
    install_poison()
    xs, ms, bad = make_all(inp["ops"], inp["layouts"])
    if bad:
        return bad
    before, fn = [snapshot(x) for x in xs], inp["fn"]
    if fn == "det":
        want, f = det_model(ms[0]), numpoly.det if inp["via"] == "numpoly" else numpy.linalg.det
    elif fn == "matmul":
        want, f = matmul_model(*ms), operator.matmul if inp["via"] == "operator" else (numpoly if inp["via"] == "numpoly" else numpy).matmul
    else:
        f = getattr(numpoly if inp["via"] == "numpoly" else numpy, fn)
        fa, fb = ms[0].reshape(-1), ms[1].reshape(-1)
        want = msum(x * y for x, y in zip(fa, fb)) if fn == "inner" else [[x * y for y in fb] for x in fa]
    return (agree(attempt(f, *xs), want, f"{fn} spelled {inp['via']}")
            or next((e for e in (unchanged(b, x, f"operand {i}") for i, (b, x) in enumerate(zip(before, xs))) if e), None))


LINALG = {"inner": "of two vectors of equal length 1..3", "outer": "of operands of 0-2 dimensions (flattened)",
          "matmul": "of every pair of 2-d / 3-d shapes numpy accepts (stacked and broadcast), also spelled `@`",
          "matmul.vector_operand": "ONLY with a 1-d operand (1-d x 1-d, 1-d x n-d, n-d x 1-d) of every shape pair numpy accepts, also spelled `@`",
          "det": "of 1x1, 2x2, 3x3 matrices and stacks of 1-3 of them against the Leibniz formula, also spelled numpy.linalg.det"}
for _fn, _what in LINALG.items():
    check("C10", _fn if "." in _fn else f"{_fn}.definition", gen_linalg(_fn), functions=(f"numpoly.{_fn.split('.')[0]}",),
          note=BOUNDS + f"<=2 terms, exponents <=2; {_fn} {_what}; operands over different indeterminates, second operand sometimes a plain int "
          f"array; spellings numpoly/numpy; thorough tier exhaustive over shapes")(linalg)
