"""C06 run-time contracts: derivative, gradient and hessian against the formal partial derivative of the exact
sparse-polynomial oracle, under every combination of the retain_*/sort_* global options (bounded stand-in:
the clean-up and re-alignment steps after each differentiation depend on the option state)."""
from __future__ import annotations
import itertools
import numpy
from .common import check
from .gen import rand_poly, SHAPES, SMALL_SHAPES, count
from .model import num, build, spec_model, obj_map
from .wf import wf, denotes, snapshot, unchanged, install_poison

OPTION_NAMES = ("retain_names", "retain_coefficients", "sort_graded", "sort_reverse")
ALL_OPTIONS = [dict(zip(OPTION_NAMES, combo)) for combo in itertools.product([False, True], repeat=4)]
BY = ["name", "index", "indeterminant", "symbols", "variable", "indeterminant_zero_constant"]


def options(inp):
    import numpoly
    return numpoly.global_options(**inp["opts"])


def rand_input_poly(rng, shapes=SHAPES, names=None, **kw):
    """Polynomial spec; `retain` True keeps unused names / zero terms (the C01 space), None follows the global options."""
    spec = rand_poly(rng, shape=rng.choice(shapes), names=names, dtype=rng.choice(["int64", "int64", "float64"]), **kw)
    spec["retain"] = rng.choice([True, True, None])
    if len(spec["names"]) > 1 and rng.random() < 0.25:
        # the same polynomial with its indeterminates STORED in another order than the numeric one (names and exponent columns
        # permuted together): positions count in this stored order
        perm = list(range(len(spec["names"])))
        while perm == sorted(perm):
            rng.shuffle(perm)
        spec["names"] = [spec["names"][k] for k in perm]
        spec["exponents"] = [[row[k] for k in perm] for row in spec["exponents"]]
    return spec


def designate(p, d):
    """The differentiation variable of designation spec d = {"by": ..., "i": k}: (argument for numpoly, its name)."""
    import numpoly
    names = tuple(p.names)
    i = d["i"] % len(names)
    name = names[i]
    if d["by"] == "name":
        return name, name
    if d["by"] == "index":
        return i, name
    if d["by"] == "indeterminant":
        return p.indeterminants[i], name
    if d["by"] == "indeterminant_zero_constant":
        # the indeterminate as the result of arithmetic that leaves a stored constant term equal to zero: (q + 1) - 1
        return (p.indeterminants[i] + 1) - 1, name
    if d["by"] == "symbols":
        return numpoly.symbols(name), name
    k = int(name[1:])
    return (numpoly.variable(k + 1)[k] if k else numpoly.variable(1)), name


def deriv_model(pm, names):
    for n in names:
        pm = obj_map(lambda a, n=n: a.deriv(n), pm)
    return pm


def with_options(gen_inner, quick, thorough):
    """Every combination of the four boolean options x `quick`/`thorough` random inputs each."""
    def gen(tier, rng):
        for opts in ALL_OPTIONS:
            for _ in range(count(tier, quick, thorough)):
                yield dict(gen_inner(rng), opts=opts)
    return gen


# ------------------------------------------------------------------ derivative
NARROW = {"int8": [100, -100, 127, 3], "uint8": [200, 255, 1], "int16": [30000, -20000, 5], "uint16": [60000, 7], "int32": [2 ** 30, -2 ** 30, 9],
          "bool": [True, True, False], "float32": [3.0e38, 0.5, -2.0], "float16": [60000.0, 0.5]}


def gen_derivative(rng):
    k = rng.choice([1, 1, 2, 3])
    if rng.random() < 0.2:
        # coefficients stored in a narrow dtype, with values whose product with an exponent does not fit that dtype: the
        # derivative is the formal one all the same (numpy promotes exponent*coefficient; nothing may cast it back)
        dt = rng.choice(sorted(NARROW))
        spec = rand_poly(rng, shape=rng.choice(SHAPES), dtype=dt, pool=NARROW[dt], exps=[0, 1, 2, 3, 3])
        spec["retain"] = rng.choice([True, None])
        return {"p": spec, "vars": [{"by": rng.choice(BY), "i": rng.randint(0, 2)} for _ in range(rng.choice([1, 2]))]}
    return {"p": rand_input_poly(rng), "vars": [{"by": rng.choice(BY), "i": rng.randint(0, 2)} for _ in range(k)]}


@check("C06", "derivative.formal", with_options(gen_derivative, 40, 300),
       functions=("numpoly.derivative", "numpoly.align_polynomials", "numpoly.clean_attributes", "numpoly.remove_redundant_names"),
       note="bounded: all 16 settings of retain_names/retain_coefficients/sort_graded/sort_reverse x polynomials with <=3 terms, "
            "<=3 indeterminates (unused names and all-constant arrays included), exponents<=3, 8 shapes up to (2,1,2), int64/float64, and a fifth "
            "of the inputs in int8/uint8/int16/uint16/int32/bool/float16/float32 with coefficients at the edge of the dtype's range; "
            "1-3 differentiation variables per call, each given as name, index, poly.indeterminants[i], (poly.indeterminants[i]+1)-1, "
            "numpoly.symbols(name) or numpoly.variable(k+1)[k]; a quarter of the multi-name inputs store their names in non-numeric order; result well-formed and equal to the successive formal partials of the oracle")
def derivative_formal(inp):
    import numpoly
    install_poison()
    with options(inp):
        p = build(inp["p"])
        before = snapshot(p)
        args, names = zip(*[designate(p, d) for d in inp["vars"]])
        r = numpoly.derivative(p, *args)
        want = deriv_model(spec_model(inp["p"]), names)
        return wf(r) or denotes(r, want, f"derivative with respect to {names}") or unchanged(before, p, "polynomial")


# ------------------------------------------------------------------ laws
def gen_laws(rng):
    names = sorted(rng.sample(["q0", "q1", "q2"], rng.choice([1, 2, 2, 3])))
    shape = rng.choice(SMALL_SHAPES)
    return {"p": rand_input_poly(rng, shapes=[shape], names=names, maxterms=2, maxexp=2),
            "q": rand_input_poly(rng, shapes=[shape, ()], names=names, maxterms=2, maxexp=2),
            "a": rng.choice([-2, -1, 0, 1, 2, 3, 0.5]), "b": rng.choice([-1, 1, 2]), "v": rng.choice(names), "w": rng.choice(names),
            "law": rng.choice(["linear", "product", "mixed"])}


@check("C06", "derivative.laws", with_options(gen_laws, 30, 250), functions=("numpoly.derivative", "numpoly.add", "numpoly.multiply"),
       note="bounded: all 16 option settings x pairs of polynomials over the same 1-3 names (<=2 terms, exponents<=2, shapes (),(1,),"
            "(2,),(2,2), second operand possibly scalar); linearity d(a*p+b*q) = a*dp+b*dq, product rule d(p*q) = dp*q+p*dq, mixed "
            "partials d_v d_w p = d_w d_v p (one call and nested calls); both sides compared with the oracle")
def derivative_laws(inp):
    import numpoly
    install_poison()
    with options(inp):
        p, q = build(inp["p"]), build(inp["q"])
        pm, qm = spec_model(inp["p"]), spec_model(inp["q"])
        v, w, a, b = inp["v"], inp["w"], inp["a"], inp["b"]
        dv = lambda x: numpoly.derivative(x, v)
        if v not in p.names or v not in q.names or w not in p.names:      # names dropped at construction (retain: None)
            return None
        if inp["law"] == "linear":
            whole, want = a * p + b * q, obj_map(lambda x, y: (x.scale(num(a)) + y.scale(num(b))).deriv(v), pm, qm)
            sides = {"a*dp+b*dq": a * dv(p) + b * dv(q)}
        elif inp["law"] == "product":
            whole, want = p * q, obj_map(lambda x, y: (x * y).deriv(v), pm, qm)
            sides = {"dp*q+p*dq": dv(p) * q + p * dv(q)}
        else:
            whole, want = None, deriv_model(pm, [v, w])
            sides = {"derivative(p,v,w)": numpoly.derivative(p, v, w), "derivative(p,w,v)": numpoly.derivative(p, w, v),
                     "derivative(derivative(p,v),w)": numpoly.derivative(dv(p), w),
                     "derivative(derivative(p,w),v)": dv(numpoly.derivative(p, w))}
        if whole is not None and v in whole.names:       # the clean-up may have dropped the name from the combination
            sides[f"derivative({'a*p+b*q' if inp['law'] == 'linear' else 'p*q'})"] = dv(whole)
        for what, r in sides.items():
            msg = wf(r, what) or denotes(r, want, what)
            if msg:
                return msg
    return None


# ------------------------------------------------------------------ gradient / hessian
def gen_grad(rng):
    return {"p": rand_input_poly(rng, shapes=[(), (), (1,), (2,), (3,), (1, 2), (2, 2)])}


@check("C06", "gradient_hessian.shape_contents", with_options(gen_grad, 30, 250), functions=("numpoly.gradient", "numpoly.hessian", "numpoly.derivative", "numpoly.concatenate"),
       note="bounded: all 16 option settings x polynomials with <=3 terms, D<=3 indeterminates (unused names included), exponents<=3, "
            "shapes (),(1,),(2,),(3,),(1,2),(2,2); gradient has shape (D,)+p.shape with element i = d p/d names[i]; hessian has shape "
            "(D,D)+p.shape with element (i,j) = d2 p/d names[i] d names[j], D = len(p.names)")
def gradient_hessian(inp):
    import numpoly
    install_poison()
    with options(inp):
        p = build(inp["p"])
        before = snapshot(p)
        names, pm = tuple(p.names), spec_model(inp["p"])
        D = len(names)
        g, h = numpoly.gradient(p), numpoly.hessian(p)
        gw = numpy.empty((D,) + pm.shape, dtype=object)
        hw = numpy.empty((D, D) + pm.shape, dtype=object)
        for i, ni in enumerate(names):
            for idx in numpy.ndindex(*pm.shape):
                gw[(i,) + idx] = pm[idx].deriv(ni)
                for j, nj in enumerate(names):
                    hw[(i, j) + idx] = pm[idx].deriv(ni).deriv(nj)
        return (wf(g, "gradient") or denotes(g, gw, f"gradient over {names}") or wf(h, "hessian")
                or denotes(h, hw, f"hessian over {names}") or unchanged(before, p, "polynomial"))


# ------------------------------------------------------------------ options are restored
def gen_restore(tier, rng):
    for opts in ALL_OPTIONS:
        yield {"p": rand_input_poly(rng), "opts": opts, "vars": [{"by": "name", "i": 0}]}


@check("C06", "options.restored", gen_restore, functions=("numpoly.global_options", "numpoly.derivative", "numpoly.gradient", "numpoly.hessian"),
       note="harness self-check: the option state after differentiating under each of the 16 settings equals the state before")
def options_restored(inp):
    import numpoly
    start = numpoly.get_options()
    with options(inp):
        p = build(inp["p"])
        numpoly.derivative(p, 0), numpoly.gradient(p), numpoly.hessian(p)
    return None if numpoly.get_options() == start else f"options changed from {start} to {numpoly.get_options()}"
