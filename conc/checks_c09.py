"""C09 run-time contracts (bounded stand-ins): shape functions, indexing and iteration move whole
polynomial elements like numpy.  Oracle: the SAME numpy function applied to the object array of
model polynomials (numpy's shape functions are dtype-agnostic); never numpoly itself."""
from __future__ import annotations
import itertools
import numpy
from .common import check
from .gen import rand_poly, nested, count
from .model import operand, operand_model, MPoly
from .wf import wf, denotes, snapshot, unchanged, install_poison

SHAPES = [s for d in range(4) for s in itertools.product((1, 2, 3), repeat=d)]
ZSHAPES = [(0,), (2, 0), (1, 0), (3, 1, 0), (0, 2), (0, 1), (0, 1, 3)]          # size 0
LAYOUTS = ("C", "T", "F")
NAMESETS = [["q0"], ["q1"], ["q0", "q1"], ["q1", "q2"], ["q0", "q1", "q2"], ["q2"]]
BOUNDS = ("bounded: arrays of 0-3 dimensions with extents 1..3, laid out C-ordered / as transposed view p.T / as Fortran-ordered copy, "
          "int64 and float64 coefficients, 1-3 indeterminates, <=3 terms, exponents <=3; ")


def rpoly(rng, shape, layout="C", dtype=None, **kw):
    """operand spec whose array has `shape` once the layout ('C', 'T': .T view, 'F': Fortran-ordered copy) is applied"""
    shape = tuple(shape)[::-1] if layout == "T" else tuple(shape)
    return {"poly": rand_poly(rng, shape=shape, dtype=dtype or rng.choice(["int64", "int64", "float64"]), **kw)}


def layouts(shape):
    """nested lists can only spell a trailing empty axis: a leading one is reached through the transposed view"""
    return LAYOUTS if 0 not in shape else ("T",) if shape[-1] else ("C", "F")


def make(spec, layout="C"):
    """(operand, model, description of a broken input or None); the model mirrors the layout (orders 'A'/'K' depend on it)"""
    x, m = operand(spec), operand_model(spec)
    if "poly" not in spec:
        return x, m, None
    if layout == "T":
        x, m = x.T, m.T
    elif layout == "F":
        x, m = x.copy(order="F"), m.copy(order="F")
    if not m.size:
        return x, m, None if tuple(x.shape) == m.shape else f"input in layout {layout}: shape {x.shape}, expected {m.shape}"
    return x, m, wf(x, "input") or denotes(x, m, f"input in layout {layout}")


def make_all(specs, layouts):
    made = [make(s, l) for s, l in zip(specs, layouts)]
    return [t[0] for t in made], [t[1] for t in made], next((t[2] for t in made if t[2]), None)


class Raised:
    def __init__(self, e):
        self.text = f"{type(e).__name__}: {str(e)[:160]}"


def attempt(f, *a, **k):
    """the call's result, or Raised: an exception where numpy accepts the arguments is a violation, not a crash of the check"""
    try:
        return f(*a, **k)
    except Exception as e:
        return Raised(e)


def ok(r, want, names, dtype, what="result"):
    """r is an ndpoly (or a sequence of them) of numpy's shape whose elements are exactly `want`, with the given names and dtype;
    names: tuple (exact), predicate on the set of names, or list of those per item; dtype: one, or a list per item"""
    import numpoly
    if isinstance(r, Raised):
        return f"{what}: numpoly raised {r.text} where numpy returns {'%d arrays' % len(want) if isinstance(want, (list, tuple)) else 'shape %s' % (numpy.shape(want),)}"
    if isinstance(want, (list, tuple)):
        if not isinstance(r, (list, tuple)) or len(r) != len(want):
            return f"{what}: {type(r).__name__} of length {len(r) if hasattr(r, '__len__') else '?'}, numpy gives {len(want)} arrays"
        return next((e for e in (ok(ri, wi, names[i] if isinstance(names, list) else names, dtype[i] if isinstance(dtype, list) else dtype,
                                    f"{what}[{i}]") for i, (ri, wi) in enumerate(zip(r, want))) if e), None)
    want = numpy.array(want, dtype=object)
    for idx in numpy.ndindex(*want.shape):        # numpy pads with the integer 0 (diag): the zero polynomial
        want[idx] = want[idx] if isinstance(want[idx], MPoly) else MPoly.const(want[idx])
    if not isinstance(r, numpoly.ndpoly):
        return f"{what}: {type(r).__name__} instead of ndpoly"
    if tuple(r.shape) != want.shape:
        return f"{what}: shape {tuple(r.shape)}, numpy gives {want.shape}"
    try:
        err = (wf(r, what) or denotes(r, want, what)) if want.size else None     # size 0: no element to compare
    except Exception as e:
        err = f"{what}: cannot be read as a polynomial array ({type(e).__name__}: {e})"
    if err:
        return err
    if not (names(set(r.names)) if callable(names) else tuple(r.names) == tuple(names)):
        return f"{what}: names {tuple(r.names)} do not preserve the input names"
    if r.dtype != numpy.dtype(dtype):
        return f"{what}: coefficient dtype {r.dtype}, inputs have {dtype}"
    return None


def all_unchanged(before, xs):
    return next((e for e in (unchanged(b, x, f"operand {i}") for i, (b, x) in enumerate(zip(before, xs))) if e), None)


def fits(*shapes):
    try:
        return numpy.broadcast_shapes(*shapes)
    except ValueError:
        return None


def call(via, fn, x, pos, kw):
    import numpoly
    if via == "method":
        return getattr(x, fn) if fn == "T" else getattr(x, fn)(*pos, **kw)
    return getattr(numpoly if via == "numpoly" else numpy, fn)(x, *pos, **kw)


# ------------------------------------------------------------------ one array in, one array (or a list of arrays) out
def cands(fn, shape):
    """candidate (positional, keyword) arguments; those numpy rejects for this shape are filtered out by the generator"""
    nd, ax = len(shape), list(range(-len(shape), len(shape)))
    if fn == "reshape":
        tgt = [list(s) for s in SHAPES + ZSHAPES] + [-1, 0, 4, 6, 8, 9, 12, 18, 27, [-1, 1], [1, -1], [2, -1], [-1, 3], [3, -1, 3], [4, -1], [2, -1, 2], [6, -1], [9, -1]]
        return [([t], k) for t in tgt for k in ({}, {"order": "F"}, {"order": "A"})]
    if fn == "transpose":
        return [([], {})] + [([list(p)], {}) for p in itertools.permutations(range(nd))] + [([[a - nd for a in range(nd)][::-1]], {})]
    if fn == "moveaxis":
        return [([s, d], {}) for s in ax for d in ax] + [([[0, 1], [-1, 0]], {}), ([[0, -1], [1, 0]], {})]
    if fn == "expand_dims":
        return [([a], {}) for a in range(-nd - 1, nd + 1)]
    if fn in ("atleast_1d", "atleast_2d", "atleast_3d", "T"):
        return [([], {})]
    if fn in ("ravel", "flatten"):
        return [([], {})] + [([], {"order": o}) for o in "CFAK"]
    if fn == "repeat":
        out = [([r], k) for r in range(4) for k in [{}] + [{"axis": a} for a in ax]]
        return out + [([list(r)], {"axis": a}) for a in ax for r in itertools.product(range(3), repeat=shape[a])]
    if fn == "tile":
        return [([r], {}) for r in range(4)] + [([list(r)], {}) for d in (1, 2, 3) for r in itertools.product((0, 1, 2), repeat=d)]
    if fn == "diag":
        return [([], {})] + [([], {"k": k}) for k in range(-3, 4)] + [([k], {}) for k in (-1, 1)]
    if fn == "diagonal":
        return [([], {})] + [([], {"offset": o, "axis1": a, "axis2": b}) for o in range(-3, 4) for a in ax for b in ax] + [([o], {}) for o in (-1, 1)]
    secs = [1, 2, 3, 4, [], [0], [1], [2], [3], [1, 2], [1, 1], [0, 2], [2, 1], [1, 5], [-1]]
    return [([s], k) for s in secs for k in ([{}] + [{"axis": a} for a in ax] if fn in ("split", "array_split") else [{}])]


ALL3, NP2 = ("numpoly", "numpy", "method"), ("numpoly", "numpy")
UNARY = {"reshape": ALL3, "transpose": ALL3, "moveaxis": NP2, "expand_dims": NP2, "atleast_1d": NP2, "atleast_2d": NP2, "atleast_3d": NP2,
         "repeat": ALL3, "tile": NP2, "diag": NP2, "diagonal": ALL3, "ravel": ("method",), "flatten": ("method",), "T": ("method",),
         "split": NP2, "array_split": NP2, "hsplit": NP2, "vsplit": NP2, "dsplit": NP2}
QUICK = {"reshape": 120, "repeat": 100, "tile": 80, "diagonal": 80, "moveaxis": 60, "transpose": 60, "split": 80, "array_split": 80}


def empty(res):
    """some array numpy returns has size 0"""
    return any(numpy.size(a) == 0 for a in (res if isinstance(res, (list, tuple)) else [res]))


def gen_unary(fn, part):
    """part 'elements': operand and numpy's result(s) all non-empty (repeat: explicit axis); 'size0': an extent 0 in the operand or in a
    result; 'default_axis' (repeat only): axis argument omitted, nothing empty"""
    def gen(tier, rng):
        space = []
        for s in SHAPES + ZSHAPES:
            for pos, kw in cands(fn, s):
                try:
                    res = call("method" if UNARY[fn] == ("method",) else "numpy", fn, numpy.empty(s, dtype=object), pos, kw)
                except Exception:
                    continue                      # numpy rejects these arguments for this shape
                kind = "size0" if 0 in s or empty(res) else "elements"
                if fn == "repeat" and "axis" not in kw:
                    kind = "default_axis" if kind == "elements" else None
                if kind == part:
                    space.append((s, pos, kw))
        if tier != "thorough":
            space = rng.sample(space, min(len(space), QUICK.get(fn, 40)))
        for s, pos, kw in space:
            for layout in (layouts(s) if tier == "thorough" and len(space) < 1500 else (rng.choice(layouts(s)),)):
                yield {"fn": fn, "a": rpoly(rng, s, layout), "layout": layout, "pos": pos, "kw": kw, "via": rng.choice(UNARY[fn])}
    return gen


def unary(inp):
    install_poison()
    x, m, bad = make(inp["a"], inp["layout"])
    if bad:
        return bad
    before = snapshot(x)
    want = call("method" if inp["via"] == "method" else "numpy", inp["fn"], m, inp["pos"], inp["kw"])
    r = attempt(call, inp["via"], inp["fn"], x, inp["pos"], inp["kw"])
    return ok(r, want, x.names, x.dtype) or unchanged(before, x)


PARTS = {"elements": "operand and every array numpy returns are non-empty", "size0": "ONLY the cases with an extent 0: operand of one of 7 shapes "
         "with an extent 0, or some array numpy returns has size 0 (repeats/reps 0, empty sections, diagonals off the matrix)",
         "default_axis": "ONLY calls without an axis argument (numpy: repeat over the flattened array), nothing empty"}
for _fn, _vias in UNARY.items():
    for _part in ("elements", "size0") + (("default_axis",) if _fn == "repeat" else ()):
        check("C09", f"{_fn}.{_part}", gen_unary(_fn, _part), functions=(f"numpoly.{_fn}",) if "numpoly" in _vias else ("numpoly.ndpoly",),
              note=BOUNDS + PARTS[_part] + ("; explicit axis only" if (_fn, _part) == ("repeat", "elements") else "") + "; every argument list numpy "
              f"accepts from a fixed grid (all axes, orders, permutations, sections/indices, offsets and k in -3..3, repeats/reps 0..3, scalar or "
              f"per-element); spellings {'/'.join(_vias)}; thorough tier exhaustive over shape x arguments")(unary)


# ------------------------------------------------------------------ several arrays in
JOIN = ("concatenate", "stack", "hstack", "vstack", "dstack")


def other(rng, shape, layout):
    if rng.random() < 0.85:
        return rpoly(rng, shape, layout, names=rng.choice(NAMESETS))
    return {"array": nested(rng, shape, [-1, 0, 2]), "dtype": "int64"}


def gen_join(tier, rng):
    space = []
    for fn, s1, s2 in itertools.product(JOIN, SHAPES, SHAPES):
        for kw in [{}] + ([{"axis": a} for a in [None] + list(range(-len(s1) - 1, len(s1) + 1))] if fn in JOIN[:2] else []):
            try:
                getattr(numpy, fn)([numpy.empty(s1, object), numpy.empty(s2, object)], **kw)
                space.append((fn, s1, s2, kw))
            except Exception:
                pass
    for fn, s1, s2, kw in (space if tier == "thorough" else rng.sample(space, 250)):
        lay = [rng.choice(LAYOUTS), rng.choice(LAYOUTS)]
        ops = [rpoly(rng, s1, lay[0], names=rng.choice(NAMESETS)), other(rng, s2, lay[1])]
        if rng.random() < 0.3:      # a third operand shaped like one of the two
            k = rng.randrange(2)
            ops.append(other(rng, (s1, s2)[k], lay[k]))
            lay.append(lay[k])
        yield {"fn": fn, "ops": ops, "layouts": lay, "kw": kw, "via": rng.choice(NP2)}
    # a sequence holding ONE operand (joins accept it: the result is that operand, possibly with axes added)
    for fn in JOIN:
        for s1 in (SHAPES if tier == "thorough" else rng.sample(SHAPES, min(4, len(SHAPES)))):
            for kw in [{}] + ([{"axis": 0}] if fn in JOIN[:2] and len(s1) else []):
                try:
                    getattr(numpy, fn)([numpy.empty(s1, object)], **kw)
                except Exception:
                    continue
                lay = [rng.choice(LAYOUTS)]
                yield {"fn": fn, "ops": [rpoly(rng, s1, lay[0], names=rng.choice(NAMESETS))], "layouts": lay, "kw": kw, "via": rng.choice(NP2)}


def gen_broadcast(tier, rng):
    space = [c for n in (1, 2, 3) for c in itertools.product(SHAPES, repeat=n) if (n < 3 or all(len(s) < 3 for s in c)) and fits(*c) is not None]
    for c in (space if tier == "thorough" else rng.sample(space, 150)):
        lay = [rng.choice(LAYOUTS) for _ in c]
        yield {"fn": "broadcast_arrays", "ops": [rpoly(rng, s, l, names=rng.choice(NAMESETS)) for s, l in zip(c, lay)], "layouts": lay, "kw": {},
               "via": rng.choice(NP2)}


def gen_where(tier, rng):
    space = [c for c in itertools.product(SHAPES, repeat=3) if (all(len(s) < 3 for s in c) or len(set(c)) == 1) and fits(*c) is not None]
    for sc, s1, s2 in (space if tier == "thorough" else rng.sample(space, 150)):
        lay = [rng.choice(LAYOUTS), rng.choice(LAYOUTS)]
        yield {"fn": "where", "cond": nested(rng, sc, [True, False]), "ops": [rpoly(rng, s1, lay[0], names=rng.choice(NAMESETS)), other(rng, s2, lay[1])],
               "layouts": lay, "kw": {}, "via": rng.choice(NP2)}


def gen_choose(tier, rng):
    space = [(n, s, sa) for n in (1, 2, 3) for s in SHAPES[:13] for sa in SHAPES[:13] if fits(s, sa) is not None]
    for n, s, sa in (space if tier == "thorough" else rng.sample(space, 120)):
        mode, lay = rng.choice(["raise", "raise", "wrap", "clip"]), rng.choice(LAYOUTS)
        yield {"fn": "choose", "cond": nested(rng, sa, list(range(n)) if mode == "raise" else list(range(-n - 1, n + 2))), "ops": [rpoly(rng, (n,) + s, lay)],
               "layouts": [lay], "kw": {} if mode == "raise" and rng.random() < 0.5 else {"mode": mode}, "via": rng.choice(NP2)}


def several(inp):
    import numpoly
    install_poison()
    xs, ms, bad = make_all(inp["ops"], inp["layouts"])
    if bad:
        return bad
    before = [snapshot(x) for x in xs]
    fn, mod = inp["fn"], numpoly if inp["via"] == "numpoly" else numpy
    union = {n for s, x in zip(inp["ops"], xs) if "poly" in s for n in x.names}
    plain = any("poly" not in s for s in inp["ops"])      # a plain array brings no name; numpoly may add its default one
    names, dtype = (lambda got: union <= got and (got <= union | {"q0"} if plain else got == union)), numpy.result_type(*[x.dtype for x in xs])
    if fn == "where":
        cond = numpy.array(inp["cond"], dtype=bool)
        want, r = numpy.where(cond, *ms), attempt(mod.where, cond, *xs)
    elif fn == "choose":
        a = numpy.array(inp["cond"], dtype=int)
        want, r = numpy.choose(a, ms[0], **inp["kw"]), attempt(mod.choose, a, xs[0], **inp["kw"])
    elif fn == "broadcast_arrays":
        want, r = numpy.broadcast_arrays(*ms), attempt(mod.broadcast_arrays, *xs)
        names, dtype = [tuple(x.names) for x in xs], [x.dtype for x in xs]      # each result keeps its own
    else:
        want, r = getattr(numpy, fn)(ms, **inp["kw"]), attempt(getattr(mod, fn), xs, **inp["kw"])
    return ok(r, want, names, dtype) or all_unchanged(before, xs)


DIFFERENT = "operands over different indeterminates and term sets, sometimes a plain int array; "
check("C09", "join.elements", gen_join, functions=tuple(f"numpoly.{f}" for f in JOIN),
      note=BOUNDS + "concatenate/stack (every axis incl. None and default) and hstack/vstack/dstack of 1-3 operands whose shapes numpy accepts, "
      + DIFFERENT + "result names = union, dtype = numpy.result_type; thorough exhaustive over shape pairs x axis")(several)
check("C09", "broadcast_arrays.elements", gen_broadcast, functions=("numpoly.broadcast_arrays",),
      note=BOUNDS + "1-3 operands (3 operands: <=2 dimensions) of every broadcastable shape combination, different indeterminates; "
      "each result keeps its own names and dtype; thorough exhaustive over shape combinations")(several)
check("C09", "where.elements", gen_where, functions=("numpoly.where",),
      note=BOUNDS + "boolean condition and two operands of every broadcastable shape triple (<=2 dimensions, or three equal 3-d shapes), "
      + DIFFERENT + "thorough exhaustive over shape triples")(several)
check("C09", "choose.elements", gen_choose, functions=("numpoly.choose",),
      note=BOUNDS + "1-3 choices of 0-2 dimensions, integer index array (0-d included) of every broadcastable shape, modes raise (indices in "
      "range), wrap and clip (indices in -n-1..n+1); thorough exhaustive over shape pairs")(several)


def gen_full(tier, rng, zero=False):
    targets = [list(s) for s in ZSHAPES] + [0] if zero else [list(s) for s in SHAPES] + [1, 2, 3]
    for _ in range(count(tier, 40, 300) if zero else count(tier, 150, 1500)):
        lay, dt = rng.choice(LAYOUTS), rng.choice(["int64", "float64"])
        shape = rng.choice(targets)
        inp = {"fn": "full", "shape": shape, "layout": lay, "kw": rng.choice([{}, {}, {"order": "F"}, {"order": "C"}]), "via": "numpoly"}
        tup = tuple(shape) if isinstance(shape, list) else (shape,)
        if rng.random() < 0.5:
            ls = rng.choice(SHAPES)
            inp.update(fn="full_like", like=rpoly(rng, ls, lay, dtype=dt, names=rng.choice(NAMESETS)), via=rng.choice(NP2))
            if rng.random() < 0.5 or zero:
                inp["kw"] = dict(inp["kw"], shape=shape)
            else:
                tup = ls
        fs = rng.choice([s for s in SHAPES if fits(s, tup) == tup] or [()]) if rng.random() < 0.4 else ()
        yield dict(inp, fill=rpoly(rng, fs, lay, dtype=dt))


def full(inp):
    import numpoly
    install_poison()
    (f, a), (mf, ma), bad = make_all([inp["fill"], inp.get("like", inp["fill"])], [inp["layout"]] * 2)
    if bad:
        return bad
    before = [snapshot(f), snapshot(a)]
    if inp["fn"] == "full":
        want, r = numpy.full(inp["shape"], mf, dtype=object, **inp["kw"]), attempt(numpoly.full, inp["shape"], f, **inp["kw"])
    else:
        want, r = numpy.full_like(ma, mf, **inp["kw"]), attempt((numpoly if inp["via"] == "numpoly" else numpy).full_like, a, f, **inp["kw"])
    return ok(r, want, f.names, a.dtype) or all_unchanged(before, [f, a])


FULL = ("full(shape, p) and full_like(a, p[, shape=]), fill polynomial 0-d or an array broadcastable to the target, fill and prototype of the "
        "same coefficient dtype, order default/C/F; sampled; ")
check("C09", "full.elements", gen_full, functions=("numpoly.full", "numpoly.full_like"),
      note=BOUNDS + FULL + "every target shape without an extent 0 (also int shapes)")(full)
check("C09", "full.size0", lambda tier, rng: gen_full(tier, rng, True), functions=("numpoly.full", "numpoly.full_like"),
      note=BOUNDS + FULL + "ONLY target shapes with an extent 0 (7 shapes and the int shape 0)")(full)


# ------------------------------------------------------------------ indexing and iteration
def axis_items(n):
    sl = [[None, None, None], [1, None, None], [None, -1, None], [None, None, -1], [None, None, 2], [0, 0, None], [-2, None, None], [5, None, None]]
    arr = [{"a": [0]}, {"a": [n - 1, 0]}, {"a": [[0], [-1]]}, {"l": [0, n - 1, 0]}, {"a": []}, {"b": [i % 2 == 0 for i in range(n)]}, {"b": [False] * n}]
    return sorted({0, -1, n - 1, -n}) + [{"s": s} for s in sl] + arr


def decode(idx):
    out = []
    for it in idx:
        if isinstance(it, dict):
            it = (slice(*it["s"]) if "s" in it else it["l"] if "l" in it else numpy.array(it["a"], dtype=int) if "a" in it
                  else numpy.array(it["b"], dtype=bool))
        out.append(Ellipsis if isinstance(it, str) else it)
    return out


def gen_index(tier, rng, zero=False):
    made = 0
    while made < (count(tier, 150, 2000) if zero else count(tier, 400, 6000)):
        s = rng.choice(SHAPES + (ZSHAPES[:2] + ZSHAPES[4:5]) * 4 * zero)
        for _ in range(20):
            idx = [rng.choice(axis_items(n)) for n in s[: rng.randint(0, len(s))]]
            for extra in ("...", None, None):
                if rng.random() < 0.2:
                    idx.insert(rng.randint(0, len(idx)), extra)
            if rng.random() < 0.1 and s:
                k = rng.randint(1, len(s))
                idx = [{"b": nested(rng, s[:k], [True, False])}] + idx[k:]
            try:
                res = numpy.empty(s, dtype=object)[tuple(decode(idx))]
                break
            except Exception:
                idx, res = [], numpy.empty(s)     # numpy rejects this index: fall back to p[()]
        if (0 in s or numpy.size(res) == 0) != zero:
            continue
        made, lay = made + 1, rng.choice(layouts(s))
        yield {"a": rpoly(rng, s, lay), "layout": lay, "index": idx, "bare": len(idx) == 1 and rng.random() < 0.7}


def getitem(inp):
    install_poison()
    x, m, bad = make(inp["a"], inp["layout"])
    if bad:
        return bad
    idx = decode(inp["index"])
    idx = idx[0] if inp["bare"] else tuple(idx)
    before = snapshot(x)
    return ok(attempt(lambda: x[idx]), m[idx], x.names, x.dtype) or unchanged(before, x)


INDEX = ("index tuples over ints (incl. negative), slices (incl. negative step, empty, out of range), Ellipsis, newaxis, integer arrays / lists "
         "(1-d, 2-d, empty), boolean masks per axis and over leading axes; sampled among those numpy accepts; ")
check("C09", "getitem.elements", gen_index, functions=("numpoly.ndpoly.__getitem__",),
      note=BOUNDS + INDEX + "only non-empty operands and non-empty results")(getitem)
check("C09", "getitem.size0", lambda tier, rng: gen_index(tier, rng, True), functions=("numpoly.ndpoly.__getitem__",),
      note=BOUNDS + INDEX + "ONLY operands of shape (0,), (2,0), (0,2) or indices selecting nothing (result of size 0)")(getitem)


def gen_iter(tier, rng, zero=False):
    for s in [s for s in (ZSHAPES if zero else SHAPES) if s] * count(tier, 3, 30):
        lay = rng.choice(layouts(s))
        yield {"a": rpoly(rng, s, lay), "layout": lay, "how": rng.choice(["list", "for", "unpack", "flat"])}


def iteration(inp):
    install_poison()
    x, m, bad = make(inp["a"], inp["layout"])
    if bad:
        return bad
    before = snapshot(x)
    walk = {"flat": lambda a: list(a.flat), "for": lambda a: [e for e in a], "unpack": lambda a: (lambda *e: list(e))(*a), "list": list}[inp["how"]]
    return ok(attempt(walk, x), walk(m), x.names, x.dtype, "items") or unchanged(before, x)


ITER = "list(p), for-loop, star-unpacking, p.flat: as many items as numpy yields, item i is exactly element i; "
check("C09", "iteration.elements", gen_iter, functions=("numpoly.ndpoly.__iter__", "numpoly.ndpoly.flat"),
      note=BOUNDS + ITER + "every shape of 1-3 dimensions")(iteration)
check("C09", "iteration.size0", lambda tier, rng: gen_iter(tier, rng, True), functions=("numpoly.ndpoly.__iter__", "numpoly.ndpoly.flat"),
      note=BOUNDS + ITER + "ONLY the 7 shapes with an extent 0")(iteration)


# ------------------------------------------------------------------ where with non-finite coefficients
def gen_where_nonfinite(tier, rng):
    specials = [float("inf"), float("-inf"), float("nan"), 1e308, -1e308]
    for _ in range(count(tier, 60, 600)):
        shape = rng.choice([(2,), (3,), (2, 2), (1, 3)])
        n = 1
        for e in shape:
            n *= e
        terms = rng.sample([(0, 0), (1, 0), (0, 1), (2, 1), (1, 1)], rng.choice([1, 2, 3]))
        c1 = [[rng.choice(specials) if rng.random() < 0.4 else float(rng.choice([-2, 1, 3])) for _ in range(n)] for _ in terms]
        other = rng.choice(["zero", "number", "poly"])
        c2 = [[float(rng.choice([0, 0, 5, -1])) for _ in range(n)] for _ in terms] if other == "poly" else None
        yield {"shape": list(shape), "terms": [list(t) for t in terms], "c1": c1, "other": other, "c2": c2,
               "cond": [rng.random() < 0.5 for _ in range(n)], "via": rng.choice(NP2)}


@check("C09", "where.nonfinite_coefficients", gen_where_nonfinite, functions=("numpoly.where",),
       note="bounded: float64 polynomial arrays of <=3 terms in q0, q1 whose coefficients include inf, -inf, nan and +-1e308 at random "
            "positions, against 0, a number or a second polynomial; every element of the result is the selected operand's element, "
            "coefficient by coefficient (nan equals nan): a value at a position that is NOT selected never leaks into the result")
def where_nonfinite(inp):
    import numpoly
    shape = tuple(inp["shape"])
    E = numpy.array(inp["terms"], dtype=int)
    mk = lambda cs: numpoly.polynomial_from_attributes(E, [numpy.array(c, dtype=float).reshape(shape) for c in cs], ("q0", "q1"),
                                                       retain_coefficients=True, retain_names=True)
    p1 = mk(inp["c1"])
    p2 = 0 if inp["other"] == "zero" else 2.5 if inp["other"] == "number" else mk(inp["c2"])
    cond = numpy.array(inp["cond"], dtype=bool).reshape(shape)
    table = lambda p: ({tuple(int(x) for x in e): numpy.asarray(c, dtype=float) for e, c in zip(p.exponents, p.coefficients)}
                       if isinstance(p, numpoly.ndpoly) else {(0, 0): numpy.full(shape, float(p))})
    t1, t2 = table(p1), table(p2)
    mod = numpoly if inp["via"] == "numpoly" else numpy
    with numpy.errstate(all="ignore"):
        try:
            r = mod.where(cond, p1, p2)
        except Exception as e:      # noqa: BLE001
            return f"where raised {type(e).__name__}: {e}"
    if not isinstance(r, numpoly.ndpoly) or r.shape != shape:
        return f"where returned {type(r).__name__} of shape {getattr(r, 'shape', None)}; expected a polynomial array of shape {shape}"
    names = tuple(r.names)
    got = {}
    for e, c in zip(r.exponents, r.coefficients):
        key = tuple(int(dict(zip(names, e)).get(n, 0)) for n in ("q0", "q1"))
        got[key] = numpy.asarray(c, dtype=float)
    zero = numpy.zeros(shape)
    for key in sorted(set(t1) | set(t2) | set(got)):
        want = numpy.where(cond, t1.get(key, zero), t2.get(key, zero))
        have = got.get(key, zero)
        if not numpy.array_equal(want, have, equal_nan=True):
            return (f"coefficient of q0**{key[0]}*q1**{key[1]}: {have.tolist()} instead of {want.tolist()} (condition {cond.tolist()}, "
                    f"first operand {t1.get(key, zero).tolist()}, second {t2.get(key, zero).tolist()})")
    return None
