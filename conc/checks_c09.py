"""C09 run-time contracts (bounded stand-ins): shape functions, indexing and iteration move whole
polynomial elements like numpy.  Oracle: the SAME numpy function applied to the object array of
model polynomials (numpy's shape functions are dtype-agnostic); never numpoly itself."""
from __future__ import annotations
import itertools
import numpy
from .common import check
from .gen import rand_poly, nested, count
from .model import operand, operand_model, MPoly
from .wf import wf, denotes, snapshot, unchanged, install_poison

SHAPES = [s for d in range(4) for s in itertools.product((1, 2, 3), repeat=d)]
BOUNDS = ("bounded: arrays of 0-3 dimensions with extents 1..3, C-ordered / transposed view (p.T) / Fortran-ordered copy, "
          "int64 and float64 coefficients, 1-3 indeterminates, <=3 terms, exponents <=3; ")


def rpoly(rng, shape, layout="C", **kw):
    """operand spec whose array has `shape` once the layout ('C', 'T': .T view, 'F': Fortran copy) is applied"""
    shape = tuple(shape)[::-1] if layout == "T" else tuple(shape)
    return {"poly": rand_poly(rng, shape=shape, dtype=rng.choice(["int64", "int64", "float64"]), **kw)}


def make(spec, layout="C"):
    """(operand, model, description of a broken input or None)"""
    x, m = operand(spec), operand_model(spec)
    if "poly" not in spec:
        return x, m, None
    if layout == "T":
        x, m = x.T, m.T
    elif layout == "F":
        x, m = x.copy(order="F"), numpy.asfortranarray(m)      # the model mirrors the layout (orders 'A' and 'K' depend on it)
    return x, m, wf(x, "input") or denotes(x, m, f"input in layout {layout}")


def ok(r, want, names, dtype, what="result"):
    """r is an ndpoly of numpy's shape whose elements are exactly `want`, with the given names and dtype"""
    import numpoly
    if isinstance(r, Raised):
        return f"{what}: numpoly raised {r.text} where numpy returns an array of shape {numpy.shape(want)}"
    want = numpy.array(want, dtype=object)
    for idx in numpy.ndindex(*want.shape):        # numpy pads with the integer 0 (diag): the zero polynomial
        want[idx] = want[idx] if isinstance(want[idx], MPoly) else MPoly.const(want[idx])
    if not isinstance(r, numpoly.ndpoly):
        return f"{what}: {type(r).__name__} instead of ndpoly"
    if tuple(r.shape) != want.shape:
        return f"{what}: shape {tuple(r.shape)}, numpy gives {want.shape}"
    try:
        err = (wf(r, what) or denotes(r, want, what)) if want.size else None     # size 0: no element to compare
    except Exception as e:
        err = f"{what}: cannot be read as a polynomial array ({type(e).__name__}: {e})"
    if err:
        return err
    if names is not None and (tuple(r.names) != tuple(names) if isinstance(names, (list, tuple)) else not names(set(r.names))):
        return f"{what}: names {tuple(r.names)} do not preserve the input names"
    if r.dtype != numpy.dtype(dtype):
        return f"{what}: coefficient dtype {r.dtype}, inputs have {dtype}"
    return None


def ok_seq(rs, wants, names, dtypes, what="result"):
    if isinstance(rs, Raised):
        return f"{what}: numpoly raised {rs.text} where numpy returns {len(wants)} arrays"
    if not isinstance(rs, (list, tuple)) or len(rs) != len(wants):
        return f"{what}: {type(rs).__name__} of length {len(rs) if hasattr(rs, '__len__') else '?'}, numpy gives {len(wants)} arrays"
    for i, (r, w) in enumerate(zip(rs, wants)):
        err = ok(r, w, names[i] if isinstance(names, dict) else names, dtypes[i] if isinstance(dtypes, list) else dtypes, f"{what}[{i}]")
        if err:
            return err
    return None


class Raised:
    def __init__(self, e):
        self.text = f"{type(e).__name__}: {str(e)[:200]}"


def attempt(f, *a, **k):
    """the call's result, or Raised: an exception where numpy accepts the arguments is a violation, not a crash of the check"""
    try:
        return f(*a, **k)
    except Exception as e:
        return Raised(e)


def call(via, fn, x, pos, kw):
    import numpoly
    if via == "method":
        return getattr(x, fn) if fn == "T" else getattr(x, fn)(*pos, **kw)
    return getattr(numpoly if via == "numpoly" else numpy, fn)(x, *pos, **kw)


def fits(*shapes):
    try:
        return numpy.broadcast_shapes(*shapes)
    except ValueError:
        return None


def accepted(fn, shape, cands, via="numpy"):
    """the candidate argument lists numpy accepts for an (object) array of this shape"""
    dummy = numpy.empty(shape, dtype=object)
    for pos, kw in cands:
        try:
            call(via, fn, dummy, pos, kw)
        except Exception:
            continue
        yield pos, kw


# ------------------------------------------------------------------ one array in, one array (or a list) out
def cands(fn, shape):
    nd, ax = len(shape), list(range(-len(shape), len(shape)))
    if fn == "reshape":
        tgt = [list(s) for s in SHAPES] + [-1, 4, 6, 8, 9, 12, 18, 27, [-1, 1], [1, -1], [2, -1], [-1, 3], [3, -1, 3], [4, -1], [2, -1, 2], [6, -1], [9, -1]]
        return [([t], k) for t in tgt for k in ({}, {"order": "F"}, {"order": "A"})]
    if fn == "transpose":
        return [([], {})] + [([list(p)], {}) for p in itertools.permutations(range(nd))] + [([[a - nd for a in range(nd)][::-1]], {})]
    if fn == "moveaxis":
        return [([s, d], {}) for s in ax for d in ax] + [([[0, 1], [-1, 0]], {}), ([[0, -1], [1, 0]], {})]
    if fn == "expand_dims":
        return [([a], {}) for a in range(-nd - 1, nd + 1)]
    if fn in ("atleast_1d", "atleast_2d", "atleast_3d", "T"):
        return [([], {})]
    if fn in ("ravel", "flatten"):
        return [([], {}), ([], {"order": "C"}), ([], {"order": "F"}), ([], {"order": "A"}), ([], {"order": "K"})][: 5 if fn == "ravel" else 4]
    if fn == "repeat":
        out = [([r], k) for r in range(4) for k in [{}] + [{"axis": a} for a in ax]]
        return out + [([list(r)], {"axis": a}) for a in ax for r in itertools.product(range(3), repeat=shape[a])]
    if fn == "tile":
        return [([r], {}) for r in range(4)] + [([list(r)], {}) for d in (1, 2, 3) for r in itertools.product((0, 1, 2), repeat=d)]
    if fn == "diag":
        return [([], {})] + [([], {"k": k}) for k in range(-3, 4)] + [([k], {}) for k in (-1, 1)]
    if fn == "diagonal":
        return [([], {})] + [([], {"offset": o, "axis1": a, "axis2": b}) for o in range(-3, 4) for a in ax for b in ax] + [([o], {}) for o in (-1, 1)]
    secs = [1, 2, 3, 4, [], [0], [1], [2], [3], [1, 2], [1, 1], [0, 2], [2, 1], [1, 5], [-1]]
    if fn in ("split", "array_split"):
        return [([s], k) for s in secs for k in [{}] + [{"axis": a} for a in ax]]
    if fn in ("hsplit", "vsplit", "dsplit"):
        return [([s], {}) for s in secs]
    raise KeyError(fn)


UNARY = {"reshape": ("numpoly", "numpy", "method"), "transpose": ("numpoly", "numpy", "method"), "moveaxis": ("numpoly", "numpy"),
         "expand_dims": ("numpoly", "numpy"), "atleast_1d": ("numpoly", "numpy"), "atleast_2d": ("numpoly", "numpy"),
         "atleast_3d": ("numpoly", "numpy"), "repeat": ("numpoly", "numpy", "method"), "tile": ("numpoly", "numpy"),
         "diag": ("numpoly", "numpy"), "diagonal": ("numpoly", "numpy", "method"), "ravel": ("method",), "flatten": ("method",),
         "T": ("method",), "split": ("numpoly", "numpy"), "array_split": ("numpoly", "numpy"), "hsplit": ("numpoly", "numpy"),
         "vsplit": ("numpoly", "numpy"), "dsplit": ("numpoly", "numpy")}
QUICK = {"reshape": 120, "repeat": 100, "tile": 80, "diagonal": 80, "moveaxis": 60, "transpose": 60, "split": 80, "array_split": 80}


def gen_unary(fn):
    def gen(tier, rng):
        space = [(s, pos, kw) for s in SHAPES for pos, kw in accepted(fn, s, cands(fn, s), "method" if UNARY[fn] == ("method",) else "numpy")]
        if tier != "thorough":
            space = rng.sample(space, min(len(space), QUICK.get(fn, 40)))
        for i, (s, pos, kw) in enumerate(space):
            for layout in (("C", "T", "F") if tier == "thorough" and len(space) < 1500 else (("C", "T", "F")[i % 3],)):
                yield {"fn": fn, "a": rpoly(rng, s, layout), "layout": layout, "pos": pos, "kw": kw, "via": rng.choice(UNARY[fn])}
    return gen


def unary(inp):
    install_poison()
    x, m, bad = make(inp["a"], inp["layout"])
    if bad:
        return bad
    fn, via, before = inp["fn"], inp["via"], snapshot(x)
    want = call("method" if via == "method" else "numpy", fn, m, inp["pos"], inp["kw"])
    r = attempt(call, via, fn, x, inp["pos"], inp["kw"])
    judge = ok_seq if isinstance(want, (list, tuple)) else ok
    return judge(r, want, x.names, x.dtype) or unchanged(before, x)


for _fn, _vias in UNARY.items():
    check("C09", f"{_fn}.elements", gen_unary(_fn), functions=(f"numpoly.{_fn}",) if "numpoly" in _vias else ("numpoly.ndpoly",),
          note=BOUNDS + f"every argument list numpy accepts from a fixed candidate grid (all axes/orders/sections/offsets/k/repeats<=3 for these "
          f"shapes; results of size 0 included); spellings {'/'.join(_vias)}; thorough tier exhaustive over shape x arguments")(unary)


# ------------------------------------------------------------------ several arrays in
JOIN = ("concatenate", "stack", "hstack", "vstack", "dstack")
NAMESETS = [["q0"], ["q1"], ["q0", "q1"], ["q1", "q2"], ["q0", "q1", "q2"], ["q2"]]


def join_space():
    out = []
    for fn in JOIN:
        for s1 in SHAPES:
            for s2 in SHAPES:
                if len(s2) > len(s1) + 1 or len(s1) > len(s2) + 1:
                    continue
                for kw in [{}] + ([{"axis": a} for a in [None] + list(range(-len(s1) - 1, len(s1) + 1))] if fn in JOIN[:2] else []):
                    try:
                        getattr(numpy, fn)([numpy.empty(s1, object), numpy.empty(s2, object)], **kw)
                    except Exception:
                        continue
                    out.append((fn, s1, s2, kw))
    return out


def gen_join(tier, rng):
    space = join_space()
    if tier != "thorough":
        space = rng.sample(space, 250)
    for i, (fn, s1, s2, kw) in enumerate(space):
        lay = [("C", "T", "F")[i % 3], ("C", "C", "F", "T")[i % 4]]
        ops = [rpoly(rng, s1, lay[0], names=rng.choice(NAMESETS)), rpoly(rng, s2, lay[1], names=rng.choice(NAMESETS))]
        if rng.random() < 0.3:      # a third operand: another polynomial or a plain array
            k = rng.randrange(2)
            extra = rpoly(rng, (s1, s2)[k], lay[k], names=rng.choice(NAMESETS))
            ops.append(extra if rng.random() < 0.7 else {"array": nested(rng, (s1, s2)[k], [-1, 0, 2]), "dtype": "int64"})
            lay.append(lay[k])
        yield {"fn": fn, "ops": ops, "layouts": lay, "kw": kw, "via": rng.choice(["numpoly", "numpy"])}


def joined_names(specs, xs):
    union = {n for s, x in zip(specs, xs) if "poly" in s for n in x.names}
    plain = any("poly" not in s for s in specs)
    return lambda got: union <= got and (got <= union | {"q0"} if plain else got == union)


def build_all(specs, layouts):
    xs, ms = [], []
    for s, l in zip(specs, layouts):
        x, m, bad = make(s, l)
        if bad:
            return None, None, bad
        xs.append(x)
        ms.append(m)
    return xs, ms, None


@check("C09", "join.elements", gen_join, functions=tuple(f"numpoly.{f}" for f in JOIN),
       note=BOUNDS + "concatenate/stack (every axis incl. None and default) and hstack/vstack/dstack of 2-3 operands whose shapes numpy "
            "accepts, operands over different indeterminates and term sets, sometimes a plain int array; thorough exhaustive over shape pairs x axis")
def join(inp):
    import numpoly
    install_poison()
    xs, ms, bad = build_all(inp["ops"], inp["layouts"])
    if bad:
        return bad
    before = [snapshot(x) for x in xs]
    want = getattr(numpy, inp["fn"])(ms, **inp["kw"])
    r = attempt(getattr(numpoly if inp["via"] == "numpoly" else numpy, inp["fn"]), xs, **inp["kw"])
    return (ok(r, want, joined_names(inp["ops"], xs), numpy.result_type(*[x.dtype for x in xs]))
            or next((e for e in (unchanged(b, x, f"operand {i}") for i, (b, x) in enumerate(zip(before, xs))) if e), None))


def bshapes():
    return [c for n in (1, 2, 3) for c in itertools.product(SHAPES, repeat=n) if n < 3 or all(len(s) < 3 for s in c)]


def gen_broadcast(tier, rng):
    space = [c for c in bshapes() if fits(*c) is not None]
    if tier != "thorough":
        space = rng.sample(space, 150)
    for i, c in enumerate(space):
        lay = [("C", "T", "F")[(i + j) % 3] for j in range(len(c))]
        yield {"ops": [rpoly(rng, s, l, names=rng.choice(NAMESETS)) for s, l in zip(c, lay)], "layouts": lay, "via": rng.choice(["numpoly", "numpy"])}


@check("C09", "broadcast_arrays.elements", gen_broadcast, functions=("numpoly.broadcast_arrays",),
       note=BOUNDS + "1-3 operands (3 operands: <=2 dimensions) of every broadcastable shape combination, different indeterminates; "
            "each result keeps its own names and dtype; thorough exhaustive over shape combinations")
def broadcast(inp):
    import numpoly
    install_poison()
    xs, ms, bad = build_all(inp["ops"], inp["layouts"])
    if bad:
        return bad
    before = [snapshot(x) for x in xs]
    want = numpy.broadcast_arrays(*ms)
    r = attempt((numpoly if inp["via"] == "numpoly" else numpy).broadcast_arrays, *xs)
    return (ok_seq(r, want, {i: x.names for i, x in enumerate(xs)}, [x.dtype for x in xs])
            or next((e for e in (unchanged(b, x, f"operand {i}") for i, (b, x) in enumerate(zip(before, xs))) if e), None))


def gen_where(tier, rng):
    ok_ = [c for c in itertools.product(SHAPES, repeat=3) if (all(len(s) < 3 for s in c) or len(set(c)) == 1) and fits(*c) is not None]
    for i, (sc, s1, s2) in enumerate(ok_ if tier == "thorough" else rng.sample(ok_, 150)):
        lay = [("C", "T", "F")[i % 3], ("C", "F", "T", "C")[i % 4]]
        y = rpoly(rng, s2, lay[1], names=rng.choice(NAMESETS)) if rng.random() < 0.85 else {"array": nested(rng, s2, [-1, 0, 2]), "dtype": "int64"}
        yield {"cond": nested(rng, sc, [True, False]), "ops": [rpoly(rng, s1, lay[0], names=rng.choice(NAMESETS)), y], "layouts": lay,
               "via": rng.choice(["numpoly", "numpy"])}


@check("C09", "where.elements", gen_where, functions=("numpoly.where",),
       note=BOUNDS + "boolean condition and two operands of every broadcastable shape triple (<=2 dimensions, or three equal 3-d shapes), "
            "operands over different indeterminates, sometimes a plain int array; thorough exhaustive over shape triples")
def where(inp):
    import numpoly
    install_poison()
    xs, ms, bad = build_all(inp["ops"], inp["layouts"])
    if bad:
        return bad
    cond = numpy.array(inp["cond"], dtype=bool)
    before = [snapshot(x) for x in xs]
    want = numpy.where(cond, ms[0], ms[1])
    r = attempt((numpoly if inp["via"] == "numpoly" else numpy).where, cond, xs[0], xs[1])
    return (ok(r, want, joined_names(inp["ops"], xs), numpy.result_type(*[x.dtype for x in xs]))
            or next((e for e in (unchanged(b, x, f"operand {i}") for i, (b, x) in enumerate(zip(before, xs))) if e), None))


def gen_choose(tier, rng):
    space = [(n, s, sa) for n in (1, 2, 3) for s in SHAPES[:13] for sa in SHAPES[:13] if fits(s, sa) is not None]
    for i, (n, s, sa) in enumerate(space if tier == "thorough" else rng.sample(space, 120)):
        mode = rng.choice(["raise", "raise", "wrap", "clip"])
        pool = list(range(n)) if mode == "raise" else list(range(-n - 1, n + 2))
        lay = ("C", "T", "F")[i % 3]
        yield {"a": nested(rng, sa, pool), "choices": rpoly(rng, (n,) + s, lay), "layout": lay,
               "kw": {} if mode == "raise" and rng.random() < 0.5 else {"mode": mode}, "via": rng.choice(["numpoly", "numpy"])}


@check("C09", "choose.elements", gen_choose, functions=("numpoly.choose",),
       note=BOUNDS + "1-3 choices of 0-2 dimensions, index array of every broadcastable shape, modes raise (indices in range), "
            "wrap and clip (indices in -n-1..n+1); thorough exhaustive over shape pairs")
def choose(inp):
    import numpoly
    install_poison()
    x, m, bad = make(inp["choices"], inp["layout"])
    if bad:
        return bad
    a = numpy.array(inp["a"], dtype=int)
    before = snapshot(x)
    want = numpy.choose(a, m, **inp["kw"])
    r = attempt((numpoly if inp["via"] == "numpoly" else numpy).choose, a, x, **inp["kw"])
    return ok(r, want, x.names, x.dtype) or unchanged(before, x)


def gen_full(tier, rng):
    tgt = [[0], [2, 0]] + [list(s) for s in SHAPES] + [1, 2, 3]
    for i in range(count(tier, 150, 1500)):
        shape = rng.choice(tgt)
        tup = tuple(shape) if isinstance(shape, list) else (shape,)
        fs = rng.choice([s for s in SHAPES if fits(s, tup) == tup] if rng.random() < 0.3 and 0 not in tup else [()])
        lay = ("C", "T", "F")[i % 3]
        inp = {"fn": "full", "shape": shape, "fill": rpoly(rng, fs, lay), "layout": lay, "kw": rng.choice([{}, {}, {"order": "F"}, {"order": "C"}])}
        if rng.random() < 0.5:
            like = rpoly(rng, rng.choice(SHAPES), lay, names=rng.choice(NAMESETS))
            like["poly"]["dtype"] = inp["fill"]["poly"]["dtype"]
            inp.update(fn="full_like", like=like, kw=dict(inp["kw"], **rng.choice([{}, {"shape": shape}])))
            if "shape" not in inp["kw"]:
                inp["fill"] = rpoly(rng, (), lay)
                inp["fill"]["poly"]["dtype"] = like["poly"]["dtype"]
        yield dict(inp, via="numpoly" if inp["fn"] == "full" else rng.choice(["numpoly", "numpy"]))


@check("C09", "full.elements", gen_full, functions=("numpoly.full", "numpoly.full_like"),
       note=BOUNDS + "full(shape, p) and full_like(a, p[, shape=]) for every target shape (also int shapes and extents 0), fill polynomial "
            "0-d or broadcastable to the target, fill and prototype of the same coefficient dtype, order C/F; sampled")
def full(inp):
    import numpoly
    install_poison()
    f, mf, bad = make(inp["fill"], inp["layout"])
    if bad:
        return bad
    before = snapshot(f)
    if inp["fn"] == "full":
        want = numpy.full(inp["shape"], mf, dtype=object, **inp["kw"])
        r = attempt(numpoly.full, inp["shape"], f, **inp["kw"])
        return ok(r, want, f.names, f.dtype) or unchanged(before, f, "fill value")
    a, ma, bad = make(inp["like"], inp["layout"])
    if bad:
        return bad
    ba = snapshot(a)
    want = numpy.full_like(ma, mf, **inp["kw"])
    r = attempt((numpoly if inp["via"] == "numpoly" else numpy).full_like, a, f, **inp["kw"])
    return ok(r, want, f.names, a.dtype) or unchanged(before, f, "fill value") or unchanged(ba, a, "prototype")


# ------------------------------------------------------------------ indexing and iteration
def axis_items(n):
    ints = [0, -1, n - 1, -n]
    sl = [[None, None, None], [1, None, None], [None, -1, None], [None, None, -1], [None, None, 2], [0, 0, None], [-2, None, None], [5, None, None]]
    arr = [{"a": [0]}, {"a": [n - 1, 0]}, {"a": [[0], [-1]]}, {"l": [0, n - 1, 0]}, {"a": []}, {"b": [i % 2 == 0 for i in range(n)]}, {"b": [False] * n}]
    return sorted(set(ints)) + [{"s": s} for s in sl] + arr


def decode(idx):
    out = []
    for it in idx:
        if isinstance(it, dict):
            it = (slice(*it["s"]) if "s" in it else it["l"] if "l" in it else
                  numpy.array(it["a"], dtype=int) if "a" in it else numpy.array(it["b"], dtype=bool))
        out.append(Ellipsis if it == "..." else it)
    return out


def gen_index(tier, rng):
    def valid(s, idx):
        try:
            numpy.empty(s, object)[tuple(decode(idx))]
            return True
        except Exception:
            return False
    for i in range(count(tier, 400, 6000)):
        s = rng.choice(SHAPES)
        for _ in range(20):
            idx = [rng.choice(axis_items(n)) for n in s[: rng.randint(0, len(s))]]
            for extra in ("...", None, None):
                if rng.random() < 0.2:
                    idx.insert(rng.randint(0, len(idx)), extra)
            if rng.random() < 0.1 and s:
                k = rng.randint(1, len(s))
                idx = [{"b": nested(rng, s[:k], [True, False])}] + idx[k:]
            if idx.count("...") < 2 and valid(s, idx):
                break
        else:
            idx = []
        lay = ("C", "T", "F")[i % 3]
        yield {"a": rpoly(rng, s, lay), "layout": lay, "index": idx, "bare": len(idx) == 1 and rng.random() < 0.7}


@check("C09", "getitem.elements", gen_index, functions=("numpoly.ndpoly.__getitem__",),
       note=BOUNDS + "index tuples over ints (incl. negative), slices (incl. negative step, empty, out of range), Ellipsis, newaxis, "
            "integer arrays / lists (1-d, 2-d, empty), boolean masks per axis and over leading axes; sampled among those numpy accepts")
def getitem(inp):
    install_poison()
    x, m, bad = make(inp["a"], inp["layout"])
    if bad:
        return bad
    idx = decode(inp["index"])
    idx = idx[0] if inp["bare"] else tuple(idx)
    before = snapshot(x)
    want = m[idx]
    r = attempt(lambda: x[idx])
    return ok(r, want, x.names, x.dtype) or unchanged(before, x)


def gen_iter(tier, rng):
    for i, s in enumerate([s for s in SHAPES if s] * count(tier, 3, 30)):
        lay = ("C", "T", "F")[(i // 39 + i) % 3]
        yield {"a": rpoly(rng, s, lay), "layout": lay, "how": rng.choice(["list", "for", "unpack", "flat"])}


@check("C09", "iteration.elements", gen_iter, functions=("numpoly.ndpoly.__iter__", "numpoly.ndpoly.flat"),
       note=BOUNDS + "every shape of 1-3 dimensions; list(p), for-loop, tuple unpacking, p.flat: as many items as numpy yields, item i is p[i]")
def iteration(inp):
    install_poison()
    x, m, bad = make(inp["a"], inp["layout"])
    if bad:
        return bad
    before = snapshot(x)
    walk = {"flat": lambda a: list(a.flat), "for": lambda a: [e for e in a], "unpack": lambda a: (lambda *e: list(e))(*a), "list": list}[inp["how"]]
    return ok_seq(attempt(walk, x), walk(m), x.names, x.dtype, "items") or unchanged(before, x)
