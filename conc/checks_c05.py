"""C05 run-time contracts: polynomial division (`poly_divmod`, `poly_divide`, `poly_remainder`, `/`, `%`, `divmod`)
against the exact sparse-polynomial oracle.  Bounded stand-in: termination of the candidate loop and the
floating-point quotients are outside the prover's reach."""
from __future__ import annotations
import importlib
import operator
from fractions import Fraction
import numpy
from .common import check
from .gen import rand_poly, nested, count, INT_COEFFS
from .model import MPoly, operand, operand_model, from_ndpoly, obj_map, same, describe
from .wf import wf, snapshot, install_poison

PAIRS = [((), ()), ((), ()), ((2,), ()), ((), (2,)), ((2,), (2,)), ((2, 2), (2,)), ((2,), (2, 2)), ((2, 2), (2, 2)),
         ((2, 2), ()), ((2, 1), (1, 2)), ((1,), (2,))]
MAX_ROUNDS = 10000
TOL = Fraction(1, 10 ** 9)


class NoTermination(Exception):
    pass


class rounds:
    """Counts the rounds of the candidate loop of poly_divmod (harness-side wrapper of get_division_candidate);
    stops the call when the loop state (remaining dividend, divisor) repeats or after MAX_ROUNDS rounds."""

    def __enter__(self):
        self.mod = importlib.import_module("numpoly.poly_function.divide.divmod")
        self.orig, self.n, seen = self.mod.get_division_candidate, 0, set()

        def counted(x1, x2, *a, **k):
            self.n += 1
            if self.n > MAX_ROUNDS:
                raise NoTermination(f"more than {MAX_ROUNDS} candidate rounds")
            key = tuple((tuple(p.names), str(p.dtype), p.shape, numpy.asarray(p.exponents).tolist().__repr__(),
                         tuple(numpy.asarray(c).tobytes() for c in p.coefficients)) for p in (x1, x2))
            if key in seen:
                raise NoTermination(f"round {self.n} meets the same (remaining dividend, divisor) as an earlier round: "
                                    f"the loop cycles and never returns; remaining dividend {x1}, divisor {x2}")
            seen.add(key)
            return self.orig(x1, x2, *a, **k)
        self.mod.get_division_candidate = counted
        return self

    def __exit__(self, *exc):
        self.mod.get_division_candidate = self.orig
        return False


def divmod_checked(x, y):
    """(q, r, None) or (None, None, description)."""
    import numpoly
    try:
        with rounds():
            q, r = numpoly.poly_divmod(x, y)
    except NoTermination as e:
        return None, None, f"poly_divmod does not terminate: {e}"
    for what, p in (("quotient", q), ("remainder", r)):
        msg = wf(p, what)
        if msg:
            return None, None, msg
        if not all(numpy.all(numpy.isfinite(c)) for c in p.coefficients):
            return None, None, f"{what} has non-finite coefficients: {p}"
    return q, r, None


def mag(*polys):
    return max([Fraction(1)] + [abs(c) for p in polys for c in p.t.values()])


def close(got, want, scale=None):
    """Coefficient-wise equality up to relative 1e-9 (exact when the arithmetic was exact)."""
    d = got - want
    return d.is_zero() or max(abs(c) for c in d.t.values()) <= TOL * (scale or mag(want))


def bcast(model, shape):
    return numpy.broadcast_to(model, shape)


def model_spec(model, dtype):
    """JSON polynomial spec of an object array of MPoly (generator side: exact multiples)."""
    names = sorted({n for idx in numpy.ndindex(*model.shape) for n in model[idx].names()}) or ["q0"]
    monos = sorted({m for idx in numpy.ndindex(*model.shape) for m in model[idx].t}) or [()]

    def coeff(m, idx=()):
        if len(idx) == model.ndim:
            c = model[idx].t.get(m, Fraction(0))
            return float(c) if dtype == "float64" else int(c)
        return [coeff(m, idx + (i,)) for i in range(model.shape[len(idx)])]
    return {"names": names, "exponents": [[dict(m).get(n, 0) for n in names] for m in monos],
            "coefficients": [coeff(m) for m in monos], "dtype": dtype}


def P(names, terms, dtype="int64"):
    return {"poly": {"names": names, "exponents": [list(e) for e, _ in terms], "coefficients": [c for _, c in terms], "dtype": dtype}}


# dividends / divisors named in the property: several incomparable leading terms, per-element different leading terms, zeros
FIXED = [
    (P(["q0", "q1"], [((1, 2), 1)]), P(["q0", "q1"], [((0, 2), 1), ((1, 0), -2)])),                      # q0*q1**2 / (q1**2-2*q0)
    (P(["q0", "q1"], [((2, 2), 1), ((0, 0), 1)]), P(["q0", "q1"], [((0, 2), 1), ((1, 0), -2)])),
    (P(["q0", "q1"], [((2, 1), 1)]), P(["q0", "q1"], [((2, 0), 1), ((0, 1), 1)])),                        # q0**2*q1 / (q0**2+q1)
    (P(["q0", "q1", "q2"], [((1, 1, 1), 2.0)], "float64"), P(["q0", "q1", "q2"], [((1, 0, 0), 1), ((0, 1, 0), 1), ((0, 0, 1), 1)])),
    (P(["q0", "q1"], [((2, 0), [1, 0]), ((1, 1), [1, 1]), ((0, 0), [0, 3])]), P(["q0", "q1"], [((1, 0), [1, 0]), ((0, 1), [0, 2]), ((0, 0), [2, 0])])),
    (P(["q0"], [((3,), 1), ((0,), -1)]), P(["q0"], [((1,), [1, 0]), ((0,), [-1, 0])])),                  # zero divisor element
    (P(["q0"], [((2,), 1.0)], "float64"), {"num": 0}),
    ({"array": [[1, 2], [3, 4]], "dtype": "int64"}, P(["q1"], [((1,), [1, 0]), ((0,), [1, 2])])),
    # elements with different leading terms and coefficients so large that a product computed for an element it is NOT used
    # for overflows to inf: the discarded value must not reach the running remainder (inf * 0 = nan never compares equal to 0)
    (P(["q0"], [((2,), [2.0 ** 520, 1.0])], "float64"), P(["q0"], [((1,), [2.0 ** 520, 0.0]), ((2,), [0.0, 1.0])], "float64")),
    (P(["q0", "q1"], [((2, 0), [1e200, 1.0]), ((0, 1), [0.0, 1.0])], "float64"), P(["q0", "q1"], [((1, 0), [1e200, 0.0]), ((0, 1), [0.0, 2.0])], "float64")),
]


def rand_side(rng, shape, names, plain=0.15):
    r = rng.random()
    if r < plain / 2:
        return {"num": rng.choice([-2, -1, 1, 2, 3, 0.5, 0])}
    if r < plain:
        return {"array": nested(rng, tuple(shape), INT_COEFFS), "dtype": "int64"}
    return {"poly": rand_poly(rng, shape=shape, names=names, dtype="float64" if rng.random() < 0.3 else "int64")}


def rand_names(rng, weights=(1, 1, 2, 2, 3)):
    # (q10 sorts before q2 as a string and after it as a name: alignment has to go by the number)
    return sorted(rng.sample(["q0", "q1", "q2", "q10"] if rng.random() < 0.3 else ["q0", "q1", "q2"], rng.choice(weights)), key=lambda n: int(n[1:]))


def gen_identity(tier, rng):
    for a, b in FIXED:
        yield {"a": a, "b": b}
    for _ in range(count(tier, 150, 1500)):
        s1, s2 = rng.choice(PAIRS)
        names = rand_names(rng)
        a = rand_side(rng, s1, names if rng.random() < 0.8 else rand_names(rng))
        b = rand_side(rng, s2, names)
        if "poly" not in a and "poly" not in b:
            a = {"poly": rand_poly(rng, shape=s1, names=names)}
        yield {"a": a, "b": b}


@check("C05", "divmod.terminates_identity", gen_identity, functions=("numpoly.poly_divmod", "numpoly.poly_function.divide.divmod.get_division_candidate"),
       note="bounded: dividend/divisor with <=3 terms, 1-3 indeterminates from q0,q1,q2,q10, exponents<=3, int64/float64 coefficients incl. zero "
            "elements, 10 broadcasting shape pairs over (),(1,),(2,),(2,1),(1,2),(2,2), number/array operands, plus 10 fixed pairs "
            "(q0*q1**2 / (q1**2-2*q0), ..., two with coefficients near the float64 overflow threshold); termination = returns within the per-input limit, loop state never repeats, "
            f"<= {MAX_ROUNDS} candidate rounds; identity dividend == q*divisor + r exact or to relative 1e-9 per coefficient")
def terminates_identity(inp):
    install_poison()
    x, y = operand(inp["a"]), operand(inp["b"])
    bx, by = snapshot(x), snapshot(y)
    q, r, msg = divmod_checked(x, y)
    if msg:
        return msg
    am, bm = operand_model(inp["a"]), operand_model(inp["b"])
    shape = numpy.broadcast_shapes(am.shape, bm.shape)
    if q.shape != shape or r.shape != shape:
        return f"shapes of (q, r) are {q.shape}, {r.shape}; operands broadcast to {shape}"
    qm, rm, am, bm = from_ndpoly(q), from_ndpoly(r), bcast(am, shape), bcast(bm, shape)
    for idx in numpy.ndindex(*shape):
        back = qm[idx] * bm[idx] + rm[idx]
        if not close(back, am[idx], mag(am[idx], qm[idx] * bm[idx], rm[idx])):
            return (f"element {idx}: dividend {am[idx]!r}, divisor {bm[idx]!r}, q {qm[idx]!r}, r {rm[idx]!r}: "
                    f"q*divisor + r = {back!r}")
    if snapshot(x) != bx or snapshot(y) != by:
        return "an operand was modified by the call"
    return None


# ------------------------------------------------------------------ constant divisor elements
def gen_constant(tier, rng):
    for _ in range(count(tier, 80, 800)):
        s1, s2 = rng.choice(PAIRS)
        names = rand_names(rng)
        a = {"poly": rand_poly(rng, shape=s1, names=names, dtype=rng.choice(["int64", "int64", "float64"]))}
        nz = [-3, -2, -1, 1, 2, 4]
        r = rng.random()
        if rng.random() < 0.15:
            # a constant divisor of large magnitude: the quotient's coefficients are tiny (1e-16 .. 1e-25), the remainder is still 0
            big = [4e16, -2.5e17, 1e20, -3e25, 8e16]
            b = {"num": rng.choice(big)} if r < 0.5 else {"array": nested(rng, s2, big), "dtype": "float64"}
        elif r < 0.2:
            b = {"num": rng.choice(nz + [0.5, -1.5])}
        elif r < 0.4:
            b = {"array": nested(rng, s2, nz), "dtype": rng.choice(["int64", "float64"])}
        elif r < 0.6:
            b = P(names, [(tuple([0] * len(names)), nested(rng, s2, nz))], rng.choice(["int64", "float64"]))
        else:            # some elements constant, the others proper polynomials
            d = rand_poly(rng, shape=s2, names=names, force_const_row=True)
            mask = nested(rng, s2, [True, False])
            zero = lambda c, m: ([zero(ci, mi) for ci, mi in zip(c, m)] if isinstance(c, list) else (0 if m else c))
            cst = lambda c, m: ([cst(ci, mi) for ci, mi in zip(c, m)] if isinstance(c, list) else (rng.choice(nz) if m else c))
            d["coefficients"] = [cst(d["coefficients"][0], mask)] + [zero(c, mask) for c in d["coefficients"][1:]]
            b = {"poly": d}
        yield {"a": a, "b": b}


@check("C05", "divmod.constant_divisor", gen_constant, functions=("numpoly.poly_divmod",),
       note="bounded: dividend space of divmod.terminates_identity; divisor a non-zero number, array or constant polynomial, or a "
            "polynomial array in which a random subset of elements is a non-zero constant; on those elements q == dividend/c "
            "(relative 1e-9) and r == 0; a seventh of the divisors are constants of magnitude 4e16 .. 3e25 (tiny quotient coefficients)")
def constant_divisor(inp):
    install_poison()
    q, r, msg = divmod_checked(operand(inp["a"]), operand(inp["b"]))
    if msg:
        return msg
    am, bm = operand_model(inp["a"]), operand_model(inp["b"])
    shape = numpy.broadcast_shapes(am.shape, bm.shape)
    if q.shape != shape or r.shape != shape:
        return f"shapes of (q, r) are {q.shape}, {r.shape}; operands broadcast to {shape}"
    qm, rm, am, bm = from_ndpoly(q), from_ndpoly(r), bcast(am, shape), bcast(bm, shape)
    for idx in numpy.ndindex(*shape):
        if bm[idx].is_const() and not bm[idx].is_zero():
            c = bm[idx].const_value()
            if not close(qm[idx], am[idx].scale(1 / c)) or not close(rm[idx], MPoly(), mag(am[idx])):
                return f"element {idx}: dividend {am[idx]!r} / constant {c}: q {qm[idx]!r}, r {rm[idx]!r}"
    return None


# ------------------------------------------------------------------ exact multiples
def gen_multiple(tier, rng):
    for b in (P(["q0", "q1"], [((0, 2), 1), ((1, 0), -2)]), P(["q0", "q1"], [((2, 0), 1), ((0, 1), 1)])):
        for cof in (P(["q0", "q1"], [((1, 0), 1)]), P(["q0", "q1"], [((0, 1), 1), ((0, 0), 1)]), P(["q0", "q1"], [((1, 1), 2), ((0, 0), -1)])):
            yield {"cof": cof, "b": b, "a": {"poly": model_spec(obj_map(operator.mul, operand_model(cof), operand_model(b)), "int64")}}
    # sparse dividends of high degree: many more reduction rounds than the operands have terms
    for k in (6, 10, 13):
        b = P(["q0"], [((1,), 1), ((0,), -1)])                                  # q0 - 1
        cof = P(["q0"], [((e,), 1) for e in range(k)])                          # 1 + q0 + ... + q0**(k-1)
        yield {"cof": cof, "b": b, "a": {"poly": model_spec(obj_map(operator.mul, operand_model(cof), operand_model(b)), "int64")}}
        b2 = P(["q0", "q1"], [((0, 1), 1), ((1, 0), -1)])                       # q1 - q0
        cof2 = P(["q0", "q1"], [((e, k - 1 - e), 1) for e in range(k)])         # sum q0**e * q1**(k-1-e)
        yield {"cof": cof2, "b": b2, "a": {"poly": model_spec(obj_map(operator.mul, operand_model(cof2), operand_model(b2)), "int64")}}
    for _ in range(count(tier, 100, 1000)):
        s1, s2 = rng.choice(PAIRS)
        names = rand_names(rng, (1, 2, 2, 3))
        dt = rng.choice(["int64", "int64", "float64"])
        cof = {"poly": rand_poly(rng, shape=s1, names=names if rng.random() < 0.7 else rand_names(rng), maxterms=2, maxexp=2, dtype=dt)}
        b = {"poly": rand_poly(rng, shape=s2, names=names, dtype=dt)}
        prod = obj_map(operator.mul, operand_model(cof), operand_model(b))
        yield {"cof": cof, "b": b, "a": {"poly": model_spec(prod, dt)}}


@check("C05", "divmod.exact_multiple", gen_multiple, functions=("numpoly.poly_divmod",),
       note="bounded: dividend = cofactor*divisor computed exactly by the oracle; cofactor <=2 terms, exponents<=2, divisor <=3 "
            "terms, exponents<=3, 1-3 indeterminates, int64/float64 (dyadic) coefficients, the 10 shape pairs, 6 fixed cases with "
            "incomparable leading terms; on elements with non-zero divisor r == 0 and q == cofactor (relative 1e-9)")
def exact_multiple(inp):
    install_poison()
    q, r, msg = divmod_checked(operand(inp["a"]), operand(inp["b"]))
    if msg:
        return msg
    cm, bm, am = operand_model(inp["cof"]), operand_model(inp["b"]), operand_model(inp["a"])
    shape = am.shape
    if q.shape != shape or r.shape != shape:
        return f"shapes of (q, r) are {q.shape}, {r.shape}; operands broadcast to {shape}"
    qm, rm, cm, bm = from_ndpoly(q), from_ndpoly(r), bcast(cm, shape), bcast(bm, shape)
    for idx in numpy.ndindex(*shape):
        if bm[idx].is_zero():
            continue
        if not close(rm[idx], MPoly(), mag(am[idx])) or not close(qm[idx], cm[idx]):
            return (f"element {idx}: ({cm[idx]!r}) * ({bm[idx]!r}) divided by ({bm[idx]!r}): q {qm[idx]!r}, r {rm[idx]!r}")
    return None


# ------------------------------------------------------------------ one indeterminate: degree of the remainder
def gen_univariate(tier, rng):
    for k in (7, 12):          # sparse, high degree: q0**k / (q0 + 1), (q0**k + 3) / (2*q0**2 - 1)
        yield {"a": P(["q0"], [((k,), 1)]), "b": P(["q0"], [((1,), 1), ((0,), 1)])}
        yield {"a": P(["q0"], [((k,), 1), ((0,), 3)], "float64"), "b": P(["q0"], [((2,), 2), ((0,), -1)], "float64")}
    for _ in range(count(tier, 100, 1000)):
        s1, s2 = rng.choice(PAIRS)
        names = [rng.choice(["q0", "q1", "q2"])]
        a = rand_side(rng, s1, names, plain=0.1)
        b = rand_side(rng, s2, names, plain=0.1)
        if "poly" not in a and "poly" not in b:
            b = {"poly": rand_poly(rng, shape=s2, names=names)}
        yield {"a": a, "b": b}


@check("C05", "divmod.univariate_degree", gen_univariate, functions=("numpoly.poly_divmod",),
       note="bounded: one indeterminate, <=3 terms, exponents<=3, the 10 shape pairs, number/array operands; on every element with "
            "non-zero divisor r == 0 or deg r < deg divisor (coefficients below relative 1e-9 count as zero)")
def univariate_degree(inp):
    install_poison()
    q, r, msg = divmod_checked(operand(inp["a"]), operand(inp["b"]))
    if msg:
        return msg
    am, bm = operand_model(inp["a"]), operand_model(inp["b"])
    shape = numpy.broadcast_shapes(am.shape, bm.shape)
    if r.shape != shape:
        return f"remainder shape {r.shape}; operands broadcast to {shape}"
    rm, qm, am, bm = from_ndpoly(r), from_ndpoly(q), bcast(am, shape), bcast(bm, shape)
    deg = lambda p, eps: max([sum(e for _, e in m) for m, c in p.t.items() if abs(c) > eps], default=-1)
    for idx in numpy.ndindex(*shape):
        if bm[idx].is_zero():
            continue
        eps = TOL * mag(am[idx], qm[idx] * bm[idx])
        if deg(rm[idx], eps) >= deg(bm[idx], 0):
            return f"element {idx}: dividend {am[idx]!r}, divisor {bm[idx]!r}: remainder {rm[idx]!r} (q {qm[idx]!r})"
    return None


# ------------------------------------------------------------------ operators
OPS = {"truediv": (operator.truediv, "poly_divide"), "mod": (operator.mod, "poly_remainder"), "divmod": (divmod, "poly_divmod")}


def gen_operators(left_kinds, quick, thorough):
    def gen(tier, rng):
        for _ in range(count(tier, quick, thorough)):
            s1, s2 = rng.choice(PAIRS)
            names = [rng.choice(["q0", "q1"])] if rng.random() < 0.7 else ["q0", "q1"]
            p = {"poly": rand_poly(rng, shape=s2, names=names, maxterms=2 if len(names) > 1 else 3,
                                   dtype=rng.choice(["int64", "int64", "float64"]))}
            if len(names) > 1:        # several indeterminates: single-term divisors / dividends only (termination is not at stake here)
                p["poly"]["exponents"], p["poly"]["coefficients"] = p["poly"]["exponents"][-1:], p["poly"]["coefficients"][-1:]
            kind = rng.choice(left_kinds)
            if kind == "poly":
                other = {"poly": rand_poly(rng, shape=s1, names=names, dtype=rng.choice(["int64", "float64"]))}
                if len(names) > 1:
                    other["poly"]["exponents"], other["poly"]["coefficients"] = other["poly"]["exponents"][-1:], other["poly"]["coefficients"][-1:]
            elif kind == "array":
                other = {"array": nested(rng, s1, [-2, -1, 0, 1, 2, 3, 0.5]), "dtype": rng.choice(["int64", "float64"])}
                other["array"] = numpy.array(other["array"], dtype=other["dtype"]).tolist()
            elif kind == "num":
                other = {"num": rng.choice([-2, -1, 0, 1, 2, 3, 0.5, 2.0, True])}
            else:
                other = {"npscalar": rng.choice([-2, 1, 3]), "dtype": rng.choice(["int64", "int32", "float64", "float32", "uint8"])}
                other["npscalar"] = abs(other["npscalar"]) if other["dtype"] == "uint8" else other["npscalar"]
            left = kind != "poly" or rng.random() < 0.5
            a, b = (other, p) if left and (kind == "npscalar" or rng.random() < 0.6) else (p, other)
            yield {"a": a, "b": b, "op": rng.choice(list(OPS))}
    return gen


def mk(spec):
    return numpy.dtype(spec["dtype"]).type(spec["npscalar"]) if "npscalar" in spec else operand(spec)


def operators_match(inp):
    import numpoly
    install_poison()
    op, fname = OPS[inp["op"]]
    x, y = mk(inp["a"]), mk(inp["b"])
    want = getattr(numpoly, fname)(x, y)
    try:
        got = op(x, y)
    except Exception as e:
        return f"operator {inp['op']} on ({type(x).__name__}, {type(y).__name__}) raised {type(e).__name__}: {str(e).strip()[:120]}"
    if inp["op"] != "divmod":
        got, want = (got,), (want,)
    if not isinstance(got, tuple) or len(got) != len(want):
        return f"operator returned {type(got).__name__} {got!r}"
    for part, g, w in zip(("quotient", "remainder") if inp["op"] == "divmod" else (fname,) , got, want):
        msg = wf(g, part)
        if msg:
            return msg
        if not all(numpy.all(numpy.isfinite(c)) for c in list(g.coefficients) + list(w.coefficients)):
            return f"{part}: non-finite coefficients: operator gives {g}, numpoly.{fname} gives {w}"
        if (g.shape, g.dtype, tuple(g.names)) != (w.shape, w.dtype, tuple(w.names)):
            return f"{part}: operator gives shape/dtype/names {g.shape} {g.dtype} {g.names}, numpoly.{fname} gives {w.shape} {w.dtype} {w.names}"
        gm, wm = from_ndpoly(g), from_ndpoly(w)
        if not same(gm, wm):
            return f"{part}: operator gives {describe(gm)}, numpoly.{fname} gives {describe(wm)}"
    return None


check("C05", "operators.match_functions", gen_operators(["poly", "array", "num", "num"], 100, 1000),
      functions=("numpoly.ndpoly.__truediv__", "numpoly.ndpoly.__rtruediv__", "numpoly.ndpoly.__mod__", "numpoly.ndpoly.__rmod__",
                 "numpoly.ndpoly.__divmod__", "numpoly.ndpoly.__rdivmod__", "numpoly.poly_divide", "numpoly.poly_remainder"),
      note="bounded: polynomial in 1 indeterminate (<=3 terms) or a monomial in 2, other operand polynomial / Python int, float, bool / "
           "int64 or float64 array on either side, the 10 shape pairs; `/`, `%`, divmod give the same model, shape, dtype and names "
           "as poly_divide / poly_remainder / poly_divmod on the same operands")(operators_match)

check("C05", "operators.numpy_scalar_left", gen_operators(["npscalar"], 40, 300),
      functions=("numpoly.ndpoly.__rtruediv__", "numpoly.ndpoly.__rmod__", "numpoly.ndpoly.__rdivmod__", "numpoly.ndpoly.__array_ufunc__"),
      note="bounded: as operators.match_functions with a numpy scalar (int32, int64, uint8, float32, float64) as the number on the "
           "left of `/`, `%`, divmod")(operators_match)
