"""C08 run-time contracts: spellings agree (numpy.f / numpoly.f / operator / method / ufunc.reduce);
every other numpy function of the override protocol, every other ufunc and ufunc method raises
FeatureNotSupported.  (Cross-check of the dispatch contracts + sweep of numpy's public API, which
is numpy C code the prover cannot see.)"""
from __future__ import annotations
import inspect
import operator
import numpy
from .common import check
from .gen import rand_poly, count
from .model import operand, from_ndpoly, same
from .wf import snapshot


def _equal_results(a, b):
    import numpoly
    if isinstance(a, (tuple, list)) and isinstance(b, (tuple, list)):
        if len(a) != len(b):
            return f"lengths {len(a)} vs {len(b)}"
        for x, y in zip(a, b):
            r = _equal_results(x, y)
            if r:
                return r
        return None
    if type(a) is not type(b):
        return f"types {type(a).__name__} vs {type(b).__name__}"
    if isinstance(a, numpoly.ndpoly):
        if a.shape != b.shape:
            return f"shapes {a.shape} vs {b.shape}"
        if a.dtype != b.dtype:
            return f"dtypes {a.dtype} vs {b.dtype}"
        if tuple(a.names) != tuple(b.names):
            return f"names {a.names} vs {b.names}"
        if not same(from_ndpoly(a), from_ndpoly(b)):
            return f"values {a} vs {b}"
        return None
    if isinstance(a, numpy.ndarray):
        if a.shape != b.shape or a.dtype != b.dtype or not numpy.array_equal(a, b):
            return f"arrays differ: {a!r} vs {b!r}"
        return None
    return None if a == b else f"{a!r} vs {b!r}"


UNARY = ["absolute", "negative", "positive", "ceil", "floor", "rint", "square", "isfinite", "around", "sum", "prod", "mean",
         "cumsum", "any", "all", "count_nonzero", "nonzero", "transpose", "atleast_1d", "atleast_2d", "atleast_3d",
         "amax", "amin", "argmax", "argmin", "ediff1d", "zeros_like", "ones_like", "array_str", "array_repr"]
BINARY = ["add", "subtract", "multiply", "maximum", "minimum", "greater", "greater_equal", "less", "less_equal", "equal",
          "not_equal", "logical_and", "logical_or", "outer", "inner", "matmul", "isclose", "allclose", "power"]
OPERATORS = {"add": operator.add, "subtract": operator.sub, "multiply": operator.mul, "greater": operator.gt,
             "greater_equal": operator.ge, "less": operator.lt, "less_equal": operator.le, "equal": operator.eq,
             "not_equal": operator.ne, "matmul": operator.matmul, "power": operator.pow, "negative": operator.neg, "positive": operator.pos,
             "absolute": abs}
METHODS = {"sum": "sum", "prod": "prod", "mean": "mean", "cumsum": "cumsum", "transpose": "transpose", "around": "round",
           "amax": "max", "amin": "min"}
REDUCE = {"sum": ("add", "reduce"), "cumsum": ("add", "accumulate"), "prod": ("multiply", "reduce"), "amax": ("maximum", "reduce"),
          "amin": ("minimum", "reduce"), "all": ("logical_and", "reduce"), "any": ("logical_or", "reduce")}


def gen_spell(tier, rng):
    for _ in range(count(tier, 150, 1200)):
        f = rng.choice(UNARY + BINARY)
        shape = rng.choice([(2,), (3,), (2, 2)])
        dt = rng.choice(["int64", "float64", "int64", "float64", "float32", "int16", "uint8", "uint32"])
        pool = [0, 1, 2, 3] if dt.startswith("u") else None
        a = rand_poly(rng, shape=shape, maxterms=2, maxexp=2, dtype=dt, pool=pool)
        inp = {"f": f, "a": {"poly": a}}
        if f in BINARY:
            inp["b"] = {"poly": rand_poly(rng, shape=shape if f != "outer" else (2,), maxterms=2, maxexp=2, dtype=rng.choice([dt, "int64"]),
                                          pool=pool)}
        if f == "power":
            inp["b"] = {"num": rng.choice([1, 2, 2, 3])}          # (a Python int exponent: `poly ** 2` is numpy.square for numpy)
        if f in ("greater", "greater_equal", "less", "less_equal", "equal", "not_equal", "add", "subtract", "multiply") and rng.random() < 0.3:
            # a plain array on the LEFT: Python evaluates the reflected operator of the ndarray subclass
            from .gen import nested
            inp["a"] = {"array": nested(rng, shape, pool or [-2, -1, 0, 1, 2, 3]), "dtype": dt}
        if f in ("amax", "amin", "argmax", "argmin"):
            inp["a"] = {"poly": rand_poly(rng, shape=shape, maxterms=2, maxexp=2, pool=[-3, -1, 1, 2, 5, 7, 11])}
        if rng.random() < 0.12 and "poly" in inp["a"] and f not in ("amax", "amin", "argmax", "argmin"):
            # a CONSTANT polynomial array that still carries several indeterminate names (e.g. a slice of a multivariate array):
            # a shortcut through plain numbers would lose the names in one spelling and not in the other
            from .gen import nested
            names = rng.choice([["q0", "q1"], ["q0", "q1", "q2"], ["q1", "q10"]])
            inp["a"] = {"poly": {"names": names, "exponents": [[0] * len(names)], "coefficients": [nested(rng, shape, pool or [-2, 1, 2, 3])],
                                 "dtype": dt, "retain": True}}
        yield inp
    # every function on a few constant arrays that carry several names (`poly ** 2` reaches numpy.square, numpy.power(poly, 2) does not)
    from .gen import nested
    for f in UNARY + BINARY:
        if f in ("amax", "amin", "argmax", "argmin"):
            continue
        for _ in range(count(tier, 1, 4)):
            shape = rng.choice([(2,), (2, 2)])
            names = rng.choice([["q0", "q1"], ["q0", "q1", "q2"], ["q1", "q10"]])
            dt = rng.choice(["int64", "float64"])
            const = lambda: {"poly": {"names": names, "exponents": [[0] * len(names)], "coefficients": [nested(rng, shape, [-2, 1, 2, 3])],
                                      "dtype": dt, "retain": True}}
            inp = {"f": f, "a": const()}
            if f in BINARY:
                inp["b"] = {"num": 2} if f == "power" else const() if rng.random() < 0.5 else \
                    {"poly": rand_poly(rng, shape=shape if f != "outer" else (2,), maxterms=2, maxexp=2, dtype=dt)}
                if f == "outer":
                    inp["a"]["poly"]["coefficients"] = [nested(rng, (2,), [-2, 1, 2, 3])]
            yield inp
    # comparisons with a plain unsigned array on the left (reflected operator) against a polynomial of the same unsigned type
    for f in ("greater", "greater_equal", "less", "less_equal"):
        for _ in range(count(tier, 4, 30)):
            dt = rng.choice(["uint8", "uint16", "uint64"])
            shape = rng.choice([(2,), (3,)])
            b = rand_poly(rng, shape=shape, maxterms=2, maxexp=1, dtype=dt, pool=[0, 1, 2, 5, 9], force_const_row=True)
            yield {"f": f, "a": {"array": nested(rng, shape, [0, 1, 3, 7, 200]), "dtype": dt}, "b": {"poly": b}}


@check("C08", "spellings.agree", gen_spell, functions=("numpoly.ndpoly.__array_ufunc__", "numpoly.ndpoly.__array_function__"),
       note="bounded: 48 registered functions x operands of shape (2,),(3,),(2,2) (an eighth of them constant arrays that carry 2-3 names); numpy.f, numpoly.f, operator, method and "
            "ufunc.reduce/accumulate spellings must return the same type, shape, dtype, names and values")
def spellings(inp):
    import numpoly
    f = inp["f"]
    args = [operand(inp["a"])] + ([operand(inp["b"])] if "b" in inp else [])
    try:
        ref = getattr(numpoly, f)(*args)
    except numpoly.FeatureNotSupported:
        ref = "FNS"
    except Exception as e:            # the numpoly spelling itself failing is judged by other properties
        return None

    def via(call, label):
        try:
            r = call()
        except numpoly.FeatureNotSupported:
            r = "FNS"
        except Exception as e:
            return f"{label} raised {type(e).__name__}: {e} while numpoly.{f} returned normally"
        if isinstance(ref, str) or isinstance(r, str):
            both = isinstance(ref, str) and isinstance(r, str)
            show = lambda v: "raises FeatureNotSupported" if isinstance(v, str) else f"returns {type(v).__name__}"
            return None if both else f"{label} {show(r)} while numpoly.{f} {show(ref)}"
        d = _equal_results(ref, r)
        return f"{label} differs from numpoly.{f}: {d}" if d else None
    npf = getattr(numpy, f, None) or getattr(numpy.linalg, f, None)
    r = via(lambda: npf(*args), f"numpy.{f}")
    if r:
        return r
    if f in OPERATORS:
        r = via(lambda: OPERATORS[f](*args), f"operator {f}")
        if r:
            return r
    if f in METHODS:
        r = via(lambda: getattr(args[0], METHODS[f])(), f"method .{METHODS[f]}()")
        if r:
            return r
    if f in REDUCE:
        uf, meth = REDUCE[f]
        kw = {"axis": None} if meth == "reduce" else {}
        if meth == "accumulate" and args[0].ndim != 1:
            return None
        r = via(lambda: getattr(getattr(numpy, uf), meth)(args[0], **kw), f"numpy.{uf}.{meth}")
        if r:
            return r
    return None


def _through_numpoly(exc):
    """Did the exception pass through numpoly's own code (as opposed to numpy rejecting the call
    before consulting the polynomial)?"""
    tb = exc.__traceback__
    while tb is not None:
        fn = tb.tb_frame.f_code.co_filename.replace("\\", "/")
        if "/numpoly/" in fn and "/conc/" not in fn:
            return True
        tb = tb.tb_next
    return False


def _protocol_functions():
    import numpoly
    out = []
    for mod, prefix in ((numpy, "numpy"), (numpy.linalg, "numpy.linalg"), (numpy.fft, "numpy.fft")):
        for name in sorted(dir(mod)):
            if name.startswith("_"):
                continue
            f = getattr(mod, name)
            if type(f).__name__ != "_ArrayFunctionDispatcher":
                continue
            if f in numpoly.FUNCTION_COLLECTION:
                continue
            out.append((f"{prefix}.{name}", f))
    return out


def gen_unsupported(tier, rng):
    names = [n for n, _ in _protocol_functions()]
    for n in names:
        yield {"function": n, "poly": rand_poly(rng, shape=(2, 2), maxterms=2, maxexp=2, dtype="float64")}


@check("C08", "unsupported_function.raises", gen_unsupported, functions=("numpoly.ndpoly.__array_function__",),
       note="sweep: every public callable of numpy, numpy.linalg, numpy.fft that is an array-function dispatcher and is not "
            "registered by numpoly, called with a polynomial in each array position; must raise FeatureNotSupported")
def unsupported_function(inp):
    import numpoly
    p = operand({"poly": inp["poly"]})
    table = dict(_protocol_functions())
    f = table.get(inp["function"])
    if f is None:
        return None
    before = snapshot(p)
    attempts = [(p,), (p, p), (p, 1), (p, p, p), (p, 1, 1), ([p, p],), (p, (2, 2)), (1, p), ((2, 2), p), (p, [0, 1]), (p, "f")]
    outcome = None
    for args in attempts:
        try:
            r = f(*args)
            outcome = f"returned {type(r).__name__} instead of raising FeatureNotSupported (args {len(args)})"
            break
        except numpoly.FeatureNotSupported:
            outcome = None
            break
        except Exception as e:
            if not _through_numpoly(e):
                outcome = "skip"               # numpy rejected the call by itself (arity, argument kinds)
                continue
            outcome = f"raised {type(e).__name__}({str(e)[:120]}) instead of FeatureNotSupported"
            break
    if snapshot(p) != before:
        return "argument modified"
    return None if outcome in (None, "skip") else f"{inp['function']}: {outcome}"


def gen_ufuncs(tier, rng):
    for name in sorted(dir(numpy)):
        f = getattr(numpy, name)
        if isinstance(f, numpy.ufunc):
            yield {"ufunc": name, "poly": rand_poly(rng, shape=(3,), maxterms=2, maxexp=2, dtype="float64", pool=[0.5, 1.0, 2.0])}


@check("C08", "ufunc_and_methods.raise_or_dispatch", gen_ufuncs, functions=("numpoly.ndpoly.__array_ufunc__",),
       note="sweep: every numpy ufunc; unregistered ufuncs and the methods outer/at/reduceat and unmapped reduce/accumulate "
            "must raise FeatureNotSupported (never KeyError, never a result from raw storage)")
def ufuncs(inp):
    import numpoly
    p = operand({"poly": inp["poly"]})
    uf = getattr(numpy, inp["ufunc"])
    registered = uf in numpoly.UFUNC_COLLECTION
    args = (p,) * uf.nin

    def expect_fns(call, label):
        try:
            r = call()
        except numpoly.FeatureNotSupported:
            return None
        except Exception as e:
            if not _through_numpoly(e):
                return None                    # numpy rejected the call by itself
            return f"{label} raised {type(e).__name__}({str(e)[:100]}) instead of FeatureNotSupported"
        return f"{label} returned {type(r).__name__} instead of raising FeatureNotSupported"
    if not registered:
        r = expect_fns(lambda: uf(*args), f"numpy.{inp['ufunc']}(poly)")
        if r:
            return r
    if uf.nin == 2 and uf.nout == 1:
        from numpoly.baseclass import REDUCE_MAPPINGS, ACCUMULATE_MAPPINGS
        r = expect_fns(lambda: uf.outer(p, p), f"numpy.{inp['ufunc']}.outer")
        if r:
            return r
        r = expect_fns(lambda: uf.reduceat(p, [0, 1]), f"numpy.{inp['ufunc']}.reduceat")
        if r:
            return r
        r = expect_fns(lambda: uf.at(p, [0], p[:1]), f"numpy.{inp['ufunc']}.at")
        if r:
            return r
        if not (uf in REDUCE_MAPPINGS and REDUCE_MAPPINGS[uf] in numpoly.UFUNC_COLLECTION):
            r = expect_fns(lambda: uf.reduce(p), f"numpy.{inp['ufunc']}.reduce")
            if r:
                return r
        if not (uf in ACCUMULATE_MAPPINGS and ACCUMULATE_MAPPINGS[uf] in numpoly.UFUNC_COLLECTION):
            r = expect_fns(lambda: uf.accumulate(p), f"numpy.{inp['ufunc']}.accumulate")
            if r:
                return r
    return None


# ------------------------------------------------------------------ the same call with an explicit output target
OUT_FUNCS = {"add": 2, "subtract": 2, "multiply": 2, "negative": 1, "positive": 1, "absolute": 1, "floor": 1, "ceil": 1, "rint": 1, "square": 1}
INPLACE = {"add": "__iadd__", "subtract": "__isub__"}     # (`*=` needs a left operand that already has every field of the product)


def gen_out(tier, rng):
    for f, arity in OUT_FUNCS.items():
        for _ in range(count(tier, 2, 12)):
            shape = rng.choice([(2,), (2, 2)])
            names = sorted(rng.sample(["q0", "q1", "q2"], 2))
            yield {"f": f, "a": {"poly": rand_poly(rng, shape=shape, names=names, maxterms=2, maxexp=2, dtype="float64")},
                   "b": {"poly": rand_poly(rng, shape=shape, names=names, maxterms=2, maxexp=2, dtype="float64")} if arity == 2 else None,
                   "how": rng.choice(["numpy_out", "numpy_out"] + (["inplace"] if f in INPLACE else []))}


@check("C08", "out_argument.spellings", gen_out, functions=("numpoly.ndpoly.__array_ufunc__", "numpoly.simple_dispatch", "numpoly.multiply"),
       note="bounded: 10 registered ufuncs called as numpy.f(..., out=x) and as numpoly.f(..., out=x) with an output array that has exactly the "
            "fields of the result, and the in-place operators += -= : the same polynomial must come out of every spelling")
def out_spellings(inp):
    import numpoly
    f = inp["f"]
    args = [operand(inp["a"])] + ([operand(inp["b"])] if inp.get("b") else [])
    try:
        ref = getattr(numpoly, f)(*args)
    except Exception:
        return None
    def target():
        # an output array with the storage layout of the result (same fields, names, shape, dtype), zero filled
        return numpoly.polynomial_from_attributes(ref.exponents, [c * 0 for c in ref.coefficients], ref.names, dtype=ref.dtype,
                                                  retain_coefficients=True, retain_names=True)
    x1 = target()
    try:
        r1 = getattr(numpoly, f)(*args, out=x1)
    except Exception as e:
        return None                  # (the numpoly spelling with out= failing is judged by other properties)
    if _equal_results(ref, r1):
        return None
    if inp["how"] == "inplace":
        lhs = numpoly.polynomial_from_attributes(ref.exponents, [c * 0 for c in ref.coefficients], ref.names, dtype=ref.dtype,
                                                 retain_coefficients=True, retain_names=True)
        lhs = numpoly.add(lhs, args[0], out=lhs)      # the left operand, stored with the result's layout
        try:
            r2 = getattr(lhs, INPLACE[f])(args[1])
        except Exception as e:
            return f"in-place operator {INPLACE[f]} raised {type(e).__name__}: {str(e)[:80]} (numpoly.{f}(..., out=) returns normally)"
        d = _equal_results(ref, r2)
        return f"in-place operator {INPLACE[f]} differs from numpoly.{f}: {d}" if d else None
    x2 = target()
    try:
        r2 = getattr(numpy, f)(*args, out=x2)
    except Exception as e:
        return f"numpy.{f}(..., out=x) raised {type(e).__name__}: {str(e)[:80]} (numpoly.{f}(..., out=x) returns normally)"
    d = _equal_results(ref, r2)
    return f"numpy.{f}(..., out=x) differs from numpoly.{f}(..., out=x): {d}" if d else None


# ------------------------------------------------------------------ in-place operators on a target that lacks terms of the result
def gen_inplace_lacking(tier, rng):
    for op in ("iadd", "isub", "out_add"):
        for case in ("new_indeterminate", "new_term_same_indeterminate", "constant_into_nonconstant"):
            yield {"op": op, "case": case}


@check("C08", "inplace.target_lacks_terms", gen_inplace_lacking, functions=("numpoly.simple_dispatch", "numpoly.ndpoly.__array_ufunc__"),
       note="9 fixed inputs: x += y, x -= y and numpy.add(x, y, out=x) where the sum has a term x has no storage for (another indeterminate, "
            "another power, a constant term): either the result equals x + y, or an exception says that the target cannot hold it - never a "
            "silently different polynomial")
def inplace_lacking(inp):
    import numpoly
    q0, q1 = numpoly.variable(2)
    x = numpoly.polynomial([q0, 2 * q0])
    y = {"new_indeterminate": q1, "new_term_same_indeterminate": q0 ** 2, "constant_into_nonconstant": 1}[inp["case"]]
    want = x - y if inp["op"] == "isub" else x + y
    try:
        if inp["op"] == "iadd":
            x += y
        elif inp["op"] == "isub":
            x -= y
        else:
            numpy.add(x, y, out=x)
    except Exception:      # noqa: BLE001 - refusing is fine
        return None
    if not bool(numpy.all(x == want)):
        return f"{inp['op']} with {inp['case']}: the target holds {x} afterwards, the sum is {want}; no exception was raised"
    return None
