"""C13 run-time contracts: pickle (every protocol), copy.copy / copy.deepcopy / .copy() reproduce a polynomial array
exactly; numpoly.savetxt / numpy.savetxt followed by numpoly.loadtxt restore shape, names and values; a file without
the numpoly header loads as a plain array.  Oracle: the exact model of the JSON spec (model.spec_model) against
model.from_ndpoly of the reproduced array, plus direct comparison of shape / dtype / names / exponents / coefficients.

Polynomial spec (JSON): gen.rand_poly form, optionally with "im" (imaginary parts, same nesting as "coefficients"),
"shape" (needed for size-0 shapes, which nested lists cannot carry) and "retain" (False: built in numpoly's canonical
form without all-zero terms; True: every listed term is stored, even all-zero ones)."""
from __future__ import annotations
import copy
import io
import os
import pathlib
import pickle
import tempfile
import warnings
import numpy
from .common import check
from .gen import rand_poly, nested, count
from .model import build, spec_model, from_ndpoly, same, describe
from .wf import wf, double_through_a_view

NAMES = ("q0", "q1", "q2", "q10")
TXT_SHAPES = [(), (1,), (3,), (1, 1), (2, 3), (2, 1, 2)]
ALL_SHAPES = TXT_SHAPES + [(2,), (1, 2), (2, 1), (2, 2)]
SIZE0 = [(0,), (0, 3), (2, 0)]
POOLS = {"int64": [-3, -2, -1, 0, 1, 2, 3, 5], "int32": [-3, -1, 0, 1, 2, 7], "uint8": [0, 1, 2, 200], "bool": [True, False],
         "float64": [-2.5, -1.5, -0.5, 0.0, 0.5, 1.5, 2.25, 3.0], "float32": [-1.5, 0.0, 0.5, 2.0], "complex128": [-2.0, -0.5, 0.0, 1.0, 1.5]}


def poly_spec(rng, shape, dtype="int64", terms=None, retain=False, names=None):
    """rand_poly with an exact number of terms (terms=None: 1..3) over names drawn from q0,q1,q2,q10."""
    k = terms or rng.randint(1, 3)
    while True:
        s = rand_poly(rng, shape=shape if 0 not in shape else (), maxterms=k, dtype=dtype, pool=POOLS[dtype], names_pool=NAMES, names=names)
        if len(s["exponents"]) == k:
            break
    if 0 in shape:
        s["coefficients"] = [[] for _ in s["exponents"]]
        s["shape"] = list(shape)
    if dtype.startswith("complex"):
        s["im"] = [nested(rng, tuple(shape), POOLS[dtype]) if 0 not in shape else [] for _ in s["exponents"]]
    s["retain"] = retain
    return s


def decode(js):
    """JSON spec -> spec accepted by model.build / model.spec_model (coefficients as ndarrays)."""
    s = dict(js)
    dt = numpy.dtype(js.get("dtype", "int64"))
    cs = [numpy.array(c, dtype=dt) for c in js["coefficients"]]
    if "im" in js:
        cs = [(c + 1j * numpy.array(i, dtype=float)).astype(dt) for c, i in zip(cs, js["im"])]
    if "shape" in js:
        cs = [c.reshape(js["shape"]) for c in cs]
    s["coefficients"] = cs
    return s


def term_table(p):
    """{exponent row: coefficient array} without the terms whose coefficients are all zero."""
    return {tuple(int(v) for v in e): numpy.asarray(c) for e, c in zip(numpy.asarray(p.exponents).tolist(), p.coefficients)
            if numpy.any(numpy.asarray(c) != 0)}


def reproduced(p, q, model, canonical, what):
    """q reproduces p exactly (clauses of the property, in order)."""
    import numpoly
    if not isinstance(q, numpoly.ndpoly):
        return f"{what}: result is {type(q).__name__}, not ndpoly"
    if tuple(q.shape) != tuple(p.shape):
        return f"{what}: shape {tuple(q.shape)}, original {tuple(p.shape)}"
    if q.dtype != p.dtype:
        return f"{what}: coefficient dtype {q.dtype}, original {p.dtype}"
    if tuple(q.names) != tuple(p.names):
        return f"{what}: names {tuple(q.names)}, original {tuple(p.names)}"
    r = wf(q, what) if wf(p) is None else None      # well-formedness of the original itself is C03's business
    if r:
        return r
    got = from_ndpoly(q) if q.size else numpy.empty(q.shape, dtype=object)      # an empty array has no elements to read
    if not same(got, model):
        return f"{what}: denotes {describe(got)}, expected {describe(model)}"
    if canonical:
        if not numpy.array_equal(numpy.asarray(q.exponents), numpy.asarray(p.exponents)):
            return f"{what}: exponents {numpy.asarray(q.exponents).tolist()}, original {numpy.asarray(p.exponents).tolist()}"
    tq, tp = term_table(q), term_table(p)
    if set(tq) != set(tp):
        return f"{what}: non-zero terms at exponents {sorted(tq)}, original {sorted(tp)}"
    for e in tp:
        if tq[e].dtype != tp[e].dtype or tq[e].shape != tp[e].shape or not numpy.array_equal(tq[e], tp[e]):
            return f"{what}: coefficient of exponent {e} is {tq[e].tolist()} ({tq[e].dtype}), original {tp[e].tolist()} ({tp[e].dtype})"
    return None


HOWS = [f"pickle{k}" for k in range(pickle.HIGHEST_PROTOCOL + 1)] + ["copy.copy", "copy.deepcopy", "method.copy"] + \
    (["pickle5.out_of_band_readonly", "pickle5.out_of_band_writable"] if pickle.HIGHEST_PROTOCOL >= 5 else [])


def _reproduce(p, how):
    if how.startswith("pickle5.out_of_band"):
        # protocol 5 with the array data travelling out of band; handed back as immutable bytes or as writable bytearrays
        bufs = []
        data = pickle.dumps(p, protocol=5, buffer_callback=bufs.append)
        back = [bytes(b.raw()) if how.endswith("readonly") else bytearray(b.raw()) for b in bufs]
        return pickle.loads(data, buffers=back)
    if how.startswith("pickle"):
        return pickle.loads(pickle.dumps(p, protocol=int(how[6:])))
    return {"copy.copy": copy.copy, "copy.deepcopy": copy.deepcopy, "method.copy": lambda x: x.copy()}[how](p)


def zero_term_spec(rng, shape, dtype, k, z):
    """k stored terms over 2-3 names of which z non-constant ones have all-zero coefficients (retain=True keeps them)."""
    names = sorted(rng.sample(NAMES, rng.choice([2, 3])), key=lambda n: int(n[1:]))
    while True:
        s = poly_spec(rng, shape, dtype, terms=k, retain=True, names=names)
        nonconst = [t for t, e in enumerate(s["exponents"]) if any(e)]
        if len(nonconst) >= z:
            break
    for t in rng.sample(nonconst, z):
        s["coefficients"][t] = numpy.zeros(shape, dtype=int).tolist()
        if "im" in s:
            s["im"][t] = numpy.zeros(shape, dtype=int).tolist()
    return s


def gen_zero_terms(tier, rng):
    for k, z in [(3, 1), (4, 1), (5, 2), (2, 1), (4, 3), (6, 3)]:
        for dtype in ("int64", "float64", "complex128", "bool"):
            for shape in (ALL_SHAPES if tier == "thorough" else rng.sample(ALL_SHAPES, 3)):
                spec = zero_term_spec(rng, shape, dtype, k, z)
                for how in HOWS:
                    if tier == "thorough" or rng.random() < 0.5:
                        yield {"poly": spec, "how": how}
    for prep in ("align_polynomials", "align_exponents"):       # storage widened by numpoly's own alignment
        for dtype in ("int64", "float64"):
            for shape in (ALL_SHAPES if tier == "thorough" else rng.sample(ALL_SHAPES, 3)):
                for _ in range(count(tier, 1, 3)):
                    spec = poly_spec(rng, shape, dtype, retain=False)
                    other = poly_spec(rng, rng.choice([(), shape]), rng.choice(["int64", "float64"]), terms=rng.randint(2, 3))
                    for how in HOWS:
                        if tier == "thorough" or rng.random() < 0.5:
                            yield {"poly": spec, "how": how, "prep": prep, "other": other}


def usable(p, q, what):
    """The restored object can be used like the original: attribute access, repr, comparison with the original."""
    try:
        n = (len(q.coefficients), len(numpy.asarray(q.exponents)), len(q.keys))
        text = repr(q)
        eq = q == p
    except Exception as e:
        return f"{what}: the restored object is not usable: {type(e).__name__}: {str(e)[:150]}"
    if len(set(n)) != 1:
        return f"{what}: {n[0]} coefficient arrays, {n[1]} exponent rows, {n[2]} keys"
    if not text.startswith("polynomial("):
        return f"{what}: repr of the restored object is {text!r:.80}"
    if numpy.shape(eq) != tuple(p.shape) or numpy.asarray(eq).dtype != bool or not numpy.all(eq):
        return f"{what}: restored == original gives {eq!r:.120}"
    return None


def gen_repro(tier, rng):
    yield from gen_zero_terms(tier, rng)
    for dtype in POOLS:
        for shape in ALL_SHAPES:
            for _ in range(count(tier, 1, 8)):
                spec = poly_spec(rng, shape, dtype, retain=rng.random() < 0.3)
                for how in HOWS:
                    if tier == "thorough" or rng.random() < 0.35:
                        yield {"poly": spec, "how": how}


def gen_repro0(tier, rng):
    for shape in SIZE0:
        for dtype in ("int64", "float64", "complex128"):
            spec = poly_spec(rng, shape, dtype, terms=rng.randint(1, 2), retain=True)
            for how in HOWS:
                yield {"poly": spec, "how": how}


def repro_check(inp):
    import numpoly
    spec = decode(inp["poly"])
    p = build(spec)
    if inp.get("prep"):
        other = build(decode(inp["other"]))
        p = numpoly.align_polynomials(p, other)[0] if inp["prep"] == "align_polynomials" else numpoly.align_exponents(p, other)[0]
        if tuple(p.shape) == tuple(spec["coefficients"][0].shape) and not same(from_ndpoly(p), spec_model(spec)):
            return f"input construction: numpoly.{inp['prep']} changed the value of its first argument"
        spec = dict(spec, coefficients=[numpy.broadcast_to(c, p.shape) for c in spec["coefficients"]])
    raw_before = numpy.ndarray.view(p, numpy.ndarray).tobytes()
    if tuple(p.shape) != tuple(spec["coefficients"][0].shape):
        return f"input construction: ndpoly.from_attributes gives shape {tuple(p.shape)} for coefficient shape {spec['coefficients'][0].shape}"
    with warnings.catch_warnings():
        warnings.simplefilter("ignore")
        q = _reproduce(p, inp["how"])
    canonical = not inp["poly"].get("retain", True) and not inp.get("prep")
    r = reproduced(p, q, spec_model(spec), canonical, inp["how"]) or (usable(p, q, inp["how"]) if p.size else None)
    if r is None and numpy.ndarray.view(p, numpy.ndarray).tobytes() != raw_before:
        return f"{inp['how']}: the original was modified"
    if r is None and p.size and numpy.dtype(spec.get("dtype", "int64")).kind in "if" and not inp.get("prep"):
        # reproduce the SAME object once more after every coefficient was doubled in place through a view of its memory: the copy
        # holds what the array holds now (nothing remembered from the first time)
        double_through_a_view(p)
        m = spec_model(spec)
        m2 = numpy.empty(m.size, dtype=object)
        for k, cell in enumerate(m.reshape(-1)):
            m2[k] = cell + cell
        with warnings.catch_warnings():
            warnings.simplefilter("ignore")
            q2 = _reproduce(p, inp["how"])
        if not isinstance(q2, numpoly.ndpoly) or tuple(q2.shape) != tuple(p.shape) or not same(from_ndpoly(q2), m2.reshape(m.shape)):
            return (f"{inp['how']} of the same object, repeated after its coefficients were doubled in place through the view p.T: "
                    f"restored {describe(from_ndpoly(q2)) if isinstance(q2, numpoly.ndpoly) else type(q2).__name__}, the array holds {describe(m2.reshape(m.shape))}")
    return r


check("C13", "pickle_copy.exact", gen_repro, functions=("numpoly.ndpoly.__reduce__", "numpoly.polynomial_from_attributes", "numpoly.ndpoly.copy"),
      note=f"bounded: pickle protocols 0..{pickle.HIGHEST_PROTOCOL} (protocol 5 also with out-of-band buffers given back read-only / writable), copy.copy, copy.deepcopy, .copy(); 10 shapes of 0-3 dimensions, 1-3 terms, "
           "<=3 names from q0,q1,q2,q10, exponents<=3, dtypes int64/int32/uint8/bool/float64/float32/complex128; canonical inputs: shape, "
           "dtype, names, exponents, coefficients identical; inputs storing all-zero terms (1 of 3, 1 of 4, 2 of 5, 1 of 2, 3 of 4, 3 of 6 "
           "terms zero via retain_coefficients=True, or the first result of align_polynomials/align_exponents against a second polynomial): "
           "same except that all-zero terms may be dropped; the restored object must be usable (.coefficients/.exponents/.keys of equal "
           "length, repr, == original all True); integer / float inputs are reproduced a second time after every coefficient was doubled in "
           "place through a view (the second copy holds the current contents)")(repro_check)
check("C13", "pickle_copy.size0", gen_repro0, functions=("numpoly.ndpoly.__reduce__", "numpoly.polynomial_from_attributes", "numpoly.ndpoly.copy"),
      note="bounded: shapes (0,), (0,3), (2,0) with int64/float64/complex128, 1-2 terms, all reproduction routes")(repro_check)


# ------------------------------------------------------------------ text save / load
FMTS = {"int64": ["%.18e", "%d", "%g", "%.3f", "%8.2f"], "float64": ["%.18e", "%g", "%.3f", "%.6e", "%8.2f"]}
DELIMS = [" ", ",", ";", "\t", ", "]
COMMENTS = ["# ", "#", "% ", "//"]
HEADERS = ["", "made by a check", "two\nlines", "numbers 1 2 3"]
TARGETS = ["path", "pathlib", "stringio"]


def _io_options(rng, dtype, plain_default=0.4):
    o = {"target": rng.choice(TARGETS), "writer": rng.choice(["numpoly", "numpy"])}
    if rng.random() > plain_default:
        o["fmt"] = rng.choice(FMTS[dtype])
    if rng.random() < 0.4:
        o["delimiter"] = rng.choice(DELIMS[1:] if o.get("fmt") != "%8.2f" else [",", ";"])
    if rng.random() < 0.3:
        o["comments"] = rng.choice(COMMENTS[1:])
    if rng.random() < 0.4:
        o["header"] = rng.choice(HEADERS[1:])
    if rng.random() < 0.2:
        o["footer"] = "the end"
    return o


def _load_kw(o):
    kw = {"comments": o["comments"]} if "comments" in o else {}
    if "load_dtype" in o:
        kw["dtype"] = numpy.dtype(o["load_dtype"])
    if o.get("delimiter", " ").strip():         # ' ' and tab: numpy's default white-space splitting; ', ' -> ','
        kw["delimiter"] = o["delimiter"].strip()
    return kw


def _save_load(X, o, tmp):
    """Write X with the chosen writer/target/options and read it back with numpoly.loadtxt.
    Returns (loaded, text of the file, None) or (None, text, description of the exception)."""
    import numpoly
    save_kw = {k: o[k] for k in ("fmt", "delimiter", "header", "footer", "comments") if k in o}
    writer = numpoly.savetxt if o["writer"] == "numpoly" else numpy.savetxt
    path = os.path.join(tmp, "array.txt")
    fname = io.StringIO() if o["target"] == "stringio" else pathlib.Path(path) if o["target"] == "pathlib" else path
    try:
        writer(fname, X, **save_kw)
    except Exception as e:
        return None, "", f"{o['writer']}.savetxt raised {type(e).__name__}: {str(e)[:150]}"
    if o["target"] == "stringio":
        text = fname.getvalue()
        fname = io.StringIO(text)
    else:
        with open(path) as fh:
            text = fh.read()
    try:
        return numpoly.loadtxt(fname, **_load_kw(o)), text, None
    except Exception as e:
        return None, text, f"numpoly.loadtxt raised {type(e).__name__}: {str(e)[:150]} (file: {text[:160]!r})"


LAYOUTS = {"T": lambda x: x.T, "swapaxes": lambda x: x.swapaxes(0, -1), "F": lambda x: x.copy(order="F")}


def gen_text(tier, rng):
    for shape in TXT_SHAPES:
        for terms in (1, 2, 3):
            for dtype in ("int64", "float64"):
                for writer in ("numpoly", "numpy"):      # the plain default call, every target
                    for target in TARGETS:
                        if tier == "thorough" or rng.random() < 0.4:
                            yield {"poly": poly_spec(rng, shape, dtype, terms), "options": {"target": target, "writer": writer}}
                for _ in range(count(tier, 2, 30)):
                    yield {"poly": poly_spec(rng, shape, dtype, terms, retain=rng.random() < 0.2), "options": _io_options(rng, dtype)}
    # integers that float64 cannot hold, written with %d and read back as integers: the precision of the format is exact
    for shape in [(), (2,), (2, 2)]:
        for writer in ("numpoly", "numpy"):
            for _ in range(count(tier, 2, 12)):
                s = poly_spec(rng, shape, "int64", rng.randint(1, 3))
                big = [2 ** 53 + 1, -(2 ** 53) - 1, 2 ** 62 + 5, 9007199254740993, 3]
                s["coefficients"] = [nested(rng, tuple(shape), big) for _ in s["exponents"]]
                yield {"poly": s, "options": {"target": rng.choice(TARGETS), "writer": writer, "fmt": "%d", "load_dtype": "int64"}}
    for shape in [(2, 3), (3, 2), (2, 1, 2), (2, 3, 2), (4, 2)]:        # non-C-contiguous storage of >= 2 dimensions
        for layout in LAYOUTS:
            for writer in ("numpoly", "numpy"):
                for _ in range(count(tier, 1, 6)):
                    o = dict(_io_options(rng, "int64") if rng.random() < 0.5 else {"target": rng.choice(TARGETS)}, writer=writer)
                    yield {"poly": poly_spec(rng, shape, rng.choice(["int64", "float64"]) if "fmt" not in o else "int64", rng.randint(1, 3)),
                           "options": o, "layout": layout}


@check("C13", "savetxt_loadtxt.roundtrip", gen_text, functions=("numpoly.savetxt", "numpoly.loadtxt"),
       note="bounded: shapes (), (1,), (3,), (1,1), (2,3), (2,1,2); exactly 1, 2 or 3 terms; names from q0,q1,q2,q10; int64 and float64 "
            "coefficients that every used format prints exactly (small ints, halves, quarters); writers numpoly.savetxt and numpy.savetxt; "
            "targets str path, pathlib.Path, io.StringIO; fmt %.18e/%d/%g/%.3f/%.6e/%8.2f, delimiters ' ' ',' ';' tab ', ', comments "
            "'# ' '#' '% ' '//', 0-2 extra header lines, footer; loaded array must have the same shape, names and exact values; also "
            "non-C-contiguous inputs p.T, p.swapaxes(0,-1), p.copy(order='F') of base shapes (2,3), (3,2), (2,1,2), (2,3,2), (4,2), 1-3 terms; "
            "int64 coefficients beyond 2**53 written with %d and loaded with dtype=int64 come back exactly")
def text_roundtrip(inp):
    import numpoly
    spec = decode(inp["poly"])
    p = build(spec)
    model = spec_model(spec)
    if "layout" in inp:                 # the same view/copy of the polynomial array and of its model
        p, model = LAYOUTS[inp["layout"]](p), LAYOUTS[inp["layout"]](model)
        if not isinstance(p, numpoly.ndpoly) or tuple(p.shape) != model.shape or not same(from_ndpoly(p), model):
            return f"input construction: {inp['layout']} of the polynomial array is not the {inp['layout']} of its elements"
    with tempfile.TemporaryDirectory(prefix="c13_") as tmp, warnings.catch_warnings():
        warnings.simplefilter("ignore")
        got, text, err = _save_load(p, inp["options"], tmp)
    if err:
        return err
    shown = f" (file: {text[:160]!r})"
    if not isinstance(got, numpoly.ndpoly):
        return f"loadtxt returned {type(got).__name__}, not a polynomial array" + shown
    if tuple(got.shape) != tuple(p.shape):
        return f"loaded shape {tuple(got.shape)}, saved {tuple(p.shape)}" + shown
    if tuple(got.names) != tuple(p.names):
        return f"loaded names {tuple(got.names)}, saved {tuple(p.names)}" + shown
    r = wf(got, "loaded")
    if r:
        return r + shown
    m = from_ndpoly(got)
    if not same(m, model):
        return f"loaded {describe(m)}, saved {describe(model)}" + shown
    return None


def gen_plain(tier, rng):
    for shape in [(1,), (3,), (1, 1), (2, 3), (3, 1), (1, 3)]:
        for dtype in ("int64", "float64"):
            for _ in range(count(tier, 3, 40)):
                pool = POOLS[dtype]
                yield {"array": nested(rng, shape, pool), "dtype": dtype, "options": _io_options(rng, dtype)}


@check("C13", "loadtxt.headerless_plain", gen_plain, functions=("numpoly.loadtxt", "numpoly.savetxt"),
       note="bounded: plain int64/float64 arrays of shapes (1,), (3,), (1,1), (2,3), (3,1), (1,3) written by numpy.savetxt or "
            "numpoly.savetxt (no numpoly header, optional ordinary header/footer) with the same fmt/delimiter/comments variations; "
            "numpoly.loadtxt must return a numpy.ndarray equal to what numpy.loadtxt returns for the same file")
def headerless_plain(inp):
    import numpoly
    a = numpy.array(inp["array"], dtype=inp["dtype"])
    o = inp["options"]
    with tempfile.TemporaryDirectory(prefix="c13_") as tmp, warnings.catch_warnings():
        warnings.simplefilter("ignore")
        got, text, err = _save_load(a, o, tmp)
        if err:
            return err
        want = numpy.loadtxt(io.StringIO(text), **_load_kw(o))
    if isinstance(got, numpoly.ndpoly) or not isinstance(got, numpy.ndarray):
        return f"loadtxt of a file without numpoly header returned {type(got).__name__}: {got!r:.100} (file: {text[:120]!r})"
    if got.shape != want.shape or got.dtype != want.dtype or not numpy.array_equal(got, want):
        return f"loaded {got.tolist()} {got.dtype} shape {got.shape}; numpy.loadtxt gives {want.tolist()} {want.dtype} shape {want.shape}"
    return None
