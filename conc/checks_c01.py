"""C01 run-time contracts: ring arithmetic against the exact sparse-polynomial oracle.
Cross-check of the arithmetic contracts and bounded stand-in for array-exponent `power`
and for mixed int/float/complex coefficients."""
from __future__ import annotations
import operator
import numpy
from .common import check
from .gen import rand_operand, rand_poly, broadcastable_pair, nested, count
from .model import operand, operand_model, obj_map, MPoly
from .wf import wf, denotes, snapshot, unchanged, install_poison


def gen_binary(tier, rng):
    n = count(tier, 150, 1500)
    for _ in range(n):
        s1, s2 = broadcastable_pair(rng)
        a = rand_operand(rng, shape=s1)
        b = rand_operand(rng, shape=s2)
        if "poly" not in a and "poly" not in b:
            a = {"poly": rand_poly(rng, shape=s1)}
        if rng.random() < 0.25:
            # same indeterminates listed in different orders on the two sides, e.g. ('q1','q0') * ('q0','q1')
            from .gen import permute_names
            names = sorted(rng.sample(["q0", "q1", "q2", "q10"], rng.choice([2, 2, 3])), key=lambda n: int(n[1:]))
            a = {"poly": permute_names(rng, rand_poly(rng, shape=s1, names=names))}
            b = {"poly": rand_poly(rng, shape=s2, names=names)}
            if rng.random() < 0.5:
                a, b = b, a
        if rng.random() < 0.12:
            # a list operand whose entries are polynomials over DIFFERENT name tuples of equal length (q0 next to q1, (q0, q2) next to
            # (q1, q10)) and plain numbers: the entries have to be brought onto common indeterminates before they form an array
            k = rng.choice([2, 3])
            pools = rng.choice([[["q0"], ["q1"], ["q2"]], [["q0", "q2"], ["q1", "q10"], ["q0", "q1"]], [["q10"], ["q2"], ["q0"]]])
            ents = [{"poly": rand_poly(rng, shape=(), names=pools[j % len(pools)], maxterms=2)} if rng.random() < 0.8 else {"num": rng.choice([-1, 2, 3])}
                    for j in range(k)]
            lst = {"polylist": ents}
            other = {"poly": rand_poly(rng, shape=rng.choice([(), (k,), (2, k)]))}
            a, b = (lst, other) if rng.random() < 0.5 else (other, lst)
        yield {"a": a, "b": b, "op": rng.choice(["add", "sub", "mul"]), "via": rng.choice(["operator", "numpoly", "numpy"])}
    # coefficient types the compiled kernels do not handle (the pure-Python paths run), operands with several terms in
    # shared indeterminates so that different pairs of terms meet in the same monomial of a product
    for _ in range(count(tier, 60, 600)):
        dt = rng.choice(["int32", "float32", "int8", "int16", "uint8", "complex64", "float16"])
        pool = [0, 1, 2, 3] if dt == "uint8" else [-2, -1, 1, 2, 3]
        names = sorted(rng.sample(["q0", "q1", "q2"], rng.choice([1, 2])), key=lambda n: int(n[1:]))
        s1, s2 = broadcastable_pair(rng)
        a = {"poly": rand_poly(rng, shape=s1, names=names, dtype=dt, pool=pool, maxterms=3, maxexp=2)}
        b = {"poly": rand_poly(rng, shape=s2, names=names, dtype=rng.choice([dt, dt, "int64"]), pool=pool, maxterms=3, maxexp=2)}
        # (no subtraction in an unsigned type: wrapping below zero is numpy's arithmetic, not the library's)
        ops = ["mul", "mul", "add"] if dt == "uint8" else ["mul", "mul", "add", "sub"]
        yield {"a": a, "b": b, "op": rng.choice(ops), "via": rng.choice(["operator", "numpoly", "numpy"])}


OPS = {"add": (operator.add, "add"), "sub": (operator.sub, "subtract"), "mul": (operator.mul, "multiply")}


def _apply(op, via, x, y):
    import numpoly
    f, name = OPS[op]
    if via == "operator":
        return f(x, y)
    if via == "numpoly":
        return getattr(numpoly, name)(x, y)
    return getattr(numpy, name)(x, y)


@check("C01", "binary.exact", gen_binary,
       functions=("numpoly.add", "numpoly.subtract", "numpoly.multiply", "numpoly.simple_dispatch",
                  "numpoly.align_polynomials", "numpoly.clean_attributes", "numpoly.polynomial_from_attributes"),
       note="bounded: operands with <=3 terms, <=3 indeterminates, exponents<=3, shapes from 13 broadcastable pairs, "
            "poly/number/list/ndarray on either side, int64 and float64 coefficients; plus 60 (600) pairs with several terms in "
            "shared indeterminates and int8/int16/int32/uint8/float16/float32/complex64 coefficients (pure-Python kernels)")
def binary_exact(inp):
    install_poison()
    x, y = operand(inp["a"]), operand(inp["b"])
    bx, by = snapshot(x), snapshot(y)
    r = _apply(inp["op"], inp["via"], x, y)
    pyop = OPS[inp["op"]][0]
    want = obj_map(pyop, operand_model(inp["a"]), operand_model(inp["b"]))
    return wf(r) or denotes(r, want) or unchanged(bx, x, "left operand") or unchanged(by, y, "right operand")


def gen_unary(tier, rng):
    for _ in range(count(tier, 40, 300)):
        yield {"a": {"poly": rand_poly(rng, dtype=rng.choice(["int64", "float64"]))}, "op": rng.choice(["neg", "pos"]),
               "via": rng.choice(["operator", "numpoly", "numpy"])}


@check("C01", "unary.exact", gen_unary, functions=("numpoly.negative", "numpoly.positive", "numpoly.simple_dispatch"),
       note="bounded: same operand space as binary.exact")
def unary_exact(inp):
    import numpoly
    install_poison()
    x = operand(inp["a"])
    bx = snapshot(x)
    name = {"neg": "negative", "pos": "positive"}[inp["op"]]
    if inp["via"] == "operator":
        r = -x if inp["op"] == "neg" else +x
    else:
        r = getattr(numpoly if inp["via"] == "numpoly" else numpy, name)(x)
    m = operand_model(inp["a"])
    want = obj_map((lambda a: -a) if inp["op"] == "neg" else (lambda a: a), m)
    return wf(r) or denotes(r, want) or unchanged(bx, x)


def gen_power_scalar(tier, rng):
    for _ in range(count(tier, 40, 300)):
        yield {"a": {"poly": rand_poly(rng, maxterms=2, maxexp=2, shapes=[(), (2,), (2, 2), (1, 2)])}, "k": rng.randint(0, 4),
               "via": rng.choice(["operator", "numpoly", "numpy"])}


@check("C01", "power.scalar_exponent", gen_power_scalar, functions=("numpoly.power", "numpoly.multiply"),
       note="bounded: exponent 0..4")
def power_scalar(inp):
    import numpoly
    install_poison()
    x = operand(inp["a"])
    bx = snapshot(x)
    k = inp["k"]
    r = x ** k if inp["via"] == "operator" else (numpoly.power(x, k) if inp["via"] == "numpoly" else numpy.power(x, k))
    want = obj_map(lambda a: a ** k, operand_model(inp["a"]))
    return wf(r) or denotes(r, want) or unchanged(bx, x)


def gen_power_array(tier, rng):
    shapes = [(), (1,), (2,), (1, 2), (2, 1), (2, 2)]
    # 3-d operands: the .T / newaxis recursion of power behaves differently from 3 dimensions on (axes get permuted)
    shapes += [(2, 3, 1), (1, 3, 1), (2, 1, 2)]
    if tier == "thorough":
        shapes += [(1, 1, 2), (2, 2, 1), (1, 2, 2), (3, 1, 2), (2, 3, 2)]
    for s1 in shapes:
        for s2 in shapes:
            try:
                numpy.broadcast_shapes(s1, s2)
            except ValueError:
                continue
            if not s2:
                continue
            for _ in range(count(tier, 1, 3)):
                yield {"a": {"poly": rand_poly(rng, shape=s1, maxterms=2, maxexp=1, names=["q0", "q1"][: rng.randint(1, 2)])},
                       "e": nested(rng, s2, [0, 1, 2, 3])}


@check("C01", "power.array_exponent", gen_power_array, functions=("numpoly.power",),
       note="bounded stand-in (shape algebra of the .T/newaxis recursion is outside the prover's reach): all broadcastable "
            "shape pairs of 0-2 dimensions (0-3 thorough) with extents <=2, exponents 0..3")
def power_array(inp):
    import numpoly
    install_poison()
    x = operand(inp["a"])
    e = numpy.array(inp["e"], dtype=int)
    r = x ** e
    em = numpy.empty(e.shape, dtype=object)
    for idx in numpy.ndindex(*e.shape):
        em[idx] = int(e[idx])
    want = obj_map(lambda a, k: a ** k, operand_model(inp["a"]), em)
    return wf(r) or denotes(r, want)


def gen_compose(tier, rng):
    for _ in range(count(tier, 40, 400)):
        names = ["q0", "q1", "q2"]
        ps = [{"poly": rand_poly(rng, shape=rng.choice([(), (2,)]), maxterms=2, maxexp=2)} for _ in range(3)]
        yield {"p": ps, "law": rng.choice(["assoc_add", "assoc_mul", "distrib", "comm_mul", "sub_self", "square", "mixed"])}


@check("C01", "composition.ring_laws", gen_compose, functions=("numpoly.add", "numpoly.multiply", "numpoly.subtract", "numpoly.power"),
       note="bounded: results of earlier operations used as operands; ring laws on depth-3 expression trees")
def compose(inp):
    install_poison()
    a, b, c = (operand(s) for s in inp["p"])
    ma, mb, mc = (operand_model(s) for s in inp["p"])
    law = inp["law"]
    if law == "assoc_add":
        r, want = (a + b) + c, obj_map(lambda x, y, z: x + y + z, ma, mb, mc)
        r2 = a + (b + c)
    elif law == "assoc_mul":
        r, want = (a * b) * c, obj_map(lambda x, y, z: x * y * z, ma, mb, mc)
        r2 = a * (b * c)
    elif law == "distrib":
        r, want = a * (b + c), obj_map(lambda x, y, z: x * (y + z), ma, mb, mc)
        r2 = a * b + a * c
    elif law == "comm_mul":
        r, want = a * b, obj_map(lambda x, y: x * y, ma, mb)
        r2 = b * a
    elif law == "sub_self":
        r, want = (a + b) - b, obj_map(lambda x, y: x + y - y, ma, mb)
        r2 = a + (b - b)
    elif law == "square":
        r, want = (a + b) ** 2, obj_map(lambda x, y: (x + y) * (x + y), ma, mb)
        r2 = a * a + 2 * a * b + b * b
    else:
        r, want = (a - b) * (a + b) - c * 2 + 1, obj_map(lambda x, y, z: (x - y) * (x + y) - z.scale(2) + MPoly.const(1), ma, mb, mc)
        r2 = a * a - b * b - (c + c) + 1
    return wf(r) or denotes(r, want) or wf(r2, "second form") or denotes(r2, want, "second form")


def gen_complex(tier, rng):
    for _ in range(count(tier, 30, 200)):
        a = rand_poly(rng, shape=rng.choice([(), (2,)]), maxterms=2, maxexp=2, dtype="complex128", pool=[1 + 2j, -1j, 0j, 2 + 0j, -1.5 + 0.5j])
        b = rand_poly(rng, shape=rng.choice([(), (2,)]), maxterms=2, maxexp=2, dtype=rng.choice(["int64", "float64", "complex128"]),
                      pool=[-1, 0, 1, 2])
        yield {"a": {"poly": a}, "b": {"poly": b}, "op": rng.choice(["add", "sub", "mul"]), "via": "operator"}


@check("C01", "binary.complex_and_mixed", gen_complex, functions=("numpoly.add", "numpoly.subtract", "numpoly.multiply"),
       note="bounded stand-in: complex coefficients are outside Val=Real of the prover")
def complex_mixed(inp):
    return binary_exact(inp)


# ------------------------------------------------------------------ results stored into a given target / in place
def gen_out_targets(tier, rng):
    for _ in range(count(tier, 80, 800)):
        shape = rng.choice([(2, 2), (2, 3), (3,), (2, 1, 2)])
        names = sorted(rng.sample(["q0", "q1", "q2"], rng.choice([1, 2])))
        dt = rng.choice(["int64", "float64", "int64", "int32", "float32"])
        pool = [-2, -1, 1, 2, 3]
        yield {"a": rand_poly(rng, shape=shape, names=names, maxterms=2, maxexp=2, dtype=dt, pool=pool),
               "b": rand_poly(rng, shape=shape, names=names, maxterms=2, maxexp=2, dtype=dt, pool=pool) if rng.random() < 0.6 else None,
               "k": rng.choice([-2, 2, 3]), "op": rng.choice(["add", "sub", "mul", "mul", "mul_number"]),
               "layout": rng.choice(["C", "T", "T", "F", "swapaxes"]), "how": rng.choice(["out", "out_numpy", "inplace"])}


@check("C01", "binary.into_target_and_in_place", gen_out_targets, functions=("numpoly.add", "numpoly.subtract", "numpoly.multiply", "numpoly.ndpoly.__array_ufunc__"),
       note="bounded: x+y, x-y, x*y, x*number stored with out=target (numpoly and numpy spelling) or computed in place (+=, -=, *= by a number) where the "
            "target / left operand has exactly the fields of the result and is laid out C-contiguous, as the transposed view t.T, as a "
            "Fortran-ordered copy or as t.swapaxes(0, -1); shapes (3,), (2,2), (2,3), (2,1,2); int32/int64/float32/float64; the call returns "
            "the target object and the target holds the exact result")
def out_targets(inp):
    import numpoly
    install_poison()
    x = operand({"poly": inp["a"]})
    xm = operand_model({"poly": inp["a"]})
    # (x *= polynomial is not offered: the left operand would need the fields of the product beforehand; by a number it is)
    if inp["op"] == "mul_number" or inp["b"] is None or (inp["op"] == "mul" and inp["how"] == "inplace"):
        y, ym, op = inp["k"], operand_model({"num": inp["k"]}), "mul"
    else:
        y, ym, op = operand({"poly": inp["b"]}), operand_model({"poly": inp["b"]}), inp["op"]
    f = {"add": numpoly.add, "sub": numpoly.subtract, "mul": numpoly.multiply}[op]
    want = obj_map({"add": operator.add, "sub": operator.sub, "mul": operator.mul}[op], xm, ym)
    try:
        ref = f(x, y)
    except Exception:      # noqa: BLE001 - the plain call is judged by binary.exact
        return None
    lay = {"C": lambda t: t, "T": lambda t: t.T, "F": lambda t: t.copy(order="F"), "swapaxes": lambda t: t.swapaxes(0, -1)}[inp["layout"]]
    inv = {"C": lambda t: t, "T": lambda t: t.T, "F": lambda t: t, "swapaxes": lambda t: t.swapaxes(0, -1)}[inp["layout"]]

    def blank(fill=None):
        # a polynomial with exactly the fields, names and dtype of the result whose array, seen through `lay`, has the result's shape
        base = numpoly.polynomial_from_attributes(ref.exponents, [inv(numpy.asarray(c) * 0) for c in ref.coefficients], ref.names, dtype=ref.dtype,
                                                  retain_coefficients=True, retain_names=True)
        t = lay(base)
        if fill is not None:
            t = numpoly.add(t, fill, out=t)
        return t
    try:
        if inp["how"] == "inplace":
            t = blank(fill=x)
            t0 = t
            if op == "add":
                t += y
            elif op == "sub":
                t -= y
            else:
                t *= y
            if t is not t0:
                return f"in-place operator ({op}) returned another object"
        else:
            t = blank()
            r = (getattr(numpy, {"add": "add", "sub": "subtract", "mul": "multiply"}[op]) if inp["how"] == "out_numpy" else f)(x, y, out=t)
            if r is not t:
                return f"{op}(..., out=target) returned another object than the target"
    except Exception as e:      # noqa: BLE001
        return f"{op} with {inp['how']} on a target laid out as {inp['layout']}: raised {type(e).__name__}: {str(e)[:120]}"
    if tuple(t.shape) != tuple(want.shape):
        return f"target shape {t.shape}, result shape {want.shape}"
    return denotes(t, want, f"target after {op} ({inp['how']}, layout {inp['layout']})")
