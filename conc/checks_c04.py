"""C04 run-time contracts: the four alignment functions change representation only."""
from __future__ import annotations
import numpy
from .common import check
from .gen import rand_poly, rand_operand, count, broadcastable_pair
from .model import operand, operand_model, from_ndpoly, same, canon_name_sort, describe
from .wf import wf, snapshot, unchanged, install_poison


def gen_align(tier, rng):
    for _ in range(count(tier, 200, 2500)):
        arity = rng.choice([1, 2, 2, 3, 4])
        fn = rng.choice(["align_polynomials", "align_shape", "align_indeterminants", "align_exponents"])
        if fn in ("align_polynomials", "align_shape"):
            # shapes that broadcast to a common target, incl. stretching of non-leading size-1 axes ((2,1) against (1,2))
            target = rng.choice([(), (2,), (2, 2), (2, 3), (2, 2, 3)])
            shapes = []
            for _k in range(arity):
                cut = rng.randint(0, len(target))
                sub = list(target[cut:])
                for d in range(len(sub)):
                    if rng.random() < 0.4:
                        sub[d] = 1
                shapes.append(tuple(sub))
        else:
            shapes = [rng.choice([(), (2,), (2, 2)]) for _k in range(arity)]
        ops = []
        for shp in shapes:
            pool = rng.choice([("q0", "q1", "q2"), ("q1", "q3"), ("q2", "q10", "q11"), ("q0",)])
            o = rand_operand(rng, shape=shp, names_pool=pool, pool=[-1, 0, 0, 1, 2]) if rng.random() < 0.85 else {"num": 3}
            if rng.random() < 0.1 and shp:
                # a plain array in non-native byte order (the same scalar type as the native dtype, another memory layout)
                from .gen import nested
                dt = rng.choice([">i8", ">f8", ">u4", ">i4"])
                o = {"array": nested(rng, tuple(shp), [0, 1, 2, 258] if dt == ">u4" else [-1, 0, 1, 2, 258]), "dtype": dt}
            ops.append(o)
        yield {"fn": fn, "ops": ops, "dtype_mix": rng.random() < 0.3}


@check("C04", "align.representation_only", gen_align,
       functions=("numpoly.align_polynomials", "numpoly.align_shape", "numpoly.align_indeterminants", "numpoly.align_exponents"),
       note="bounded: arity 1-4, operands with <=3 terms over name pools {q0,q1,q2},{q1,q3},{q2,q10,q11},{q0}, shapes 0-2-d "
            "incl. broadcasting, plain numbers/arrays (also in non-native byte order) mixed in")
def align_repr(inp):
    import numpoly
    install_poison()
    xs = [operand(o) for o in inp["ops"]]
    before = [snapshot(x) for x in xs]
    models = [operand_model(o) for o in inp["ops"]]
    fn = getattr(numpoly, inp["fn"])
    try:
        numpy.broadcast_shapes(*[m.shape for m in models])
        broadcastable = True
    except ValueError:
        broadcastable = False
    if inp["fn"] in ("align_polynomials", "align_shape") and not broadcastable:
        return None
    res = fn(*xs)
    if not isinstance(res, tuple) or len(res) != len(xs):
        return f"returned {type(res).__name__} of length {len(res) if hasattr(res, '__len__') else '?'} for {len(xs)} arguments"
    common = numpy.broadcast_shapes(*[m.shape for m in models]) if broadcastable else None
    for k, (r, m, x) in enumerate(zip(res, models, xs)):
        w = wf(r, f"result {k}")
        if w:
            return w
        want = m
        if inp["fn"] in ("align_polynomials", "align_shape"):
            want = numpy.broadcast_to(m, common)
            if r.shape != common:
                return f"result {k}: shape {r.shape}, common broadcast shape {common}"
        got = from_ndpoly(r)
        if got.shape != want.shape or not same(got, numpy.array(want, dtype=object).reshape(want.shape) if want.shape else want):
            return f"result {k} denotes {describe(got)}, argument denotes {describe(want)}"
        xd = getattr(x, "dtype", None)
        if xd is not None and isinstance(x, (numpy.ndarray,)) and r.dtype != xd and r.dtype != xd.newbyteorder("="):
            return f"result {k}: dtype {r.dtype}, argument dtype {xd}"
    if inp["fn"] in ("align_polynomials", "align_indeterminants", "align_exponents"):
        names = {tuple(r.names) for r in res}
        if len(names) != 1:
            return f"results do not share one name tuple: {names}"
        nm = list(names)[0]
        union = set()
        for o in inp["ops"]:
            if "poly" in o:
                union.update(o["poly"]["names"])
            else:
                union.add("q0")        # a plain number/array becomes a constant polynomial over the default indeterminate
        if union and list(nm) != canon_name_sort(union):
            return f"common names {nm}, union of the input names in index order {canon_name_sort(union)}"
    if inp["fn"] in ("align_polynomials", "align_exponents"):
        rows = {tuple(map(tuple, r.exponents.tolist())) for r in res}
        keys = {tuple(r.keys.tolist()) for r in res}
        if len(rows) != 1 or len(keys) != 1:
            return f"results do not share exponent rows / storage keys: {rows}"
    for k, (b, x) in enumerate(zip(before, xs)):
        u = unchanged(b, x, f"argument {k}")
        if u:
            return u
    # idempotence: aligning aligned arguments changes nothing
    again = fn(*res)
    for k, (r1, r2) in enumerate(zip(res, again)):
        if snapshot(r1)[1:] != snapshot(r2)[1:]:
            return f"aligning the already aligned result {k} changed it"
    return None
