"""C18 run-time contracts: glexsort (cross-check of the proved contract + conformance of the order
axioms), and the bounded-exhaustive stand-ins for glexindex/_glexindex, bindex, cross_truncate,
monomial (shape algebra / floating-point norm: outside the prover's reach)."""
from __future__ import annotations
import itertools
import math
from fractions import Fraction
import numpy
from .common import check
from .model import col_key, from_ndpoly, MPoly


# ------------------------------------------------------------------ glexsort
def gen_keys(tier, rng):
    # exhaustive small: all matrices D<=2, n<=4 over {0,1,2} (thorough) ; sampled otherwise
    if tier == "thorough":
        for D in (1, 2):
            for n in range(0, 5):
                for vals in itertools.product(range(3), repeat=D * n):
                    K = [list(vals[r * n:(r + 1) * n]) for r in range(D)]
                    for g in (False, True):
                        for r in (False, True):
                            yield {"keys": K, "graded": g, "reverse": r}
    nrand = 3000 if tier == "thorough" else 300
    for _ in range(nrand):
        D = rng.randint(1, 4)
        n = rng.choice([0, 1, 2, 3, 5, 8, 17, 40, 400] if tier == "thorough" else [0, 1, 2, 3, 5, 8, 17, 40, 120])
        hi = rng.choice([1, 2, 3, 9])
        K = [[rng.randint(0, hi) for _ in range(n)] for _ in range(D)]
        yield {"keys": K, "graded": rng.random() < 0.5, "reverse": rng.random() < 0.5}
    # narrow / unsigned key dtypes with values near the top of their range (column sums exceed the dtype)
    for _ in range(60 if tier != "thorough" else 600):
        dt = rng.choice(["uint8", "uint16", "uint32", "int8", "int16", "int32"])   # (64-bit sums wrap in numpy itself: out of scope)
        top = int(numpy.iinfo(dt).max)
        D = rng.randint(2, 4)
        n = rng.randint(2, 12)
        pool = [0, 1, 2, top, top - 1, top // 2, top // 2 + 1, top // 3]
        K = [[rng.choice(pool) for _ in range(n)] for _ in range(D)]
        yield {"keys": K, "graded": rng.random() < 0.8, "reverse": rng.random() < 0.5, "dtype": dt}
    # 1-d keys
    for _ in range(20):
        n = rng.randint(0, 30)
        yield {"keys": [rng.randint(0, 5) for _ in range(n)], "graded": rng.random() < 0.5, "reverse": rng.random() < 0.5}


@check("C18", "glexsort.post", gen_keys, functions=("numpoly.glexsort",),
       note="same clauses as the proved contract: permutation, sorted in (graded)(reverse) lex order, ties by index")
def glexsort_post(inp):
    import numpoly
    K = numpy.array(inp["keys"], dtype=inp.get("dtype", "int64"))
    K2 = numpy.atleast_2d(K)
    before = K.copy()
    rho = numpoly.glexsort(K, graded=inp["graded"], reverse=inp["reverse"])
    n = K2.shape[1]
    if not numpy.array_equal(K, before):
        return "argument modified"
    rho = [int(x) for x in numpy.asarray(rho).reshape(-1)]
    if sorted(rho) != list(range(n)):
        return f"not a permutation of 0..{n - 1}: {rho}"
    keys = [col_key([int(v) for v in K2[:, j]], inp["graded"], inp["reverse"]) for j in rho]
    for p in range(n - 1):
        if keys[p] > keys[p + 1]:
            return f"not sorted at position {p}: {keys[p]} > {keys[p + 1]} (perm {rho})"
        if keys[p] == keys[p + 1] and rho[p] > rho[p + 1]:
            return f"equal keys not in index order at position {p} (perm {rho})"
    return None


# ------------------------------------------------------------------ cross_truncate
def inside_exact(x, bound, q):
    """Exact meaning of the truncation rule; returns True/False/None (None: too close to the boundary
    for a floating-point implementation to be judged)."""
    if any(b < 0 for b in bound):
        return False
    for xi, b in zip(x, bound):
        if b == 0 and xi != 0:
            return False
    xs = [(xi, b) for xi, b in zip(x, bound) if b != 0]
    if not xs:
        return True
    if q == 0:
        return sum(1 for xi, _ in xs if xi > 0) <= 1 and all(xi <= b for xi, b in xs)
    if q == math.inf:
        return all(Fraction(xi) / Fraction(b) <= 1 for xi, b in xs)
    if q in (1, 2, 3):
        return sum((Fraction(xi) / Fraction(b)) ** int(q) for xi, b in xs) <= 1
    v = sum((xi / b) ** q for xi, b in xs) ** (1.0 / q)
    if abs(v - 1) < 1e-9:
        return None
    return v <= 1


def gen_trunc(tier, rng):
    qs = [0, 0.5, 0.8, 1, 2, math.inf]
    dims = (1, 2, 3) if tier != "thorough" else (1, 2, 3, 4)
    for D in dims:
        bounds = [[b] * D for b in range(-1, 5)]
        for _ in range(6 if tier != "thorough" else 25):
            bounds.append([rng.randint(0, 4) for _ in range(D)])
        for bound in bounds:
            for q in qs:
                yield {"D": D, "bound": bound, "norm": ("inf" if q == math.inf else q), "grid": 6 if D < 4 else 4}


@check("C18", "cross_truncate.exact", gen_trunc, functions=("numpoly.cross_truncate",),
       note="bounded: every index of the grid {0..5}^D (D<=3; {0..3}^4), bounds -1..4, norms {0,.5,.8,1,2,inf}; "
            "exact rational arithmetic for integer norms")
def cross_truncate_exact(inp):
    import numpoly
    D, bound, g = inp["D"], inp["bound"], inp["grid"]
    q = math.inf if inp["norm"] == "inf" else inp["norm"]
    idx = numpy.array(list(itertools.product(range(g), repeat=D)), dtype=int)
    got = numpoly.cross_truncate(idx, bound, q)
    if got.shape != (len(idx),) or got.dtype != bool:
        return f"result shape/dtype {got.shape} {got.dtype}"
    for x, gv in zip(idx.tolist(), got.tolist()):
        want = inside_exact(x, bound, q)
        if want is not None and want != gv:
            return f"index {x} bound {bound} norm {q}: marked {gv}, exact rule says {want}"
    return None


# ------------------------------------------------------------------ glexindex / bindex / monomial
def expected_indices(start, stop, D, ct, graded, reverse):
    start = list(numpy.broadcast_to(numpy.array(start, dtype=int).flatten(), (D,))) if numpy.size(start) != D else list(numpy.array(start).flatten())
    stop = list(numpy.broadcast_to(numpy.array(stop, dtype=int).flatten(), (D,))) if numpy.size(stop) != D else list(numpy.array(stop).flatten())
    ct = list(numpy.array(ct, dtype=float) * numpy.ones(2))
    bound = max(stop)
    out, unsure = [], False
    if D == 1:
        out = [(x,) for x in range(max(bound, 0)) if x >= max(start[0], 0) and x < bound]
    else:
        for x in itertools.product(range(max(bound, 0)), repeat=D):
            lo = inside_exact(x, [s - 1 for s in [max(v, 0) for v in start]], ct[0])
            up = inside_exact(x, [s - 1 for s in stop], ct[1])
            if lo is None or up is None:
                unsure = True
                continue
            if up and not lo:               # between the bounds: inside the upper truncation, not inside the lower one
                out.append(tuple(x))
    out.sort(key=lambda c: col_key(c, graded, reverse))
    return out, unsure


def gen_index(tier, rng):
    dims = (1, 2, 3) if tier != "thorough" else (1, 2, 3, 4)
    cts = [1.0, 0.5, 2.0, "inf", 0.0, [1.0, 2.0]] if tier == "thorough" else [1.0, 2.0, "inf", 0.0]
    for D in dims:
        tops = range(0, 5 if D < 4 else 4)
        for stop in tops:
            # (start above stop included: nothing lies between such bounds)
            for start in range(0, min(stop + 3, 6)):
                for ct in cts:
                    for g in (False, True):
                        for r in (False, True):
                            yield {"start": start, "stop": stop, "D": D, "ct": ct, "graded": g, "reverse": r}
        n = 10 if tier != "thorough" else 60
        for _ in range(n):
            stop = [rng.randint(0, 4) for _ in range(D)]
            start = [rng.randint(0, s + (2 if rng.random() < 0.2 else 0)) for s in stop] if rng.random() < 0.5 else 0
            yield {"start": start, "stop": stop, "D": D, "ct": rng.choice(cts), "graded": rng.random() < 0.5,
                   "reverse": rng.random() < 0.5}
            if D > 1:
                # per-dimension bounds with `dimensions` left at its default: the number of columns follows the bounds
                yield {"start": start, "stop": stop, "D": D, "ct": rng.choice(cts), "graded": rng.random() < 0.5,
                       "reverse": rng.random() < 0.5, "omit_dimensions": True}


def gen_index_pairs(tier, rng):
    """two-valued cross_truncation (lower, upper) with dimensions >= 3 (the intermediate pruning of _glexindex only runs
    from the third axis on)"""
    pairs = [[1.0, 2.0], [0.5, 2.0], [1.0, "inf"], [0.5, 1.0], [2.0, 1.0], [1.0, 1.0]]
    for D in (3,) if tier != "thorough" else (3, 4):
        for stop in range(2, 6 if D == 3 else 5):
            for start in range(0, stop):
                for ct in pairs:
                    yield {"start": start, "stop": stop, "D": D, "ct": ct, "graded": rng.random() < 0.5, "reverse": rng.random() < 0.5}


def _ct(v):
    if v == "inf":
        return math.inf
    if isinstance(v, list):
        return [math.inf if x == "inf" else x for x in v]
    return v


@check("C18", "glexindex.exact", gen_index, functions=("numpoly.glexindex", "numpoly.cross_truncate", "numpoly.glexsort"),
       note="bounded: stop<=4, start<=stop+2 (start above stop: empty result), dimensions<=3 (4 thorough), norms {0,.5,1,2,inf}, all flag combinations, "
            "against brute-force enumeration; exhaustive over this grid; per-dimension bounds also with `dimensions` omitted")
def glexindex_exact(inp):
    import numpoly
    D, ct = inp["D"], _ct(inp["ct"])
    dims = {} if inp.get("omit_dimensions") else {"dimensions": D}
    got = numpoly.glexindex(start=inp["start"], stop=inp["stop"], cross_truncation=ct, graded=inp["graded"], reverse=inp["reverse"], **dims)
    want, unsure = expected_indices(inp["start"], inp["stop"], D, ct, inp["graded"], inp["reverse"])
    if unsure:
        return None
    got_l = [tuple(int(v) for v in row) for row in numpy.asarray(got).reshape(-1, D)]
    if len(set(got_l)) != len(got_l):
        return f"duplicates in {got_l}"
    if got_l != want:
        return f"got {got_l} expected {want}"
    # history: the returned array belongs to the caller; editing it in place must not influence a later call
    # (platform- and history-independence: no result may be handed out twice)
    try:
        arr = numpy.asarray(got)
        if arr.size and arr.flags.writeable:
            arr += 3
    except Exception:
        pass
    for f in (lambda: numpoly.glexindex(start=inp["start"], stop=inp["stop"], cross_truncation=ct,
                                        graded=inp["graded"], reverse=inp["reverse"], **dims),):
        again = [tuple(int(v) for v in row) for row in numpy.asarray(f()).reshape(-1, D)]
        if again != want:
            return f"second call with the same arguments (after the first result was edited in place) got {again} expected {want}"
    return None


@check("C18", "glexindex.exact_two_norms", gen_index_pairs, functions=("numpoly.glexindex", "numpoly.cross_truncate"),
       note="bounded: dimensions 3 (4 thorough), start < stop <= 5, six (lower, upper) norm pairs; brute-force oracle")
def glexindex_two_norms(inp):
    return glexindex_exact(inp)


def gen_bindex(tier, rng):
    for inp in gen_index("quick", rng):
        if inp["D"] > 2 and tier != "thorough":
            continue
        if inp["ct"] not in (1.0, 2.0):
            continue
        for ordering in ("", "G", "R", "GR", "I", "GI", "GRI", "gri"):
            if rng.random() < (1.0 if tier == "thorough" else 0.15):
                yield dict(inp, ordering=ordering)


@check("C18", "bindex.flags", gen_bindex, functions=("numpoly.bindex", "numpoly.glexindex"),
       note="bounded: ordering flag decoding on the glexindex grid")
def bindex_flags(inp):
    import numpoly
    D, ct = inp["D"], _ct(inp["ct"])
    o = inp["ordering"].upper()
    got = numpoly.bindex(start=inp["start"], stop=inp["stop"], dimensions=D, ordering=inp["ordering"], cross_truncation=ct)
    want, unsure = expected_indices(inp["start"], inp["stop"], D, ct, "G" in o, "R" not in o)
    if unsure:
        return None
    if "I" in o:
        want = want[::-1]
    got_l = [tuple(int(v) for v in row) for row in numpy.asarray(got).reshape(-1, D)]
    if got_l != want:
        return f"got {got_l} expected {want}"
    return None


def gen_monomial(tier, rng):
    for inp in gen_index("quick", rng):
        if inp["ct"] not in (1.0, 2.0) or inp["D"] > 3:
            continue
        if rng.random() < (0.6 if tier == "thorough" else 0.1):
            yield inp


@check("C18", "monomial.elements", gen_monomial, functions=("numpoly.monomial", "numpoly.glexindex"),
       note="bounded: i-th element of monomial(...) is the single monomial with the i-th exponent of glexindex(...)")
def monomial_elements(inp):
    import numpoly
    D, ct = inp["D"], _ct(inp["ct"])
    want, unsure = expected_indices(inp["start"], inp["stop"], D, ct, inp["graded"], inp["reverse"])
    if unsure or not want:
        return None
    p = numpoly.monomial(start=inp["start"], stop=inp["stop"], dimensions=D, cross_truncation=ct,
                         graded=inp["graded"], reverse=inp["reverse"])
    if p.shape != (len(want),):
        return f"shape {p.shape} expected {(len(want),)}"
    m = from_ndpoly(p)
    names = p.names
    if len(names) != D:
        return f"names {names} for dimensions {D}"
    for i, e in enumerate(want):
        if m[i] != MPoly({MPoly.mono(names, e): Fraction(1)}):
            return f"element {i} is {m[i]!r}, expected monomial with exponent {e} over {names}"
    return None


# ------------------------------------------------------------------ one dimension, large bounds (width of the internal index type)
def gen_large_1d(tier, rng):
    for lo, hi in [(250, 260), (65530, 65540), (65536, 65538), (70000, 70003)] + ([(255, 257), (65534, 65537), (131070, 131075)] if tier == "thorough" else []):
        for fn in ("glexindex", "monomial", "bindex"):
            yield {"start": lo, "stop": hi, "fn": fn}


@check("C18", "glexindex.large_bounds_one_dimension", gen_large_1d, functions=("numpoly.glexindex", "numpoly.monomial", "numpoly.bindex"),
       note="bounded: dimensions = 1 with stop at 260, 65540, 65538, 70003 (thorough: 3 more), a few below/above the 8- and 16-bit limits: "
            "exactly the exponents start..stop-1, each once, in order")
def large_bounds(inp):
    import numpoly
    lo, hi = inp["start"], inp["stop"]
    want = list(range(lo, hi))
    if inp["fn"] == "monomial":
        m = numpoly.monomial(lo, hi, dimensions=1)
        got = [int(e[0]) for e in m.exponents] if m.shape == (len(want),) else None
        if got is not None:
            got = [int(numpoly.lead_exponent(x)[0]) for x in m]
    else:
        r = getattr(numpoly, inp["fn"])(lo, hi, dimensions=1) if inp["fn"] == "glexindex" else numpoly.bindex(lo, hi, 1)
        got = [int(v) for v in numpy.asarray(r).reshape(-1)]
    if got != want:
        return f"{inp['fn']}({lo}, {hi}, dimensions=1): {got} instead of {want}"
    return None
