"""C12 run-time contracts (bounded stand-in): coefficient values survive every dtype and no
uninitialised memory is returned.  Oracle: numpy's own casts / promotions / arithmetic on plain
arrays of the same dtypes and shapes (never numpoly).  Every check runs under the 0xA5 poison
wrapper and requires wf(result) (includes the poison test), the numpy dtype and exact values."""
from __future__ import annotations
import functools
import warnings
import numpy
from .common import check
from .gen import nested, broadcastable_pair, count
from .model import MPoly, num
from .wf import wf, denotes, install_poison, poison_values

DTYPES = ["bool", "int8", "int16", "int32", "int64", "uint8", "uint16", "uint32", "uint64",
          "float16", "float32", "float64", "complex64", "complex128"]
NAMES = ["q0", "q1"]
SHAPES = [(), (1,), (3,), (2, 2), (1, 2)]


def quiet(fn):
    @functools.wraps(fn)
    def run(inp):
        install_poison()
        with numpy.errstate(all="ignore"), warnings.catch_warnings():
            warnings.simplefilter("ignore")
            return fn(inp)
    return run


# ------------------------------------------------------------------ typed data (JSON) -> numpy
WIDE = {"int8": [100, 127, -128, -100, 50, 3], "uint8": [200, 255, 100, 1, 0, 3], "int16": [30000, -32768, 200, 3], "uint16": [65535, 40000, 300, 1],
        "int32": [2 ** 31 - 1, -2 ** 31, 70000, 3], "uint32": [2 ** 32 - 1, 70000, 1, 0], "int64": [2 ** 63 - 1, -2 ** 63, 2 ** 40, 3],
        "uint64": [2 ** 64 - 1, 2 ** 63, 1, 0], "float16": [2048.0, 1.0, 0.1, 100.0, -3.0], "float32": [16777216.0, 1.0, 0.1, 1e18, -3.0],
        "complex64": [16777216.0, 1.0, 0.1, -3.0]}


def pool(dt, small):
    d = numpy.dtype(dt)
    if small == "wide" and dt in WIDE:
        return WIDE[dt]     # values whose sums / products leave the dtype's range or precision
    small = bool(small)
    if d.kind == "b":
        return [True, False]
    if d.kind in "iu":
        base = [0, 1, 2, 3, 7] + ([-1, -2, -3] if d.kind == "i" else [])
        info = numpy.iinfo(d)
        return base if small else base + [int(info.max), int(info.min), int(info.max) - 1, 100]
    base = [0.0, 1.0, -1.5, 0.5, 2.0, -3.0, 0.25]
    top = {"float16": 65504.0, "float32": 3e38, "complex64": 3e38}.get(dt, 1e300)
    return base if small else base + [1000.0, 0.1, 300.25, -60000.0, top]


def cast_ok(v, a, b):
    """The cast of value v (real part) from a to b is defined by C and finite."""
    a, b = numpy.dtype(a), numpy.dtype(b)
    if b.kind in "iu" and a.kind in "fc":
        return int(numpy.iinfo(b).min) <= int(v) <= int(numpy.iinfo(b).max)
    if b.kind in "fc":
        return abs(v) <= float(numpy.finfo(b).max)
    return True


def data(rng, dt, shape, small=False, to=None):
    vals = [v for v in pool(dt, small) if to is None or cast_ok(v, dt, to)]
    im = None
    if numpy.dtype(dt).kind == "c":
        im = nested(rng, tuple(shape), [0.0, 1.0, 16777216.0] if small == "wide" else [0.0, 1.0, -1.0] if small else [0.0, 1.0, -2.5, 0.5])
    return {"re": nested(rng, tuple(shape), vals), "im": im}


def arr(dt, d):
    if d.get("im") is None:
        return numpy.array(d["re"], dtype=dt)
    return (numpy.array(d["re"], dtype="float64") + 1j * numpy.array(d["im"], dtype="float64")).astype(dt)


def tspec(rng, dt, shape, small=False, to=None, const=False):
    """Typed polynomial spec: every coefficient column is data of dtype dt."""
    D = 1 if const else rng.choice([1, 2])
    rows = {(0,) * D} if const else {tuple(rng.choice([0, 0, 1, 2]) for _ in range(D)) for _ in range(rng.randint(1, 3))}
    if not const and not any(any(r) for r in rows):
        rows.add((1,) * D)
    rows = sorted(rows)
    return {"dtype": dt, "shape": list(shape), "names": NAMES[:D], "exponents": [list(r) for r in rows],
            "cols": [data(rng, dt, shape, small, to) for _ in rows], "layout": rng.choice(["c", "c", "f", "strided", "readonly"])}


def laid_out(c, how):
    """Same values and dtype, different memory layout / flags."""
    if how == "f" and c.ndim > 1:
        return numpy.asfortranarray(c)
    if how == "strided" and c.ndim:
        return numpy.repeat(c, 2, axis=-1)[..., ::2]
    if how == "readonly":
        c.setflags(write=False)
    return c


def terms(spec):
    """[(monomial, column)]; spec["dtypes"] (optional) gives every column its own dtype, spec["dtype"] is that of the first."""
    dts = spec.get("dtypes") or [spec["dtype"]] * len(spec["cols"])
    return [(MPoly.mono(spec["names"], e), laid_out(arr(dt, c), spec.get("layout")))
            for e, c, dt in zip(spec["exponents"], spec["cols"], dts)]


def mixed_spec(rng, first, shape, to=None):
    """2-3 columns, constant term first (never pruned); the first has dtype `first`, at least one later column another dtype."""
    D = rng.choice([1, 2])
    rows = [[0] * D] + sorted({tuple(rng.choice([0, 1, 2]) for _ in range(D)) for _ in range(2)} - {(0,) * D})
    dts = [first] + [rng.choice([d for d in DTYPES if d != first]) if i == 0 else rng.choice(DTYPES) for i in range(len(rows) - 1)]
    return {"dtype": first, "dtypes": dts, "shape": list(shape), "names": NAMES[:D], "exponents": [list(r) for r in rows],
            "cols": [data(rng, dt, shape, False, to or first) for dt in dts], "layout": rng.choice(["c", "strided", "readonly"])}


def pyvalues(s):
    """Columns as Python / numpy scalars (0-d specs only)."""
    return [c[()] if s.get("scalars") == "numpy" else c.item() for _, c in terms(s)]


def tpoly(spec, **kw):
    import numpoly
    kw.setdefault("retain_coefficients", True)
    kw.setdefault("retain_names", True)
    return numpoly.polynomial_from_attributes(spec["exponents"], [c for _, c in terms(spec)], tuple(spec["names"]), **kw)


def model_of(tms, shape):
    out = numpy.empty(shape, dtype=object)
    for idx in numpy.ndindex(*shape):
        out[idx] = MPoly()
    for m, c in tms:
        c = numpy.broadcast_to(c, shape)
        for idx in numpy.ndindex(*shape):
            if c[idx] != 0:
                out[idx] = out[idx] + MPoly({m: num(c[idx])})
    return out


def judge(r, tms, dtype, shape, what="result"):
    """r is a well-formed ndpoly of numpy's dtype and shape denoting the numpy-computed terms."""
    import numpoly
    if not isinstance(r, numpoly.ndpoly):
        return f"{what}: not an ndpoly but {type(r).__name__}"
    shape, dtype = tuple(shape), numpy.dtype(dtype)
    if tuple(r.shape) != shape:
        return f"{what}: shape {tuple(r.shape)}, numpy gives {shape}"
    if r.dtype != dtype:
        return f"{what}: dtype {r.dtype}, numpy gives {dtype}"
    msg = wf(r, what)
    if msg and "poison" in msg and dtype.kind != "b" and any(numpy.any(c == poison_values(dtype)) for _, c in tms):
        msg = None          # the expected values legitimately contain the poison bit pattern
    return msg or denotes(r, model_of(tms, shape), what)


def cast_terms(tms, b):
    return [(m, c.astype(b)) for m, c in tms]


def all_pairs(tier, rng, reps=(1, 10)):
    for a in DTYPES:
        for b in DTYPES:
            for _ in range(count(tier, *reps)):
                yield a, b


# ------------------------------------------------------------------ construction from data of a dtype / with dtype=
def _dict(s):
    return {tuple(e): c for e, (_, c) in zip(s["exponents"], terms(s))}


def _items(s):
    p = tpoly(s)
    return [p[i] for i in range(s["shape"][0])]


# route -> builder(numpoly, first column, spec, extra keyword arguments)
ROUTES = {
    "array": lambda n, x, s, kw: n.polynomial(x, **kw), "scalar": lambda n, x, s, kw: n.polynomial(x[()], **kw),
    "as_array": lambda n, x, s, kw: n.aspolynomial(x, **kw), "as_poly": lambda n, x, s, kw: n.aspolynomial(tpoly(s), **kw),
    "attrs": lambda n, x, s, kw: tpoly(s, **kw), "attrs_clean": lambda n, x, s, kw: tpoly(s, retain_coefficients=False, retain_names=False, **kw),
    "dict": lambda n, x, s, kw: n.polynomial(_dict(s), names=tuple(s["names"]), **kw), "poly": lambda n, x, s, kw: n.polynomial(tpoly(s), **kw),
    "struct": lambda n, x, s, kw: n.polynomial(tpoly(s).values, names=tuple(s["names"]), **kw),
    "as_struct": lambda n, x, s, kw: n.aspolynomial(tpoly(s).values, names=tuple(s["names"]), **kw), "compose": lambda n, x, s, kw: n.polynomial(_items(s), **kw),
    "iter": lambda n, x, s, kw: n.polynomial(list(tpoly(s))), "copy": lambda n, x, s, kw: tpoly(s).copy(),
    "astype": lambda n, x, s, kw: tpoly(s).astype(kw["dtype"]), "astype_dtype_object": lambda n, x, s, kw: tpoly(s).astype(numpy.dtype(kw["dtype"])),
}
MIXED = {      # one constructor call given coefficients of different dtypes
    "mixed_attrs": lambda n, x, s, kw: n.polynomial_from_attributes(s["exponents"], [c for _, c in terms(s)], tuple(s["names"]), **kw),
    "mixed_attrs_retain": lambda n, x, s, kw: tpoly(s, **kw),
    "mixed_from_attributes": lambda n, x, s, kw: n.ndpoly.from_attributes(s["exponents"], [c for _, c in terms(s)], tuple(s["names"]), **kw),
    "mixed_dict": lambda n, x, s, kw: n.polynomial(_dict(s), names=tuple(s["names"]), **kw),
    "mixed_dict_scalars": lambda n, x, s, kw: n.polynomial(dict(zip(map(tuple, s["exponents"]), pyvalues(s))), names=tuple(s["names"]), **kw),
    "mixed_attrs_scalars": lambda n, x, s, kw: n.polynomial_from_attributes(s["exponents"], pyvalues(s), tuple(s["names"]), **kw),
}
ROUTES.update(MIXED)
PY_DTYPES = ["bool", "int64", "float64", "complex128"]       # what Python scalars become


def gen_mixed(tier, rng, pairs):
    for first, to in pairs:
        for ctor in MIXED:
            scal = ctor.endswith("scalars")
            if scal and rng.random() < 0.5:
                s = mixed_spec(rng, rng.choice(PY_DTYPES), (), to)
                s["dtypes"] = [s["dtype"]] + [rng.choice(PY_DTYPES) for _ in s["dtypes"][1:]]
                s["cols"] = [data(rng, dt, (), False, to or s["dtype"]) for dt in s["dtypes"]]
                s["scalars"] = "python"
            else:
                s = mixed_spec(rng, first, () if scal else rng.choice(SHAPES), to)
                s["scalars"] = "numpy"
            yield {"ctor": ctor, "p": s, **({"b": to} if to else {})}


CTORS = ["array", "scalar", "as_array", "attrs", "attrs_clean", "dict", "poly", "struct", "compose", "iter", "copy"]
DCTORS = ["array", "as_array", "as_poly", "poly", "attrs", "dict", "compose", "astype", "astype_dtype_object", "struct", "as_struct"]


def gen_from_data(tier, rng):
    for a in DTYPES:
        for ctor in CTORS:
            for _ in range(count(tier, 2, 20)):
                const = ctor in ("array", "scalar", "as_array")
                shape = () if ctor == "scalar" else rng.choice([(3,), (2,)] if ctor in ("compose", "iter") else SHAPES)
                yield {"ctor": ctor, "p": tspec(rng, a, shape, const=const)}
    for _ in range(count(tier, 2, 12)):
        yield from gen_mixed(tier, rng, [(a, None) for a in DTYPES])


@check("C12", "construct.from_data", gen_from_data,
       functions=("numpoly.polynomial", "numpoly.aspolynomial", "numpoly.polynomial_from_attributes", "numpoly.ndpoly.values",
                  "numpoly.ndpoly.__iter__", "numpoly.construct.compose.compose_polynomial_array"),
       note="bounded: all 14 dtypes x 11 construction routes (ndarray, numpy scalar, attributes, dict, ndpoly, raw structured "
            "view, list of polynomials, iteration, copy); <=3 terms, <=2 indeterminates, exponents<=2, 5 shapes, C/Fortran/strided/read-only data; "
            "values incl. dtype extremes; result dtype = data dtype, values equal; plus 6 routes given columns (arrays, numpy or Python "
            "scalars) of DIFFERENT dtypes in one call (constant term first): dtype = numpy's promotion of all columns, "
            "every value = numpy's astype of the given value to it")
@quiet
def from_data(inp):
    import numpoly
    s = inp["p"]
    tms = terms(s)
    r = ROUTES[inp["ctor"]](numpoly, tms[0][1], s, {})
    dtype = numpy.dtype(s["dtype"])
    if "dtypes" in s:
        dtype = numpy.result_type(*[c.dtype for _, c in tms])     # mixed columns: numpy's promotion of all of them
    return judge(r, cast_terms(tms, dtype), dtype, tuple(s["shape"]))


def gen_request(tier, rng):
    for a, b in all_pairs(tier, rng):
        for ctor in DCTORS:
            const = ctor in ("array", "as_array")
            shape = (2,) if ctor == "compose" else rng.choice(SHAPES)
            yield {"b": b, "ctor": ctor, "p": tspec(rng, a, shape, to=b, const=const)}
    for _ in range(count(tier, 1, 6)):
        yield from gen_mixed(tier, rng, [(a, rng.choice([a, a] + DTYPES)) for a in DTYPES])


def _request(inp):
    import numpoly
    s, b = inp["p"], inp["b"]
    tms = terms(s)
    return judge(ROUTES[inp["ctor"]](numpoly, tms[0][1], s, {"dtype": b}), cast_terms(tms, b), b, tuple(s["shape"]))


def only(*ctors):
    return lambda tier, rng: (i for i in gen_request(tier, rng) if i["ctor"] in ctors)


@check("C12", "construct.dtype_request", only("array", "as_array", "as_poly", "poly", "attrs", "dict", "struct", "as_struct", *MIXED),
       functions=("numpoly.polynomial", "numpoly.aspolynomial", "numpoly.polynomial_from_attributes"),
       note="bounded: all 196 ordered dtype pairs x 8 routes with dtype= (ndarray, aspolynomial of ndarray/ndpoly, ndpoly, "
            "attributes, dict, raw structured array through polynomial and aspolynomial); expected = numpy.array(data, a).astype(b); data (incl. dtype extremes) restricted to values whose "
            "C cast a->b is defined and finite; <=3 terms, <=2 indeterminates, 5 shapes; plus the 6 mixed-dtype-column routes of "
            "construct.from_data with dtype= (equal to the first column's dtype half of the time)")
@quiet
def dtype_request(inp):
    return _request(inp)


@check("C12", "construct.dtype_request_list_of_polynomials", only("compose"),
       functions=("numpoly.polynomial", "numpoly.construct.compose.compose_polynomial_array"),
       note="bounded: all 196 ordered dtype pairs, polynomial([p0, p1], dtype=b) with 0-d polynomials of dtype a; same oracle "
            "and data as construct.dtype_request (values outside b's range must wrap as in numpy's astype)")
@quiet
def dtype_request_list(inp):
    return _request(inp)


@check("C12", "astype.numpy_cast", only("astype", "astype_dtype_object"),
       functions=("numpoly.ndpoly.astype", "numpoly.polynomial_from_attributes"),
       note="bounded: all 196 ordered dtype pairs, non-constant operands; expected = column.astype(b)")
@quiet
def astype_cast(inp):
    return _request(inp)


# ------------------------------------------------------------------ nested rows of different types with dtype=
ROW_DTYPES = ["int64", "uint64", "float64", "int32", "float32", "bool", "uint8"]
BIG = {"int64": [2 ** 53 + 1, -(2 ** 53) - 1, 2 ** 62 + 3, 2 ** 63 - 1, 5], "uint64": [2 ** 53 + 1, 2 ** 63 + 1, 2 ** 64 - 1, 2 ** 64 - 3, 7]}


def gen_nested_rows(tier, rng):
    for b in ROW_DTYPES:
        for _ in range(count(tier, 6, 60)):
            k, n = rng.choice([2, 2, 3]), rng.choice([1, 2, 3])
            dts = [b if rng.random() < 0.5 else rng.choice(ROW_DTYPES)] + [rng.choice(ROW_DTYPES) for _ in range(k - 1)]
            rows = []
            for dt in dts:
                vals = [v for v in (BIG[dt] if dt in BIG and rng.random() < 0.7 else pool(dt, False)) if cast_ok(v, dt, b)]
                rows.append({"dtype": dt, "values": [rng.choice(vals) for _ in range(n)], "as": rng.choice(["ndarray", "ndarray", "list", "poly"])})
            yield {"b": b, "rows": rows}


@check("C12", "construct.nested_rows_dtype_request", gen_nested_rows,
       functions=("numpoly.polynomial", "numpoly.construct.compose.compose_polynomial_array", "numpoly.concatenate"),
       note="bounded: polynomial([row0, row1(, row2)], dtype=b) for b in int64/uint64/float64/int32/float32/bool/uint8, every row data of its "
            "own dtype (ndarray, Python list, or constant polynomial array) incl. 64-bit integers beyond 2**53 and dtype extremes whose "
            "cast to b is defined; expected row i = numpy.array(row i).astype(b): no row passes through a type promoted from the others")
@quiet
def nested_rows(inp):
    import numpoly
    b = numpy.dtype(inp["b"])
    rows, want = [], []
    for r in inp["rows"]:
        a = numpy.array(r["values"], dtype=r["dtype"])
        want.append(a.astype(b))
        how = r["as"] if not (r["as"] == "list" and r["dtype"] not in ("int64", "float64", "bool")) else "ndarray"
        rows.append(a.tolist() if how == "list" else numpoly.polynomial(a) if how == "poly" else a)
    try:
        got = numpoly.polynomial(rows, dtype=b)
    except Exception as e:      # noqa: BLE001
        return f"polynomial(rows, dtype={b}) raised {type(e).__name__}: {str(e)[:150]}"
    want = numpy.array(want, dtype=b)
    return judge(got, [(MPoly.mono(["q0"], [0]), want)], b, want.shape)


# ------------------------------------------------------------------ products stored into a target of another dtype
def gen_mul_target(tier, rng):
    opd = ["bool", "uint32", "int64", "float64", "int16", "float32", "uint8"]
    tgt = ["int64", "float64", "complex128", "float32", "int32"]
    for a in opd:
        for b in opd:
            for t in tgt:
                if not numpy.can_cast(numpy.result_type(a, b), t, "same_kind"):
                    continue
                for _ in range(count(tier, 1, 4)):
                    n = rng.choice([1, 2, 3])
                    d1, d2 = rng.choice([0, 1, 2]), rng.choice([0, 1, 2])
                    col = lambda dt: [rng.choice(pool(dt, True)) for _ in range(n)]
                    yield {"a": a, "b": b, "t": t, "x": [col(a) for _ in range(d1 + 1)], "y": [col(b) for _ in range(d2 + 1)],
                           "prefill": rng.choice([0, -1, 7]), "via": rng.choice(["numpy", "numpoly"])}


@check("C12", "arith.multiply_into_target_dtype", gen_mul_target, functions=("numpoly.multiply", "numpoly.ndpoly.__array_ufunc__"),
       note="bounded: numpy.multiply / numpoly.multiply(x, y, out=target) for univariate operand arrays of degree <=2 with every power "
            "present (so every field of the target is written), operand dtypes bool/uint8/uint32/int16/int64/float32/float64 x target dtypes "
            "int32/int64/float32/float64/complex128 that numpy's same_kind rule allows, target pre-filled with 0 / -1 / 7; expected: the "
            "coefficient products computed by numpy and stored with numpy.multiply(..., out=) into the target dtype - nothing of the "
            "pre-filled content, no reinterpreted bytes")
@quiet
def multiply_into_target(inp):
    import itertools as it
    import numpoly
    n = len(inp["x"][0])
    X = [numpy.array(c, dtype=inp["a"]) for c in inp["x"]]
    Y = [numpy.array(c, dtype=inp["b"]) for c in inp["y"]]
    t = numpy.dtype(inp["t"])
    mk = lambda cols: numpoly.polynomial_from_attributes([[k] for k in range(len(cols))], cols, ("q0",), retain_coefficients=True, retain_names=True)
    x, y = mk(X), mk(Y)
    deg = len(X) + len(Y) - 2
    ref = numpy.zeros((deg + 1, n), dtype=t)
    for i, j in it.product(range(len(X)), range(len(Y))):
        term = numpy.zeros(n, dtype=t)
        numpy.multiply(X[i], Y[j], out=term)
        ref[i + j] += term
    target = numpoly.ndpoly(exponents=[(k,) for k in range(deg + 1)], shape=(n,), names=("q0",), dtype=t)
    for key in target.keys:
        target.values[key] = inp["prefill"]
    try:
        r = (numpy if inp["via"] == "numpy" else numpoly).multiply(x, y, out=target)
    except Exception as e:      # noqa: BLE001
        return f"multiply(..., out=target of dtype {t}) raised {type(e).__name__}: {str(e)[:150]}"
    if r is not target:
        return "the result is not the target object"
    if target.dtype != t:
        return f"target dtype became {target.dtype}"
    got = numpy.zeros((deg + 1, n), dtype=t)
    for (k,), c in zip(target.exponents.tolist(), target.coefficients):
        got[k] = c
    if not numpy.array_equal(got, ref, equal_nan=t.kind in "fc"):
        return (f"operands {inp['a']} x {inp['b']} into a {t} target pre-filled with {inp['prefill']}: coefficients by power "
                f"{got.tolist()}, numpy gives {ref.tolist()}")
    return None


SYMBOL_FORMS = {
    "variable": lambda n, b: (n.variable(dtype=b), ["q0"], ()), "variable2": lambda n, b: (n.variable(2, dtype=b), ["q0", "q1"], (2,)),
    "variable_arr": lambda n, b: (n.variable(1, asarray=True, dtype=b), ["q0"], (1,)), "symbols_none": lambda n, b: (n.symbols(dtype=b), ["q0"], ()),
    "symbols_one": lambda n, b: (n.symbols("q3", dtype=b), ["q3"], ()), "symbols_list": lambda n, b: (n.symbols("q1,q4", dtype=b), ["q1", "q4"], (2,)),
    "symbols_range": lambda n, b: (n.symbols("q:3", dtype=b), ["q0", "q1", "q2"], (3,)),
}


def gen_symbols(tier, rng):
    for b in DTYPES:
        for form in SYMBOL_FORMS:
            yield {"b": b, "form": form}


@check("C12", "construct.variable_symbols_dtype", gen_symbols, functions=("numpoly.variable", "numpoly.symbols"),
       note="exhaustive: 14 dtypes x 7 call forms; coefficient 1 of the requested dtype")
@quiet
def symbols_dtype(inp):
    import numpoly
    b, form = inp["b"], inp["form"]
    one = numpy.ones((), dtype=b)
    r, names, shape = SYMBOL_FORMS[form](numpoly, b)
    tms = []
    for i, n in enumerate(names):
        c = numpy.zeros(shape, dtype=b)
        c[(i,) if shape else ()] = one
        tms.append((((n, 1),), c))
    return judge(r, tms, b, shape)


# ------------------------------------------------------------------ arithmetic between dtypes
def opnd(spec):
    import numpoly
    kind, s = spec["kind"], spec["p"]
    if kind == "poly":
        return tpoly(s)
    x = terms(s)[0][1]
    return numpoly.polynomial(x) if kind == "const" else (x if kind == "array" else x[()])


def np_add(X, Y, sx, sy, ax, ay, f):
    out = []
    dx, dy = dict(X), dict(Y)
    for m in sorted(set(dx) | set(dy)):
        out.append((m, f(dx.get(m, numpy.zeros(sx, dtype=ax)), dy.get(m, numpy.zeros(sy, dtype=ay)))))
    return out


def np_mul(X, Y):
    out = {}
    for m1, x in X:
        for m2, y in Y:
            d = dict(m1)
            for n, e in m2:
                d[n] = d.get(n, 0) + e
            m, v = tuple(sorted(d.items())), numpy.multiply(x, y)
            out[m] = numpy.add(out[m], v) if m in out else v
    return sorted(out.items())


def gen_arith(tier, rng):
    for a, b in all_pairs(tier, rng, (2, 24)):
        sa, sb = broadcastable_pair(rng)
        ka, kb = rng.choice([("poly", "poly"), ("poly", "const"), ("const", "poly"), ("const", "const"), ("poly", "array"),
                             ("array", "poly"), ("const", "array"), ("array", "const"), ("const", "scalar"), ("scalar", "poly")])
        sa, sb = (() if ka == "scalar" else sa), (() if kb == "scalar" else sb)
        op = rng.choice(["add", "sub", "mul"])
        if op == "sub" and a == b == "bool":
            op = "add"      # numpy itself rejects bool - bool
        yield {"op": op, "x": {"kind": ka, "p": tspec(rng, a, sa, small=True, const=ka != "poly")},
               "y": {"kind": kb, "p": tspec(rng, b, sb, small=True, const=kb != "poly")}}


ONE_SIDED = [((2,), ()), ((), (2,)), ((1,), (3,)), ((3,), (1,)), ((2, 2), (2,)), ((2,), (2, 2)), ((2, 1, 2), (2,)), ((2, 2), ()), ((1, 2), (2, 2))]


def gen_arith_all(tier, rng):
    yield from gen_arith(tier, rng)
    for a in WIDE:      # exactly one operand is broadcast and the values overflow the narrow dtype
        for b in [a, a, a] + rng.sample(DTYPES, count(tier, 2, 8)):
            for op in ("add", "sub", "mul"):
                for _ in range(count(tier, 1, 4)):
                    sa, sb = rng.choice(ONE_SIDED)
                    ka, kb = rng.choice([("poly", "poly"), ("poly", "const"), ("const", "poly"), ("const", "const"), ("poly", "array"), ("array", "const")])
                    yield {"op": op, "x": {"kind": ka, "p": tspec(rng, a, sa, small="wide", const=ka != "poly")},
                           "y": {"kind": kb, "p": tspec(rng, b, sb, small="wide" if b in WIDE else True, const=kb != "poly")}}


@check("C12", "arith.mixed_dtypes", gen_arith_all, functions=("numpoly.add", "numpoly.subtract", "numpoly.multiply", "numpoly.align_shape",
                                                             "numpoly.align_polynomials", "numpoly.simple_dispatch"),
       note="bounded: all 196 ordered dtype pairs x {+,-,*} x operand forms (non-constant ndpoly, constant ndpoly, ndarray, numpy "
            "scalar; never Python scalars) x 13 broadcastable shape pairs; small-integer-valued data (|v|<=7, halves for floats); "
            "expected dtype and values: numpy's ufunc on plain arrays of the same dtypes and shapes, column by column "
            "(bool: or/and; integers wrap); plus, for the 11 narrow/extreme dtypes, same-dtype and 2 (8) other partners x 9 shape pairs "
            "where exactly one operand is broadcast, with values that overflow or lose precision (int8 100+100, uint64 2**64-1, "
            "float16 2048+1, float32 2**24+1); inputs whose numpy result is not finite are skipped")
@quiet
def arith_mixed(inp):
    import operator
    sx, sy = inp["x"]["p"], inp["y"]["p"]
    X, Y = terms(sx), terms(sy)
    shx, shy = tuple(sx["shape"]), tuple(sy["shape"])
    f = {"add": numpy.add, "sub": numpy.subtract, "mul": numpy.multiply}[inp["op"]]
    try:
        probe = f(numpy.zeros(shx, dtype=sx["dtype"]), numpy.zeros(shy, dtype=sy["dtype"]))
        want = np_mul(X, Y) if inp["op"] == "mul" else np_add(X, Y, shx, shy, sx["dtype"], sy["dtype"], f)
    except TypeError:
        return None         # numpy has no such operation for these dtypes
    if not all(numpy.all(numpy.isfinite(c)) for _, c in want):
        return None         # inf/nan cannot be compared in the exact model
    x, y = opnd(inp["x"]), opnd(inp["y"])
    r = {"add": operator.add, "sub": operator.sub, "mul": operator.mul}[inp["op"]](x, y)
    return judge(r, want, probe.dtype, probe.shape)


def gen_square(tier, rng):
    for a in DTYPES:
        if a == "bool":
            # numpy itself is not consistent for bool (x**2 -> int8 via numpy.square, numpy.power(x, 2) -> int64), so no
            # "numpy's promoted dtype" exists for it; demanding int8 would demand more than C12 states.
            continue
        for kind in ("poly", "const"):
            for via in ("operator", "numpoly.power", "numpoly.square"):
                for _ in range(count(tier, 1, 12)):
                    yield {"via": via, "x": {"kind": kind, "p": tspec(rng, a, rng.choice(SHAPES), small=True, const=kind == "const")}}
            # other exponents, scalar and as an array: 0 (the constant one of the operand's dtype and shape), 1, 3
            for k in (0, 0, 1, 3):
                for via in ("operator", "numpoly.power"):
                    yield {"via": via, "k": k, "array_exponent": rng.random() < 0.3,
                           "x": {"kind": kind, "p": tspec(rng, a, rng.choice(SHAPES), small=True, const=kind == "const")}}


@check("C12", "arith.square_dtype", gen_square, functions=("numpoly.power", "numpoly.square", "numpoly.multiply"),
       note="bounded: 14 dtypes x constant/non-constant x (p**2, numpoly.power(p, 2), numpoly.square(p)); expected dtype is that of "
            "numpy's x**2 / numpy.square(x) on a plain array of the dtype (bool**2 is int8), values = product in that dtype; also p**0 "
            "(ones of the operand's dtype and shape), p**1, p**3 with the exponent as a number or as an array")
@quiet
def square_dtype(inp):
    import numpoly
    s = inp["x"]["p"]
    shape = tuple(s["shape"])
    z = numpy.zeros(shape, dtype=s["dtype"])
    k = inp.get("k", 2)
    e = numpy.full(shape, k, dtype=int) if inp.get("array_exponent") and shape else k
    try:
        # (the dtype is that of a power with a NUMBER as exponent: an exponent array is a table of integers, not coefficient data,
        # and numpy's promotion with its int64 dtype is not what C12 speaks about)
        probe = numpy.square(z) if inp["via"] == "numpoly.square" else z ** k
    except TypeError:
        return None
    X = cast_terms(terms(s), probe.dtype)
    x = opnd(inp["x"])
    r = x ** e if inp["via"] == "operator" else (numpoly.power(x, e) if inp["via"] == "numpoly.power" else numpoly.square(x))
    if k == 0:
        want = [(MPoly.mono(s["names"], [0] * len(s["names"])), numpy.ones(shape, dtype=probe.dtype))]
    else:
        want = X
        for _ in range(k - 1):
            want = np_mul(want, X)
    return judge(r, want, probe.dtype, shape)


# ------------------------------------------------------------------ indexing and shape functions keep dtype and values
INDEX = {"int": 0, "neg": -1, "slice": slice(0, 1), "step": slice(None, None, -1), "ellipsis": Ellipsis, "newaxis": None,
         "tuple": (0, slice(None)), "fancy": [1, 0, 1], "mask": "mask"}
SHAPEF = {
    "reshape": lambda n, p: n.reshape(p, (-1,)), "transpose": lambda n, p: n.transpose(p), "T": lambda n, p: p.T,
    "concatenate": lambda n, p: n.concatenate([p, p]), "stack": lambda n, p: n.stack([p, p]), "expand_dims": lambda n, p: n.expand_dims(p, 0),
    "repeat": lambda n, p: n.repeat(p, 2, axis=0), "tile": lambda n, p: n.tile(p, 2), "atleast_2d": lambda n, p: n.atleast_2d(p),
    "moveaxis": lambda n, p: n.moveaxis(p, 0, -1), "flatten": lambda n, p: p.flatten(), "ravel": lambda n, p: p.ravel(),
    "sum": lambda n, p: n.sum(p, axis=0), "cumsum": lambda n, p: n.cumsum(p, axis=0), "zeros_like": lambda n, p: n.zeros_like(p),
    "ones_like": lambda n, p: n.ones_like(p), "broadcast": lambda n, p: n.broadcast_arrays(p, n.ones((2,) + p.shape, dtype=p.dtype))[0],
    "where_self": lambda n, p: n.where(n.ones(p.shape, dtype=bool), p, p),
}


def gen_index(tier, rng):
    for a in DTYPES:
        for f in list(INDEX) + [k for k, v in SHAPEF.items() if v]:
            for _ in range(count(tier, 1, 8)):
                shape = rng.choice([(3,), (2, 2), (2, 3)]) if f != "tuple" else rng.choice([(2, 2), (2, 3)])
                mask = nested(rng, (shape[0],), [True, False])
                mask[rng.randrange(shape[0])] = True        # masks selecting nothing: see empty.construct
                yield {"f": f, "p": tspec(rng, a, shape, small=f in ("sum", "cumsum")), "mask": mask}


@check("C12", "index_and_shape.keep_dtype", gen_index,
       functions=("numpoly.ndpoly.__getitem__", "numpoly.reshape", "numpoly.transpose", "numpoly.concatenate", "numpoly.stack",
                  "numpoly.expand_dims", "numpoly.repeat", "numpoly.tile", "numpoly.atleast_2d", "numpoly.moveaxis", "numpoly.sum",
                  "numpoly.cumsum", "numpoly.zeros_like", "numpoly.ones_like", "numpoly.broadcast_arrays", "numpoly.where"),
       note="bounded: 14 dtypes x 9 index forms (masks select at least one element) + 18 shape functions on 1-/2-d arrays of "
            "extent <=3; expected = the same numpy call on every coefficient column (dtype incl. numpy's sum/cumsum promotion)")
@quiet
def index_shape(inp):
    import numpoly
    s, f = inp["p"], inp["f"]
    tms, p = terms(s), tpoly(s)
    if f in INDEX:
        idx = numpy.array(inp["mask"], dtype=bool) if f == "mask" else INDEX[f]
        r, want = p[idx], [(m, c[idx]) for m, c in tms]
    else:
        r = SHAPEF[f](numpoly, p)
        want = [(m, SHAPEF[f](numpy, c)) for m, c in tms]
        if f == "ones_like":
            want = [((), numpy.ones_like(tms[0][1]))]
    return judge(r, want, want[0][1].dtype, want[0][1].shape)


# ------------------------------------------------------------------ results whose terms cancel / are filtered away
def _nomask(z):
    return numpy.zeros(z.shape, dtype=bool)


# how -> (numpy side on the zero array z of the operand's dtype and shape, numpoly side, dtype required?)
CANCEL = {
    "sub_self": (lambda z: z - z, lambda n, p, z: p - p, True),
    "add_neg": (lambda z: z + (-z), lambda n, p, z: p + (-p), True),
    "mul_zero_scalar": (lambda z: z * z.dtype.type(0), lambda n, p, z: p * z.dtype.type(0), True),
    "mul_zero_array": (lambda z: z * z, lambda n, p, z: p * z, True),
    "zero_mul": (lambda z: z * z, lambda n, p, z: n.polynomial(z) * p, True),
    "where_none": (lambda z: numpy.where(_nomask(z), z, z), lambda n, p, z: n.where(_nomask(z), p, z), True),
    "diff_equal": (lambda z: numpy.diff(z), lambda n, p, z: n.diff(p), True),
    "astype_to_zero": (lambda z: z.astype("int8"), lambda n, p, z: p.astype("int8"), True),
    "set_dimensions": (lambda z: z, lambda n, p, z: n.set_dimensions(p, 1), False),
    "derivative_const": (lambda z: z, lambda n, p, z: n.derivative(p, "q0"), False),
    "derivative_other": (lambda z: z, lambda n, p, z: n.derivative(p, "q1"), False),
    "call_zero": (lambda z: z, lambda n, p, z: n.polynomial(p(*[0] * len(p.names))), False),
}


def gen_cancel(tier, rng):
    for a in DTYPES:
        for how in CANCEL:
            if how == "astype_to_zero" and numpy.dtype(a).kind not in "fc":
                continue
            for _ in range(count(tier, 1, 8)):
                s = tspec(rng, a, (2,) if how == "diff_equal" else rng.choice(SHAPES), const=how == "derivative_const")
                n = len(s["exponents"])
                if how == "set_dimensions":
                    s["names"], s["exponents"] = ["q0", "q1"], [[i, i + 1] for i in range(n)]
                elif how == "derivative_other":
                    s["names"], s["exponents"] = ["q0", "q1"], [[i, 0] for i in range(n)]
                elif how == "call_zero":
                    s["names"], s["exponents"] = ["q0", "q1"], [[i, 1] for i in range(n)]
                elif how == "diff_equal":
                    for c in s["cols"]:
                        c["re"][1] = c["re"][0]
                        if c["im"]:
                            c["im"][1] = c["im"][0]
                elif how == "astype_to_zero":
                    s["cols"] = [{"re": nested(rng, tuple(s["shape"]), [0.5, 0.25, -0.5, 0.0]), "im": None} for _ in range(n)]
                yield {"how": how, "p": s}


@check("C12", "defined.cancel_and_filter", gen_cancel,
       functions=("numpoly.subtract", "numpoly.add", "numpoly.multiply", "numpoly.where", "numpoly.set_dimensions", "numpoly.derivative",
                  "numpoly.diff", "numpoly.ndpoly.__getitem__", "numpoly.ndpoly.astype", "numpoly.clean_attributes", "numpoly.call"),
       note="bounded: 14 dtypes x 12 ways of producing a result with no surviving term (p-p, p+(-p), p*0, 0*p, where(all False), "
            "diff of equal elements, astype turning fractions into 0, set_dimensions dropping every term, derivative of "
            "a constant / w.r.t. an unused indeterminate, evaluation at 0); result must be the fully written zero polynomial of numpy's "
            "shape (and numpy's dtype for the first eight)")
@quiet
def cancel_filter(inp):
    import numpoly
    s = inp["p"]
    np_side, poly_side, typed = CANCEL[inp["how"]]
    z = numpy.zeros(tuple(s["shape"]), dtype=s["dtype"])
    try:
        want = np_side(z)
    except TypeError:
        return None          # numpy itself rejects the operation for this dtype (bool - bool, -bool)
    r = poly_side(numpoly, tpoly(s), z)
    dtype = want.dtype if typed or not isinstance(r, numpoly.ndpoly) else r.dtype
    return judge(r, [((), numpy.zeros(want.shape, dtype=dtype))], dtype, want.shape)


# ------------------------------------------------------------------ size-0 arrays
EMPTY_SHAPES = [(0,), (0, 2), (2, 0), (1, 0, 2)]
EMPTY_SRC = ["array", "zeros", "ones", "full", "list", "getitem", "mask", "attrs"]


def make_empty(src, a, shape):
    import numpoly
    z = numpy.zeros(shape, dtype=a)
    if src == "array":
        return numpoly.polynomial(z)
    if src in ("zeros", "ones"):
        return getattr(numpoly, src)(shape, dtype=a)
    if src == "full":
        return numpoly.full(shape, numpy.ones((), dtype=a)[()], dtype=a)
    if src == "list":
        return numpoly.polynomial(z.tolist(), dtype=a)
    base = numpoly.polynomial_from_attributes([[0], [1]], [numpy.ones((3,) + shape[1:], dtype=a)] * 2, ("q0",))
    if src == "getitem":
        return base[3:]
    if src == "mask":
        return base[numpy.zeros(3, dtype=bool)]
    return numpoly.polynomial_from_attributes([[0], [2]], [z, z], ("q0",), retain_coefficients=True)


def gen_empty_construct(tier, rng):
    for a in DTYPES:
        for src in EMPTY_SRC:
            for shape in EMPTY_SHAPES:
                if src in ("getitem", "mask") and shape[0] != 0:
                    continue
                yield {"dtype": a, "src": src, "shape": list(shape)}
    yield {"dtype": "int64", "src": "bare_list", "shape": [0]}


@check("C12", "empty.construct", gen_empty_construct,
       functions=("numpoly.polynomial", "numpoly.zeros", "numpoly.ones", "numpoly.full", "numpoly.ndpoly.__getitem__",
                  "numpoly.polynomial_from_attributes", "numpoly.ndpoly.coefficients"),
       note="exhaustive: 14 dtypes x 8 ways of obtaining a size-0 polynomial array x 4 shapes (0,), (0,2), (2,0), (1,0,2), plus "
            "numpoly.polynomial([]) (shape only); numpy's shape and dtype, well-formed (one coefficient array per exponent row)")
@quiet
def empty_construct(inp):
    import numpoly
    shape = tuple(inp["shape"])
    if inp["src"] == "bare_list":
        r = numpoly.polynomial([])
        return judge(r, [], r.dtype if isinstance(r, numpoly.ndpoly) else "int64", numpy.array([]).shape)
    if inp["src"] == "list":
        shape = numpy.array(numpy.zeros(shape).tolist()).shape     # nested empty lists keep only the leading extents
    return judge(make_empty(inp["src"], inp["dtype"], tuple(inp["shape"])), [], inp["dtype"], shape)


EMPTY_OPS = {
    "add_scalar": lambda n, e, o: e + numpy.ones((), dtype=e.dtype)[()], "add_python_int": lambda n, e, o: e + 1,
    "add_poly": lambda n, e, o: e + o, "radd_poly": lambda n, e, o: o + e, "mul_poly": lambda n, e, o: e * o, "sub_self": lambda n, e, o: e - e,
    "mul_self": lambda n, e, o: e * e, "square": lambda n, e, o: e ** 2, "astype": lambda n, e, o: e.astype("float32"),
    "slice": lambda n, e, o: e[:0], "reshape": lambda n, e, o: n.reshape(e, e.shape[::-1]), "T": lambda n, e, o: e.T,
    "concatenate": lambda n, e, o: n.concatenate([e, e]), "sum": lambda n, e, o: n.sum(e), "sum_axis0": lambda n, e, o: n.sum(e, axis=0),
    "sum_last": lambda n, e, o: n.sum(e, axis=-1), "where": lambda n, e, o: n.where(n.zeros(e.shape, dtype=bool), e, e), "copy": lambda n, e, o: e.copy(),
    "expand_dims": lambda n, e, o: n.expand_dims(e, 0), "multiply_fn": lambda n, e, o: n.multiply(e, o), "add_fn": lambda n, e, o: n.add(e, o),
}


def gen_empty_ops(tier, rng):
    dts = DTYPES if tier == "thorough" else ["bool", "int8", "int64", "uint64", "float16", "float64", "complex64"]
    for a in dts:
        for op in EMPTY_OPS:
            for shape in EMPTY_SHAPES[:count(tier, 2, 4)]:
                yield {"dtype": a, "op": op, "shape": list(shape), "src": rng.choice(["array", "zeros", "mask"]) if shape[0] == 0 else "array"}


@check("C12", "empty.operations", gen_empty_ops,
       functions=("numpoly.add", "numpoly.subtract", "numpoly.multiply", "numpoly.power", "numpoly.ndpoly.astype", "numpoly.reshape",
                  "numpoly.transpose", "numpoly.concatenate", "numpoly.sum", "numpoly.where", "numpoly.expand_dims", "numpoly.align_shape",
                  "numpoly.ndpoly.coefficients"),
       note="bounded: 21 operations on size-0 arrays of 7 dtypes (14 thorough) and 2 (4) shapes; the other operand is the int64 "
            "indeterminate q0 (numpy side: an int64 0-d array); numpy's shape and dtype (dtype not required for `+ 1` with a Python int), "
            "well-formed, every coefficient written, value 0 where numpy returns elements (sum)")
@quiet
def empty_ops(inp):
    import numpoly
    a, shape, f = inp["dtype"], tuple(inp["shape"]), EMPTY_OPS[inp["op"]]
    try:
        want = f(numpy, numpy.zeros(shape, dtype=a), numpy.ones((), dtype="int64"))
    except TypeError:
        return None
    r = f(numpoly, make_empty(inp["src"], a, shape), numpoly.variable())
    dtype = r.dtype if inp["op"] == "add_python_int" and isinstance(r, numpoly.ndpoly) else want.dtype
    return judge(r, [((), numpy.zeros(numpy.shape(want), dtype=dtype))], dtype, numpy.shape(want))
