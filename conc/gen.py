"""Bounded input spaces for the run-time contract checks (seeded; JSON-serialisable specs)."""
from __future__ import annotations
import itertools

SHAPES = [(), (1,), (2,), (3,), (1, 2), (2, 1), (2, 2), (2, 1, 2)]
SMALL_SHAPES = [(), (1,), (2,), (2, 2)]
INT_COEFFS = [-2, -1, 0, 1, 2, 3]
FLOAT_COEFFS = [-1.5, -1.0, 0.0, 0.5, 1.0, 2.0]


def _special_exponents(limit=2100, offset=59):
    """exponents whose storage-key character chr(e + KEY_OFFSET) is 'special' to str methods / numpy string handling, by group:
    digits and other numerics, white space, control and unprintable characters, combining marks, quotes and separators"""
    import unicodedata
    groups = {"digit": [], "numeric": [], "space": [], "unprintable": [], "combining": [], "punctuation": []}
    for e in range(limit):
        c = chr(e + offset)
        if c.isdigit():
            groups["digit"].append(e)
        elif c.isnumeric():
            groups["numeric"].append(e)
        elif c.isspace():
            groups["space"].append(e)
        elif not c.isprintable():
            groups["unprintable"].append(e)
        elif unicodedata.combining(c):
            groups["combining"].append(e)
        elif c in "\\'\"`,;:[](){}%":
            groups["punctuation"].append(e)
    return groups


SPECIAL_GROUPS = _special_exponents()
SPECIAL_EXPONENTS = sorted(e for g in SPECIAL_GROUPS.values() for e in g)


def special_exponents(rng, k=2):
    """k exponents from one group (so that a whole key can consist of characters of one kind), smallest members favoured"""
    g = SPECIAL_GROUPS[rng.choice(sorted(SPECIAL_GROUPS))]
    head = g[:6]
    return [rng.choice(head if rng.random() < 0.7 else g) for _ in range(k)]


def nested(rng, shape, pool):
    if not shape:
        return rng.choice(pool)
    return [nested(rng, shape[1:], pool) for _ in range(shape[0])]


def rand_poly(rng, shape=None, names=None, maxterms=3, maxexp=3, dtype="int64", pool=None, shapes=SHAPES,
              names_pool=("q0", "q1", "q2", "q10"), force_const_row=False, exps=None):
    if shape is None:
        shape = rng.choice(shapes)
    if names is None:
        k = min(rng.choice([1, 1, 2, 2, 3]), len(names_pool))
        names = sorted(rng.sample(list(names_pool), k), key=lambda s: int(s[1:]))
    D = len(names)
    n = rng.randint(1, maxterms)
    if exps is not None:
        n = min(n, len(set(exps)) ** D)
    rows = set()
    while len(rows) < n:
        rows.add(tuple(rng.choice(exps if exps is not None else [0, 0, 1, 1, 2, maxexp]) for _ in range(D)))
    rows = sorted(rows)
    if force_const_row and tuple([0] * D) not in rows:
        rows = [tuple([0] * D)] + rows
    if rng.random() < 0.35:
        rng.shuffle(rows)          # storage order of the terms is arbitrary: constructors keep the given order
    if pool is None:
        pool = FLOAT_COEFFS if dtype.startswith("float") else INT_COEFFS
    coeffs = [nested(rng, tuple(shape), pool) for _ in rows]
    return {"names": list(names), "exponents": [list(r) for r in rows], "coefficients": coeffs, "dtype": dtype}


def permute_names(rng, spec):
    """The same polynomial with its indeterminates listed in another order (names and exponent columns permuted together):
    name tuples need not be sorted - ('q1', 'q0') is a legal, if unusual, tuple."""
    D = len(spec["names"])
    if D < 2:
        return spec
    order = list(range(D))
    while order == list(range(D)):
        rng.shuffle(order)
    out = dict(spec)
    out["names"] = [spec["names"][d] for d in order]
    out["exponents"] = [[row[d] for d in order] for row in spec["exponents"]]
    return out


def rand_operand(rng, shape=None, allow_plain=True, **kw):
    r = rng.random()
    if allow_plain and r < 0.12:
        return {"num": rng.choice([-2, -1, 0, 1, 2, 3, 0.5])}
    if allow_plain and r < 0.2:
        shp = shape if shape is not None else rng.choice([(2,), (1,), (2, 2)])
        return {"array": nested(rng, tuple(shp), INT_COEFFS), "dtype": "int64"}
    if allow_plain and r < 0.25:
        shp = shape if shape is not None else rng.choice([(2,), (1,)])
        return {"list": nested(rng, tuple(shp), INT_COEFFS)}
    dt = "float64" if rng.random() < 0.25 else "int64"
    return {"poly": rand_poly(rng, shape=shape, dtype=dt, **kw)}


def broadcastable_pair(rng):
    """Two shapes that broadcast."""
    pairs = [((), ()), ((2,), ()), ((), (2,)), ((2,), (2,)), ((1,), (3,)), ((2, 1), (1, 2)), ((2, 2), (2,)),
             ((2,), (2, 2)), ((1, 2), (2, 1)), ((2, 1, 2), (2,)), ((3,), (1,)), ((2, 2), (2, 2)), ((2, 2), ())]
    return rng.choice(pairs)


def count(tier, quick, thorough):
    return thorough if tier == "thorough" else quick
