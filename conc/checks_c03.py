"""C03 run-time contracts: well-formedness of results across the public API, regeneration from
attributes / raw view / todict, and the exact pruning rule of from_attributes / clean_attributes."""
from __future__ import annotations
import numpy
from .common import check
from .gen import rand_poly, rand_operand, count, nested
from .model import operand, operand_model, from_ndpoly, from_raw, same, spec_model, MPoly, describe
from .wf import wf, denotes, snapshot, unchanged, install_poison


def gen_regen(tier, rng):
    from .gen import special_exponents
    for k in range(count(tier, 160, 1600)):
        exps = None
        if k % 4 == 0:
            # storage keys made of characters that str methods / numpy string handling treat specially (digits, white space,
            # control characters, combining marks ...): the key of a term is chr(exponent + KEY_OFFSET) per indeterminate
            exps = special_exponents(rng) + ([0] if rng.random() < 0.5 else [])
        yield {"p": rand_poly(rng, dtype=rng.choice(["int64", "float64"]), exps=exps), "retain": rng.random() < 0.5}
    # every coefficient dtype, also for 0-d polynomials (the regenerated object must have the dtype it was made with)
    for dt in ("int8", "uint8", "int16", "int32", "uint32", "uint64", "float16", "float32", "bool"):
        for _ in range(count(tier, 3, 20)):
            shape = rng.choice([(), (), (2,), (2, 2)])
            pool = [True, False, True] if dt == "bool" else [0, 1, 2, 3, 7] if dt.startswith("u") else [-2, -1, 1, 2, 3] if dt.startswith("i") else [-1.5, 0.5, 1.0, 2.0]
            yield {"p": rand_poly(rng, shape=shape, dtype=dt, pool=pool), "retain": rng.random() < 0.5}


@check("C03", "regenerate.from_attributes_raw_todict", gen_regen,
       functions=("numpoly.polynomial_from_attributes", "numpoly.polynomial", "numpoly.ndpoly"),
       note="bounded: polynomials with <=3 terms (incl. all-zero terms when retained), <=3 indeterminates, 8 shapes; a quarter "
            "with exponents whose key characters are digits / white space / control / combining characters; plus int8..uint64, float16/32 "
            "and bool coefficients on 0-d and small arrays (shape and dtype of every regenerated object equal the original's)")
def regenerate(inp):
    import numpoly
    install_poison()
    spec = dict(inp["p"], retain=inp["retain"])
    p = operand({"poly": spec})
    want = spec_model(inp["p"])
    r = wf(p, "constructed") or denotes(p, want, "constructed")
    if r:
        return r
    a = numpoly.polynomial_from_attributes(p.exponents, p.coefficients, p.names)
    b = numpoly.polynomial(p.values, names=p.names)
    c = numpoly.polynomial(p.todict(), names=p.names)
    d = numpoly.aspolynomial(p.values, names=p.names)
    for label, q in (("from (exponents, coefficients, names)", a), ("from raw structured view", b), ("from todict()", c),
                     ("aspolynomial(raw view)", d)):
        r = wf(q, label) or denotes(q, want, label)
        if r:
            return r
        if q.shape != p.shape or q.dtype != p.dtype:
            return f"{label}: shape/dtype {q.shape}/{q.dtype} vs {p.shape}/{p.dtype}"
        if not bool(numpy.all(q == p)):
            return f"{label}: not equal to the original under =="
    td = p.todict()
    if sorted(td) != sorted(tuple(int(x) for x in e) for e in p.exponents.tolist()):
        return f"todict keys {sorted(td)} vs exponents {p.exponents.tolist()}"
    return None


def gen_clean(tier, rng):
    for _ in range(count(tier, 150, 1500)):
        p = rand_poly(rng, pool=[0, 0, 0, 1, -1, 2], maxterms=4)
        yield {"p": p, "rc": rng.choice([None, True, False]), "rn": rng.choice([None, True, False]),
               "opt_rc": rng.random() < 0.5, "opt_rn": rng.random() < 0.5, "via": rng.choice(["from_attributes", "clean"])}


@check("C03", "clean.exact_pruning_rule", gen_clean,
       functions=("numpoly.polynomial_from_attributes", "numpoly.clean_attributes", "numpoly.postprocess_attributes",
                  "numpoly.remove_redundant_coefficients", "numpoly.remove_redundant_names"),
       note="bounded: <=4 terms with many zero coefficients; retain flags given as argument or taken from the options")
def clean_rule(inp):
    import numpoly
    install_poison()
    spec = inp["p"]
    want = spec_model(spec)
    E = numpy.array(spec["exponents"], dtype=int)
    C = [numpy.array(c, dtype=spec["dtype"]) for c in spec["coefficients"]]
    names = tuple(spec["names"])
    with numpoly.global_options(retain_coefficients=inp["opt_rc"], retain_names=inp["opt_rn"]):
        if inp["via"] == "from_attributes":
            r = numpoly.polynomial_from_attributes(E, C, names, retain_coefficients=inp["rc"], retain_names=inp["rn"])
        else:
            base = numpoly.polynomial_from_attributes(E, C, names, retain_coefficients=True, retain_names=True)
            r = numpoly.clean_attributes(base, retain_coefficients=inp["rc"], retain_names=inp["rn"])
        res = wf(r) or denotes(r, want)
    if res:
        return res
    rc = inp["opt_rc"] if inp["rc"] is None else inp["rc"]
    rn = inp["opt_rn"] if inp["rn"] is None else inp["rn"]
    rows = [tuple(e) for e in E.tolist()]
    if rc:
        keep = list(range(len(rows)))
    else:
        keep = [t for t in range(len(rows)) if numpy.any(C[t]) or not any(rows[t])]
    if keep:
        kept_rows = [rows[t] for t in keep]
    else:
        kept_rows = [tuple([0] * len(names))]
    if rn:
        cols = list(range(len(names)))
    else:
        cols = [d for d in range(len(names)) if any(r_[d] for r_ in kept_rows)] or [0]
    exp_rows = [tuple(r_[d] for d in cols) for r_ in kept_rows]
    exp_names = tuple(names[d] for d in cols)
    got_rows = [tuple(int(x) for x in e) for e in r.exponents.tolist()]
    if sorted(got_rows) != sorted(exp_rows):
        return f"terms kept {sorted(got_rows)}, pruning rule (retain_coefficients={rc}) gives {sorted(exp_rows)}"
    if tuple(r.names) != exp_names:
        return f"names {r.names}, pruning rule (retain_names={rn}) gives {exp_names}"
    return None


def gen_reject(tier, rng):
    for _ in range(count(tier, 60, 400)):
        p = rand_poly(rng, maxterms=3)
        yield {"p": p, "kind": rng.choice(["dup_rows", "dup_names", "name_count", "len_mismatch", "ok"]),
               "retain": rng.choice([[True, True], [True, True], [False, False], [True, False], [False, True], [None, None]]),
               "global": [rng.random() < 0.5, rng.random() < 0.5]}
    # a duplicated name on a column that no term uses (such a column is dropped unless names are retained): still ill-formed
    for _ in range(count(tier, 30, 200)):
        p = rand_poly(rng, maxterms=3, names=["q0", "q1", "q2"][: rng.choice([2, 3])])
        k = rng.randrange(len(p["names"]))
        p["exponents"] = [[0 if i == k else e for i, e in enumerate(row)] for row in p["exponents"]]
        rows = sorted({tuple(r) for r in p["exponents"]})
        p["exponents"], p["coefficients"] = [list(r) for r in rows], p["coefficients"][: len(rows)]
        yield {"p": p, "kind": "dup_names_unused", "unused": k, "retain": rng.choice([[False, False], [True, False], [None, None]]),
               "global": [rng.random() < 0.5, False]}
    # a repeated exponent row whose coefficient is zero everywhere (such a term is dropped unless coefficients are retained): still
    # a duplicate, whichever of the two rows comes first and whatever the retain setting
    for _ in range(count(tier, 30, 200)):
        p = rand_poly(rng, maxterms=3)
        yield {"p": p, "kind": "dup_rows_zero", "row": rng.randrange(len(p["exponents"])), "first": rng.random() < 0.5,
               "retain": rng.choice([[False, False], [False, True], [None, None], [True, True]]),
               "global": [False if rng.random() < 0.7 else True, rng.random() < 0.5]}


@check("C03", "construct.rejects_duplicates", gen_reject, functions=("numpoly.postprocess_attributes", "numpoly.polynomial_from_attributes"),
       note="bounded: duplicate exponent rows / duplicate names / wrong name count / length mismatch must raise "
            "PolynomialConstructionError; valid attributes must not; under every retain_* setting given as argument or as global "
            "option, also when the duplicated name sits on a column no term uses and when the repeated exponent row has an all-zero "
            "coefficient (first or last in the list)")
def rejects(inp):
    import numpoly
    from numpoly.construct.clean import PolynomialConstructionError
    spec = inp["p"]
    E = [list(e) for e in spec["exponents"]]
    C = [numpy.array(c, dtype=spec["dtype"]) for c in spec["coefficients"]]
    names = list(spec["names"])
    kind = inp["kind"]
    if kind == "dup_rows":
        E.append(list(E[0]))
        C.append(C[0] + 1)
    elif kind == "dup_rows_zero":
        k = inp["row"]
        E.insert(0 if inp["first"] else len(E), list(E[k]))
        C.insert(0 if inp["first"] else len(C), C[k] * 0)
    elif kind == "dup_names":
        if len(names) < 2:
            return None
        names[1] = names[0]
    elif kind == "dup_names_unused":
        k = inp["unused"]
        names[k] = names[(k + 1) % len(names)]
    elif kind == "name_count":
        names = names + ["q9"]
    elif kind == "len_mismatch":
        C = C + [C[0]]
    rc, rn = inp.get("retain", [True, True])
    gc, gn = inp.get("global", [False, True])
    try:
        with numpoly.global_options(retain_coefficients=gc, retain_names=gn):
            r = numpoly.polynomial_from_attributes(numpy.array(E, dtype=int).reshape(len(E), -1), C, tuple(names),
                                                   retain_coefficients=rc, retain_names=rn)
    except PolynomialConstructionError:
        return None if kind != "ok" else "valid attributes rejected"
    except Exception as e:
        return f"raised {type(e).__name__} instead of PolynomialConstructionError: {e}"
    if kind != "ok":
        return f"{kind}: accepted, result {r!r}"
    return wf(r)


OPS = ["add", "mul", "sub", "neg", "getitem", "sum", "concatenate", "derivative", "call_partial", "where", "astype", "copy", "T"]


def gen_api(tier, rng):
    for _ in range(count(tier, 150, 1500)):
        yield {"a": {"poly": rand_poly(rng, shape=rng.choice([(2,), (2, 2), (3,)]), pool=[-1, 0, 0, 1, 2])},
               "b": {"poly": rand_poly(rng, shape=(2,), pool=[-1, 0, 1])}, "op": rng.choice(OPS),
               "opt_rc": rng.random() < 0.3, "opt_rn": rng.random() < 0.7}


@check("C03", "api_results.wellformed", gen_api, functions=("numpoly.polynomial_from_attributes", "numpoly.ndpoly"),
       note="bounded: results of 13 representative public operations satisfy WF (distinct rows, one coefficient array per row "
            "with the array's shape/dtype, names match width, raw field names decode to the exponents, nothing unwritten)")
def api_wf(inp):
    import numpoly
    install_poison()
    with numpoly.global_options(retain_coefficients=inp["opt_rc"], retain_names=inp["opt_rn"]):
        a, b = operand(inp["a"]), operand(inp["b"])
        op = inp["op"]
        if a.shape[-1:] != b.shape[-1:] and op in ("add", "mul", "sub", "where", "concatenate"):
            b = b[:1] if op != "concatenate" else b
        if op == "add":
            r = a + b
        elif op == "mul":
            r = a * b
        elif op == "sub":
            r = a - a
        elif op == "neg":
            r = -a
        elif op == "getitem":
            r = a[0]
        elif op == "sum":
            r = numpoly.sum(a, axis=0)
        elif op == "concatenate":
            r = numpoly.concatenate([a.ravel(), b.ravel()])
        elif op == "derivative":
            r = numpoly.derivative(a, a.names[0])
        elif op == "call_partial":
            r = a(**{a.names[0]: b[0]})
            if not isinstance(r, numpoly.ndpoly):
                return None
        elif op == "where":
            r = numpoly.where(numpy.ones(a.shape, dtype=bool), a, b)
        elif op == "astype":
            r = a.astype("float64")
        elif op == "copy":
            r = a.copy()
        else:
            r = a.T
        return wf(r, f"result of {op}")
