"""C11 run-time contracts: on constant polynomials every mirrored function returns what the numpy function
returns on the underlying numeric arrays (values, shape and -- for boolean/index results -- the type); the
numeric division functions refuse a non-constant polynomial divisor with FeatureNotSupported.
Oracle: the numpy function applied to plain `numpy.array(...)` of the same values and dtype.

Input form (JSON):  {"fn": name, "args": [A..], "kwargs": {..}}  with
    A = {"array": nested, "dtype": str, "poly": bool[, "shape": [..]]} | {"value": v} | {"tuple": [..]} | {"seq": [A..]} | {"poly": spec}
Every input is run through both spellings, numpoly.<fn> and numpy.<fn> (when <fn> is mirrored; matmul also through the
@ operator; the constructors zeros/ones/full, which numpy dispatches on `like=` only, through numpoly.<fn> alone).
Inputs with a size-0 operand or size-0 numpy result occur in the `size0` check only; `repeat` without an axis argument
only in `repeat.default_axis`; `matmul` with a 1-d operand only in `matmul.vector_operand`."""
from __future__ import annotations
import itertools
import warnings
import numpy
from .common import check
from .gen import nested, rand_poly, count
from .model import build, spec_model

INTS = [-3, -2, -1, 0, 0, 1, 2, 2, 3, 5]
FLOATS = [-2.5, -1.5, -0.5, 0.0, 0.0, 0.5, 1.5, 1.5, 2.0, 2.5]
BOOLS = [True, False]
POOL = {"int64": INTS, "float64": FLOATS, "bool": BOOLS}
SHAPES = [(), (1,), (3,), (4,), (1, 1), (2, 3), (3, 1), (2, 2, 2), (2, 1, 3), (2, 3, 2)]
SIZE0 = [(0,), (0, 3), (2, 0), (2, 0, 2)]
PAIRS = [((), ()), ((3,), ()), ((), (3,)), ((3,), (3,)), ((1,), (3,)), ((2, 1), (1, 3)), ((2, 3), (3,)), ((3,), (2, 3)),
         ((2, 3), (2, 3)), ((2, 1, 3), (3,)), ((2, 2, 2), (2, 1, 2)), ((2, 3), ())]
INDEX_FNS = {"argmax", "argmin", "nonzero", "count_nonzero"}


def A(rng, shape, dtype="int64", poly=True, pool=None):
    return {"array": nested(rng, tuple(shape), pool or POOL[dtype]), "dtype": dtype, "poly": poly}


def V(v):
    return {"tuple": list(v)} if isinstance(v, tuple) else {"value": v}


def axes_of(shape, tuples=True):
    nd = len(shape)
    out = [None] + list(range(-nd, nd))
    if tuples:      # (), and every 2-/3-subset of the axes in every mix of non-negative and negative spelling, e.g. (0, -2), (-3, 1)
        out += [()] + [tuple(a - nd * m for a, m in zip(c, neg)) for k in (2, 3) for c in itertools.combinations(range(nd), k)
                       for neg in itertools.product((0, 1), repeat=k)]
    return out


def resolve(mod, name):
    """numpy: dotted path ('linalg.det' -> numpy.linalg.det); numpoly: the last component (numpoly.det)."""
    obj = mod
    for part in (name.split(".") if mod is numpy else name.split(".")[-1:]):
        obj = getattr(obj, part, None)
    return obj


def mirrored(name):
    import numpoly
    f = resolve(numpy, name)
    return f is not None and resolve(numpoly, name) is not None and (f in numpoly.FUNCTION_COLLECTION or f in numpoly.UFUNC_COLLECTION)


def thin(tier, rng, items, quick_fraction):
    """thorough: everything; quick: a seeded sample."""
    for it in items:
        if tier == "thorough" or rng.random() < quick_fraction:
            yield it


# ------------------------------------------------------------------ running one input
def _leaves(x):
    if isinstance(x, (tuple, list)):
        for v in x:
            yield from _leaves(v)
    else:
        yield numpy.asarray(x)


def _operands(a):
    if "array" in a:
        x = numpy.array(a["array"], dtype=a["dtype"])
        yield x.reshape(a["shape"]) if "shape" in a else x
    for x in a.get("seq", ()):
        yield from _operands(x)


def classify(inp):
    """'reject': numpy itself refuses the arguments (input dropped); 'empty': an operand, or numpy's result (or one of its
    parts), is a size-0 array -- such inputs belong to the size0 check and to no other; 'ok' otherwise."""
    try:
        with warnings.catch_warnings(), numpy.errstate(all="ignore"):
            warnings.simplefilter("ignore")
            want = resolve(numpy, inp["fn"])(*[_arg(a, False) for a in inp["args"]], **_kw(inp.get("kwargs", {})))
    except Exception:
        return "reject"
    if any(x.size == 0 for a in inp["args"] for x in _operands(a)):
        return "empty"
    if isinstance(want, (numpy.dtype, type)):
        return "ok"
    return "empty" if any(v.size == 0 for v in _leaves(want)) else "ok"


def _arg(a, as_poly):
    import numpoly
    if "array" in a:
        x = numpy.array(a["array"], dtype=a["dtype"])
        if "shape" in a:                # size-0 shapes cannot be read off nested lists
            x = x.reshape(a["shape"])
        return numpoly.polynomial(x) if (as_poly and a.get("poly", True)) else x
    if "poly" in a:
        return build(a["poly"])
    if "seq" in a:
        return [_arg(x, as_poly) for x in a["seq"]]
    if "tuple" in a:
        return tuple(a["tuple"])
    return a["value"]


def _kw(kwargs):
    return {k: (tuple(v) if isinstance(v, list) else v) for k, v in kwargs.items()}


CONSTRUCTORS = {"zeros", "ones", "full"}     # numpy dispatches these on `like=` only: numpoly spelling only
ATOL = {"linalg.det": 1e-9}      # numpy's LU determinant of an exactly singular matrix is only approximately 0


def _compare(got, want, fn, where="result"):
    import numpoly
    if isinstance(want, (numpy.dtype, type)):           # result_type / common_type
        try:
            return None if numpy.dtype(got) == numpy.dtype(want) else f"{where}: {got!r}, numpy gives {want!r}"
        except TypeError:
            return f"{where}: {got!r:.100} is not a data type, numpy gives {want!r}"
    if isinstance(want, (tuple, list)):
        if not isinstance(got, (tuple, list)) or len(got) != len(want):
            return f"{where}: expected a sequence of {len(want)} results, got {type(got).__name__} {got!r:.120}"
        for i, (g, w) in enumerate(zip(got, want)):
            r = _compare(g, w, fn, f"{where}[{i}]")
            if r:
                return r
        return None
    if isinstance(got, numpoly.ndpoly):
        try:
            got = got.tonumpy()
        except Exception as e:
            return f"{where}: tonumpy() of the returned polynomial failed: {type(e).__name__}: {e}"
    if isinstance(got, (tuple, list)):
        return f"{where}: expected an array, got {type(got).__name__} {got!r:.120}"
    got, want = numpy.asarray(got), numpy.asarray(want)
    if got.shape != want.shape:
        return f"{where}: shape {got.shape}, numpy gives {want.shape} (got {got.tolist()!r:.100}, numpy {want.tolist()!r:.100})"
    strict = want.dtype.kind == "b" or fn in INDEX_FNS
    if strict and got.dtype.kind != want.dtype.kind and not (got.dtype.kind in "iu" and want.dtype.kind in "iu"):
        return f"{where}: dtype {got.dtype}, numpy gives {want.dtype}"
    if got.dtype.kind not in "biufc":
        return f"{where}: non-numeric dtype {got.dtype}"
    if want.dtype.kind in "biu":
        ok = numpy.array_equal(got, want)
    else:
        ok = numpy.allclose(got, want, rtol=1e-12, atol=ATOL.get(fn, 0), equal_nan=True)
    return None if ok else f"{where}: values {got.tolist()!r:.150}, numpy gives {want.tolist()!r:.150}"


def _has_poly(a):
    return ("array" in a and a.get("poly", True)) or any(_has_poly(x) for x in a.get("seq", ()))


def run_both(inp):
    import numpoly
    import operator
    fn, kw = inp["fn"], _kw(inp.get("kwargs", {}))
    with warnings.catch_warnings(), numpy.errstate(all="ignore"):
        warnings.simplefilter("ignore")
        try:
            want = resolve(numpy, fn)(*[_arg(a, False) for a in inp["args"]], **kw)
        except Exception:
            return None         # numpy itself rejects these arguments: outside the property
        spellings = [("numpoly." + fn.split(".")[-1], resolve(numpoly, fn))]
        if mirrored(fn) and fn not in CONSTRUCTORS and any(_has_poly(a) for a in inp["args"]):   # numpy dispatches on polynomial arguments
            spellings.append(("numpy." + fn, resolve(numpy, fn)))
            if fn == "matmul":
                spellings.append(("operator @", operator.matmul))
        for via, f in spellings:
            if f is None:
                continue
            try:
                got = f(*[_arg(a, True) for a in inp["args"]], **kw)
            except Exception as e:
                return f"{via}: raised {type(e).__name__}: {str(e)[:200]}; numpy gives {want!r:.120}"
            r = _compare(got, want, fn, via)
            if r:
                return r
    return None


def family(prop_name, gen, functions, note, keep="ok"):
    """Registers run_both on the inputs of `gen` that are mirrored and of class `keep` (see classify): size-0 operands or
    results occur in the size0 check only, inputs numpy rejects nowhere."""
    def kept(tier, rng):
        return (i for i in gen(tier, rng) if mirrored(i["fn"]) and classify(i) == keep)
    return check("C11", prop_name, kept, functions=tuple("numpoly." + f for f in functions), note=note)(run_both)


# ------------------------------------------------------------------ reductions
def _reduce_inputs(fns, shapes, rng, keepdims=True, tuples=True, dtypes=("int64", "float64")):
    for fn in fns:
        if not mirrored(fn):
            continue
        for shape in shapes:
            for axis in axes_of(shape, tuples and fn != "cumsum"):
                for kd in ((None, False, True) if keepdims and fn != "cumsum" else (None,)):
                    kw = {} if axis is None and rng.random() < 0.5 else {"axis": list(axis) if isinstance(axis, tuple) else axis}
                    if kd is not None:
                        kw["keepdims"] = kd
                    dt = rng.choice(dtypes if fn not in ("any", "all") else ("int64", "float64", "bool"))
                    yield {"fn": fn, "args": [A(rng, shape, dt)], "kwargs": kw}


MIXED_AXES = [(0, -2), (0, -1), (1, -1), (-3, 1), (-2, 2), (-1, -2), (-3, -1), (-3, -2), (-3, -2, -1), (0, -2, 2), (-3, 1, -1)]
CLOSE = {"int64": [1000000, 1000001, 1000002, 1000000, 1000002, 250000, 250001, 250002, 250001, 1000003],
         "float64": [2.0, 2.0 + 1e-9, 2.0 - 1e-9, 2.0, 2.0 + 1e-6, 2.0 - 1e-6, 2.0 + 1e-9, 2000000.0, 2000000.002, 2000000.0]}


def _mixed_axis_inputs(fns, rng):
    """always generated (not thinned): axis tuples mixing negative and non-negative entries, and all-negative ones, on 3-d arrays"""
    for fn in fns:
        for axis in MIXED_AXES:
            for kd in (None, False, True):
                kw = dict({"axis": list(axis)}, **({} if kd is None else {"keepdims": kd}))
                yield {"fn": fn, "args": [A(rng, rng.choice([(2, 3, 2), (2, 2, 2), (2, 1, 3)]), rng.choice(["int64", "float64"]))], "kwargs": kw}


def _close_inputs(fns, rng, tier, keepdims):
    """distinct but numerically close values (large ints differing by 1..3, floats differing by 1e-9..1e-6 relative) mixed with ties"""
    for _ in range(count(tier, 1, 6)):
        for fn in fns:
            for shape in [(3,), (4,), (6,), (2, 3), (3, 3), (4, 2)]:
                for axis in [None] + list(range(-len(shape), len(shape))):
                    dt = rng.choice(["int64", "float64"])
                    pool = [v for v in CLOSE[dt] if (v > 1e5) == (rng.random() < 0.5)] if rng.random() < 0.5 else CLOSE[dt]
                    kw = dict({} if axis is None else {"axis": axis}, **({"keepdims": True} if keepdims and rng.random() < 0.3 else {}))
                    yield {"fn": fn, "args": [A(rng, shape, dt, pool=pool or CLOSE[dt])], "kwargs": kw}


def gen_reduce(tier, rng):
    yield from _mixed_axis_inputs(["sum", "prod", "mean", "any", "all"], rng)
    yield from thin(tier, rng, _reduce_inputs(["sum", "prod", "mean", "cumsum", "any", "all"], SHAPES, rng), 0.3)


def gen_extreme(tier, rng):
    yield from _mixed_axis_inputs(["amax", "amin"], rng)
    yield from _close_inputs(["amax", "amin", "max", "min"], rng, tier, keepdims=True)
    yield from thin(tier, rng, _reduce_inputs(["amax", "amin", "max", "min"], SHAPES, rng), 0.3)


def gen_arg(tier, rng):
    yield from _close_inputs(["argmax", "argmin"], rng, tier, keepdims=False)
    for _ in range(count(tier, 2, 20)):
        yield from _reduce_inputs(["argmax", "argmin"], SHAPES, rng, keepdims=False, tuples=False)
    for fn in ("argmax", "argmin"):     # explicit ties
        for vals in ([3, 1, 3, 0], [0, 1, 0, 1], [2, 2, 2], [[1, 5], [5, 1]], [1.5, -0.5, 1.5, -0.5],
                     [4, 4], [[7, 7]], [[0], [0]], [[[2, 2]]], [5], [[1, 1], [1, 1]]):      # arrays of exactly two (equal) elements, size 1, all equal
            yield {"fn": fn, "args": [{"array": vals, "dtype": "float64" if isinstance(vals[0], float) else "int64", "poly": True}],
                   "kwargs": {}}
            nd = numpy.ndim(vals)
            for ax in range(-nd, nd):
                yield {"fn": fn, "args": [{"array": vals, "dtype": "float64" if isinstance(vals[0], float) else "int64", "poly": True}],
                       "kwargs": {"axis": ax}}


def gen_count(tier, rng):
    yield from thin(tier, rng, _reduce_inputs(["count_nonzero"], SHAPES, rng), 0.5)
    for shape in SHAPES[1:]:
        for _ in range(count(tier, 2, 10)):
            yield {"fn": "nonzero", "args": [A(rng, shape, rng.choice(["int64", "float64", "bool"]))], "kwargs": {}}


BOUNDS = ("bounded: arrays of 0-3 dimensions with extents <=4, values from 8 ints / 8 halves with repeats and zeros, "
          "int64/float64 (bool where meaningful); ")
family("reductions.axis_keepdims", gen_reduce, ["sum", "prod", "mean", "cumsum", "any", "all"],
       BOUNDS + "axis None/every int incl. negative/()/every 2- and 3-subset in every mix of negative and non-negative entries (e.g. "
       "(0,-2), (-3,1), (-3,-2,-1)), keepdims absent/False/True; 11 mixed/all-negative tuples on 3-d arrays always; thorough = exhaustive grid")
family("amax_amin.axis_keepdims", gen_extreme, ["amax", "amin", "max", "min"], BOUNDS + "same axis/keepdims grid as the reductions; plus "
       "close values (ints 1000000..1000003 and 250000..250002, floats 2+-1e-9, 2+-1e-6, 2e6 vs 2e6+0.002) with ties, 1-d/2-d, every axis")
family("argmax_argmin.first_occurrence", gen_arg, ["argmax", "argmin"],
       BOUNDS + "axis None and every int axis, ties frequent by construction; result must be numpy's (first occurrence) index; plus "
       "close values (ints 1000000..1000003 and 250000..250002, floats 2+-1e-9, 2+-1e-6, 2e6 vs 2e6+0.002) with ties, 1-d/2-d, every axis")
family("count_nonzero_nonzero", gen_count, ["count_nonzero", "nonzero"], BOUNDS + "count_nonzero on the reduction grid, nonzero on 1-3-d arrays")


# ------------------------------------------------------------------ element-wise binary families
def _binary(fns, rng, tier, dts=("int64", "float64"), second=None, n=(1, 12)):
    for fn in fns:
        if not mirrored(fn):
            continue
        for s1, s2 in PAIRS:
            for _ in range(count(tier, *n)):
                d1, d2 = rng.choice(dts), rng.choice(dts)
                b = A(rng, s2, d2, poly=rng.random() < 0.6, pool=second and second[d2])
                yield {"fn": fn, "args": [A(rng, s1, d1), b], "kwargs": {}}


def gen_compare(tier, rng):
    yield from _binary(["equal", "not_equal", "less", "less_equal", "greater", "greater_equal"], rng, tier)


def gen_logical(tier, rng):
    yield from _binary(["logical_and", "logical_or"], rng, tier, dts=("int64", "float64", "bool"))


NONZERO = {"int64": [-3, -2, -1, 1, 2, 2, 3], "float64": [-2.5, -1.5, -0.5, 0.5, 1.5, 2.0], "bool": [True]}


def gen_divide(tier, rng):
    yield from _binary(["floor_divide", "true_divide", "divide", "remainder", "mod", "divmod"], rng, tier, second=NONZERO, n=(2, 12))


def gen_close(tier, rng):
    for s1, s2 in PAIRS:
        for _ in range(count(tier, 2, 30)):
            a = A(rng, s1, "float64")
            b = A(rng, s2, "float64", poly=rng.random() < 0.6, pool=FLOATS + [0.5 + 1e-9, 0.5 + 1e-6, 1.5 + 1e-3, 1e-9, -1e-7])
            kw = rng.choice([{}, {"rtol": 1e-3}, {"atol": 1e-6}, {"rtol": 0.0, "atol": 0.0}, {"rtol": 1e-10, "atol": 1e-2}])
            yield {"fn": rng.choice(["isclose", "allclose"]), "args": [a, b], "kwargs": kw}


def gen_round(tier, rng):
    fine = FLOATS + [1.25, -1.25, 0.125, 12.5, -17.75, 3.0, 1e-3]
    for shape in SHAPES:
        for fn in ("floor", "ceil", "rint"):
            for _ in range(count(tier, 1, 3)):
                yield {"fn": fn, "args": [A(rng, shape, "float64", pool=fine)], "kwargs": {}}
        for fn in ("around", "round"):
            for dec in (None, 0, 1, 2, -1):
                dt = rng.choice(["int64", "float64"])
                a = A(rng, shape, dt, pool=fine if dt == "float64" else INTS + [15, 25, -35, 104])
                yield {"fn": fn, "args": [a] + ([] if dec is None else [V(dec)]), "kwargs": {}}
                if dec is not None and rng.random() < 0.5:
                    yield {"fn": fn, "args": [a], "kwargs": {"decimals": dec}}


PB = BOUNDS + "12 broadcastable shape pairs, second operand polynomial or plain ndarray; "
family("comparisons", gen_compare, ["equal", "not_equal", "less", "less_equal", "greater", "greater_equal"], PB + "boolean result type checked")
family("logical", gen_logical, ["logical_and", "logical_or"], PB + "int/float/bool operands, boolean result type checked")
family("division.constant", gen_divide, ["floor_divide", "true_divide", "remainder", "divmod"],
       PB + "non-zero divisors of either sign; also the aliases divide/mod")
family("isclose_allclose", gen_close, ["isclose", "allclose"], PB + "differences 0,1e-9..1e-3, five rtol/atol settings")
family("rounding", gen_round, ["floor", "ceil", "rint", "around"], BOUNDS + "halves/quarters/eighths (ties to even), decimals absent/0/1/2/-1 positional and keyword")


# ------------------------------------------------------------------ division by a non-constant polynomial
def _nonconst(rng, shape):
    while True:
        s = rand_poly(rng, shape=shape, maxterms=2, maxexp=2, dtype=rng.choice(["int64", "float64"]), pool=[-2, -1, 1, 2, 3])
        if any(not m.is_const() for m in spec_model(s).reshape(-1)):
            return {"poly": s}


def gen_nonconst(tier, rng):
    for fn in ("floor_divide", "true_divide", "divide", "remainder", "mod", "divmod"):
        for s1, s2 in PAIRS:
            for _ in range(count(tier, 1, 4)):
                k = rng.choice(["const", "plain", "nonconst"])
                a = _nonconst(rng, s1) if k == "nonconst" else A(rng, s1, rng.choice(["int64", "float64"]), poly=(k == "const"))
                yield {"fn": fn, "args": [a, _nonconst(rng, s2)], "what": "divisor"}
            if fn in ("remainder", "mod", "divmod"):
                yield {"fn": fn, "args": [_nonconst(rng, s1), A(rng, s2, "int64", poly=rng.random() < 0.5, pool=NONZERO["int64"])], "what": "dividend"}


@check("C11", "division.nonconstant_raises", gen_nonconst,
       functions=("numpoly.floor_divide", "numpoly.true_divide", "numpoly.remainder", "numpoly.divmod"),
       note="bounded: 12 broadcastable shape pairs; divisor with >=1 non-constant element (<=2 terms, <=3 indeterminates, exponents<=3); "
            "dividend constant polynomial, plain ndarray or non-constant; remainder/divmod also non-constant dividend over constant divisor")
def nonconstant_raises(inp):
    import numpoly
    fn = inp["fn"]
    for via in ("numpoly", "numpy"):
        x, y = (_arg(a, True) for a in inp["args"])
        with warnings.catch_warnings(), numpy.errstate(all="ignore"):
            warnings.simplefilter("ignore")
            try:
                r = getattr(numpoly if via == "numpoly" else numpy, fn)(x, y)
            except numpoly.FeatureNotSupported:
                continue
            except Exception as e:
                return f"{via}.{fn} with non-constant {inp['what']}: raised {type(e).__name__}: {str(e)[:200]} instead of FeatureNotSupported"
        return f"{via}.{fn} with non-constant {inp['what']}: returned {r!r:.200} instead of raising FeatureNotSupported"
    return None


# ------------------------------------------------------------------ shape functions
def _perms(nd):
    return [list(p) for p in itertools.permutations(range(nd))]


def _shape_inputs(rng, shapes, dt=("int64", "float64")):
    def a(shape, poly=True):
        return A(rng, shape, rng.choice(dt), poly=poly)
    for shape in shapes:
        nd, size = len(shape), int(numpy.prod(shape, dtype=int))
        targets = {(size,), (-1,), (1, size), (size, 1), (-1, 1)} | {(d, size // d) for d in (2, 3) if size and size % d == 0}
        for t in sorted(targets):
            yield {"fn": "reshape", "args": [a(shape), V(tuple(t))], "kwargs": {}}
            yield {"fn": "reshape", "args": [a(shape)], "kwargs": {"shape": list(t)}}
        yield {"fn": "reshape", "args": [a(shape), V(tuple(shape[::-1]))], "kwargs": {"order": "F"}}
        yield {"fn": "reshape", "args": [a(shape), V(size)], "kwargs": {}}
        yield {"fn": "transpose", "args": [a(shape)], "kwargs": {}}
        for p in _perms(nd):
            yield {"fn": "transpose", "args": [a(shape), V(tuple(p))], "kwargs": {}}
            yield {"fn": "transpose", "args": [a(shape)], "kwargs": {"axes": p}}
        for s in range(-nd, nd):
            for d in range(-nd, nd):
                yield {"fn": "moveaxis", "args": [a(shape), V(s), V(d)], "kwargs": {}}
        if nd >= 2:
            yield {"fn": "moveaxis", "args": [a(shape), V((0, 1)), V((-1, -2))], "kwargs": {}}
        for ax in range(-nd - 1, nd + 1):
            yield {"fn": "expand_dims", "args": [a(shape), V(ax)], "kwargs": {}}
            yield {"fn": "expand_dims", "args": [a(shape)], "kwargs": {"axis": ax}}
        for fn in ("atleast_1d", "atleast_2d", "atleast_3d"):
            yield {"fn": fn, "args": [a(shape)], "kwargs": {}}
            yield {"fn": fn, "args": [a(shape), a(()), a((2,), poly=False)], "kwargs": {}}
        for ax in [None] + list(range(-nd, nd)):
            kw = {} if ax is None else {"axis": ax}
            for reps in (0, 1, 2):
                yield {"fn": "repeat", "args": [a(shape), V(reps)], "kwargs": kw}
            if ax is not None and shape[ax]:
                yield {"fn": "repeat", "args": [a(shape), V([rng.randint(0, 2) for _ in range(shape[ax])])], "kwargs": kw}
        for reps in (0, 1, 2, (2,), (1, 2), (2, 1, 2), (2, 1, 1, 2)):
            yield {"fn": "tile", "args": [a(shape), V(reps)], "kwargs": {}}
        if nd >= 1:
            for ax in range(-nd, nd):
                other = list(shape)
                other[ax] = rng.randint(0, 2)
                seq = {"seq": [a(shape), a(tuple(other), poly=rng.random() < 0.7)]}
                yield {"fn": "concatenate", "args": [seq], "kwargs": {"axis": ax}}
                for k in (1, 2, 3, 4):
                    yield {"fn": "split", "args": [a(shape), V(k)], "kwargs": {"axis": ax}}
                    yield {"fn": "array_split", "args": [a(shape), V(k)], "kwargs": {"axis": ax}}
                idx = sorted(rng.randint(0, shape[ax] + 1) for _ in range(rng.randint(0, 2)))
                yield {"fn": "split", "args": [a(shape), V(idx)], "kwargs": {"axis": ax}}
                yield {"fn": "array_split", "args": [a(shape), V(idx)], "kwargs": {"axis": ax}}
            yield {"fn": "concatenate", "args": [{"seq": [a(shape), a(shape), a(shape, poly=False)]}], "kwargs": {}}
            yield {"fn": "concatenate", "args": [{"seq": [a(shape), a(shape)]}], "kwargs": {"axis": None}}
        for ax in range(-nd - 1, nd + 1):
            yield {"fn": "stack", "args": [{"seq": [a(shape), a(shape, poly=rng.random() < 0.7)]}], "kwargs": {"axis": ax}}
        for fn in ("stack", "hstack", "vstack", "dstack"):
            yield {"fn": fn, "args": [{"seq": [a(shape), a(shape), a(shape, poly=False)]}], "kwargs": {}}
            yield {"fn": fn, "args": [{"seq": [a(shape)]}], "kwargs": {}}
        for fn, need in (("hsplit", 1), ("vsplit", 2), ("dsplit", 3)):
            if nd >= need:
                for k in (1, 2, 3, [1], [0, 1]):
                    yield {"fn": fn, "args": [a(shape), V(k)], "kwargs": {}}
        for s2 in [(), (1,), (3,), (2, 1), (1, 3), (2, 1, 1)]:
            yield {"fn": "broadcast_arrays", "args": [a(shape), a(s2, poly=rng.random() < 0.7)], "kwargs": {}}
        yield {"fn": "broadcast_arrays", "args": [a(shape)], "kwargs": {}}
        if nd in (1, 2):
            for k in (-2, -1, 0, 1, 2):
                yield {"fn": "diag", "args": [a(shape)] + ([] if k == 0 and rng.random() < 0.5 else [V(k)]), "kwargs": {}}
        if nd >= 2:
            yield {"fn": "diagonal", "args": [a(shape)], "kwargs": {}}
            for off in (-1, 0, 1):
                for a1, a2 in itertools.permutations(range(nd), 2):
                    yield {"fn": "diagonal", "args": [a(shape)], "kwargs": {"offset": off, "axis1": a1, "axis2": a2}}


SHAPE_FNS = ["reshape", "transpose", "moveaxis", "expand_dims", "atleast_1d", "atleast_2d", "atleast_3d", "repeat", "tile", "concatenate",
             "stack", "hstack", "vstack", "dstack", "split", "array_split", "hsplit", "vsplit", "dsplit", "broadcast_arrays", "diag", "diagonal"]


def _repeat_default(i):
    return i["fn"] == "repeat" and "axis" not in i["kwargs"]


def gen_shape(tier, rng):
    yield from thin(tier, rng, (i for i in _shape_inputs(rng, SHAPES + [(2, 2), (3, 3), (4, 2)]) if not _repeat_default(i)), 0.25)


def gen_repeat_default(tier, rng):
    for _ in range(count(tier, 1, 3)):
        yield from (i for i in _shape_inputs(rng, SHAPES + [(2, 2), (3, 3), (4, 2)]) if _repeat_default(i))


family("shape_functions", gen_shape, SHAPE_FNS,
       BOUNDS + "every axis / permutation / source-destination pair, reshape targets incl. -1 and order='F', repeats 0..2 and per-element, "
       "tile reps up to 4-d, split sections 1..4 and index lists, sequences mixing polynomials and plain arrays; thorough = exhaustive grid; "
       "repeat only with an explicit axis")
family("repeat.default_axis", gen_repeat_default, ["repeat"],
       BOUNDS + "repeat called without an axis argument (numpy: axis=None, flattened result), repeats 1..2, 13 shapes")


# ------------------------------------------------------------------ remaining mirrored element-wise / linear functions
def gen_misc(tier, rng):
    def a(shape, dt=None, poly=True):
        return A(rng, shape, dt or rng.choice(["int64", "float64"]), poly=poly)
    for _ in range(count(tier, 1, 4)):
        for shape in SHAPES:
            for fn in ("absolute", "abs", "negative", "positive", "square", "isfinite"):
                yield {"fn": fn, "args": [a(shape)], "kwargs": {}}
            for fn in ("zeros_like", "ones_like"):
                yield {"fn": fn, "args": [a(shape)], "kwargs": {}}
            yield {"fn": "full_like", "args": [a(shape), V(rng.choice([3, -1.5]))], "kwargs": {}}
            nd = len(shape)
            for ax in range(-nd, nd):
                for n in (0, 1, 2):
                    yield {"fn": "diff", "args": [a(shape)], "kwargs": {"n": n, "axis": ax}}
            if nd:
                yield {"fn": "diff", "args": [a(shape)], "kwargs": {}}
            yield {"fn": "ediff1d", "args": [a(shape)], "kwargs": {}}
        for s1, s2 in PAIRS:
            for fn in ("add", "subtract", "multiply", "maximum", "minimum"):
                yield {"fn": fn, "args": [a(s1), a(s2, poly=rng.random() < 0.6)], "kwargs": {}}
            yield {"fn": "power", "args": [a(s1), A(rng, s2, "int64", poly=False, pool=[0, 1, 2, 3])], "kwargs": {}}
            # negative and fractional exponents of CONSTANT float bases: numpy.power's values (int bases with negative
            # exponents are refused by numpy itself and dropped)
            yield {"fn": "power", "args": [A(rng, s1, "float64", pool=[0.5, 1.0, 2.0, 4.0, 9.0]), A(rng, s2, "float64", poly=False, pool=[-1.0, 0.5, 2.0, -2.0, 0.0, 1.5])],
                   "kwargs": {}}
            cond = A(rng, numpy.broadcast_shapes(s1, s2), "bool", poly=False)
            yield {"fn": "where", "args": [cond, a(s1), a(s2, poly=rng.random() < 0.6)], "kwargs": {}}
            yield {"fn": "where", "args": [A(rng, s1, "bool", poly=False), a(s1), a(s2)], "kwargs": {}}
        for s1, s2 in [((), ()), ((3,), (3,)), ((2, 3), (3,)), ((3,), (2, 3)), ((2, 3), (4, 3)), ((), (3,)), ((2, 2, 3), (3,)),
                       ((2, 3), (2, 4, 3)), ((4, 3), (2, 2, 3)), ((2, 2, 3), (2, 4, 3)), ((3,), (2, 4, 3)), ((2, 2, 3), (4, 3)), ((2, 1), (3, 2, 1))]:
            yield {"fn": "inner", "args": [a(s1), a(s2, poly=rng.random() < 0.6)], "kwargs": {}}
        for s1, s2 in [((2, 3), (3, 4)), ((1, 3), (3, 1)), ((2, 2, 3), (3, 2)), ((2, 2, 3), (2, 3, 1)), ((2, 3), (2, 3, 2))]:
            yield {"fn": "matmul", "args": [a(s1), a(s2, poly=rng.random() < 0.6)], "kwargs": {}}
        for shape in [(1, 1), (2, 2), (3, 3), (2, 2, 2)]:
            yield {"fn": "linalg.det", "args": [a(shape)], "kwargs": {}}
        for dts in itertools.product(("int64", "float64", "bool"), repeat=2):
            arrs = [a(rng.choice([(), (2,), (2, 2)]), dt, poly=(k == 0 or rng.random() < 0.6)) for k, dt in enumerate(dts)]
            yield {"fn": "result_type", "args": arrs, "kwargs": {}}
            yield {"fn": "result_type", "args": arrs[:1] + [V(rng.choice([1, 2.5, True]))], "kwargs": {}}
            yield {"fn": "common_type", "args": arrs, "kwargs": {}}
            yield {"fn": "common_type", "args": arrs[:1], "kwargs": {}}
        for shape in [3, (), (2,), (2, 3), (2, 1, 2)]:
            for kw in ({}, {"dtype": "int64"}, {"dtype": "float64"}, {"dtype": "bool"}):
                yield {"fn": "zeros", "args": [V(shape)], "kwargs": kw}
                yield {"fn": "ones", "args": [V(shape)], "kwargs": kw}
                fill = rng.choice([V(3), V(-1.5), a(()), A(rng, (), "float64", poly=False)])
                yield {"fn": "full", "args": [V(shape), fill], "kwargs": kw}
        for s1, s2 in [((3,), (2,)), ((), (3,)), ((2, 2), (3,)), ((1,), (1,))]:
            yield {"fn": "outer", "args": [a(s1), a(s2, poly=rng.random() < 0.6)], "kwargs": {}}
        for shape in [(), (3,), (2, 2)]:
            sel = A(rng, shape, "int64", poly=False, pool=[0, 1, 2])
            yield {"fn": "choose", "args": [sel, {"seq": [a(shape), a(shape), a(())]}], "kwargs": {}}


MISC = ["absolute", "negative", "positive", "square", "isfinite", "zeros_like", "ones_like", "full_like", "diff", "ediff1d", "add", "subtract",
        "multiply", "maximum", "minimum", "power", "where", "inner", "matmul", "outer", "choose", "det", "result_type", "common_type",
        "zeros", "ones", "full"]


def gen_matmul_vector(tier, rng):
    for _ in range(count(tier, 3, 15)):
        for s1, s2 in [((3,), (3,)), ((1,), (1,)), ((2, 3), (3,)), ((3,), (3, 2)), ((2, 2, 3), (3,)), ((3,), (2, 3, 2))]:
            dt1, dt2 = rng.choice(["int64", "float64"]), rng.choice(["int64", "float64"])
            yield {"fn": "matmul", "args": [A(rng, s1, dt1), A(rng, s2, dt2, poly=rng.random() < 0.6)], "kwargs": {}}


family("other_mirrored", gen_misc, MISC,
       BOUNDS + "the mirrored functions outside the named catalogue: element-wise arithmetic, maximum/minimum, where, diff (n<=2), "
       "inner/outer, matmul of operands with >=2 dimensions (function and @), choose, *_like, det of 1x1..3x3 (and a stack), "
       "result_type/common_type (dtype compared), zeros/ones/full with dtype absent/int64/float64/bool (numpoly spelling only)")
family("matmul.vector_operand", gen_matmul_vector, ["matmul"],
       BOUNDS + "matmul where at least one operand is 1-d (6 shape pairs), spellings numpoly.matmul, numpy.matmul and the @ operator")


# ------------------------------------------------------------------ size-0 arrays
def gen_size0(tier, rng):
    for shape in SIZE0:
        z = {"array": [], "dtype": "int64", "poly": True, "shape": list(shape)}
        zf = dict(z, dtype="float64")
        for fn in ("sum", "prod", "any", "all", "cumsum", "count_nonzero", "mean"):
            for ax in [None] + list(range(len(shape))):
                yield {"fn": fn, "args": [z], "kwargs": {} if ax is None else {"axis": ax}}
        for fn in ("nonzero", "transpose", "atleast_1d", "atleast_2d", "atleast_3d", "negative", "absolute", "square", "floor", "rint"):
            yield {"fn": fn, "args": [zf if fn in ("floor", "rint") else z], "kwargs": {}}
        for fn in ("equal", "not_equal", "less", "greater_equal", "logical_and", "logical_or", "isclose", "allclose", "add", "multiply",
                   "floor_divide", "true_divide", "remainder"):
            yield {"fn": fn, "args": [z, z], "kwargs": {}}
            yield {"fn": fn, "args": [z, V(2)], "kwargs": {}}
        yield {"fn": "reshape", "args": [z, V((0,))], "kwargs": {}}
        yield {"fn": "reshape", "args": [z, V((3, 0))], "kwargs": {}}
        yield {"fn": "expand_dims", "args": [z, V(0)], "kwargs": {}}
        yield {"fn": "concatenate", "args": [{"seq": [z, z]}], "kwargs": {}}
        yield {"fn": "stack", "args": [{"seq": [z, z]}], "kwargs": {}}
        yield {"fn": "repeat", "args": [z, V(2)], "kwargs": {"axis": 0}}
        yield {"fn": "tile", "args": [z, V(2)], "kwargs": {}}
        yield {"fn": "broadcast_arrays", "args": [z, A(rng, (shape[-1],) if shape[-1] else (), "int64")], "kwargs": {}}
    yield {"fn": "concatenate", "args": [{"seq": [A(rng, (2,), "int64"), {"array": [], "dtype": "int64", "poly": True}]}], "kwargs": {}}
    # non-empty arguments whose numpy result is (or contains) an empty array
    for shape in [(3,), (2, 2)]:
        yield {"fn": "nonzero", "args": [{"array": numpy.zeros(shape, dtype=int).tolist(), "dtype": "int64", "poly": True}], "kwargs": {}}
    # non-empty arguments whose numpy result is (or contains) an empty array: kept by the family filter (class 'empty')
    routed = itertools.chain(_shape_inputs(rng, [(1,), (3,), (1, 1), (2, 3), (2, 1, 3)]), gen_misc("quick", rng))
    yield from thin(tier, rng, (i for i in routed if classify(i) == "empty"), 0.5)


family("size0", gen_size0, ["polynomial", "sum", "prod", "any", "all", "equal", "less", "reshape", "concatenate"],
       "bounded: argument shapes (0,), (0,3), (2,0), (2,0,2): reductions over every axis, comparisons, arithmetic, division, shape "
       "functions; plus the inputs of shape_functions/other_mirrored whose numpy result is or contains an empty array (repeat 0, empty "
       "split pieces, diff of one element, nonzero of an all-zero array ...); numpy's conventions (sum=0, prod=1, all=True, result "
       "shapes) are the expected values; no other C11 check contains an input with a size-0 operand or result", keep="empty")


# ------------------------------------------------------------------ large constant arrays (ranking buffers must not be narrow)
def gen_large(tier, rng):
    for n in [40000, 70000] + ([33000, 66000, 140000] if tier == "thorough" else []):
        for fn in ("amax", "amin", "argmax", "argmin"):
            yield {"n": n, "fn": fn, "seed": rng.randrange(10 ** 6), "shape": rng.choice(["flat", "2d"]), "dtype": rng.choice(["int64", "float64"])}


@check("C11", "large_arrays.extremes", gen_large, functions=("numpoly.sortable_proxy", "numpoly.amax", "numpoly.amin", "numpoly.argmax", "numpoly.argmin"),
       note="bounded: amax/amin/argmax/argmin of constant polynomial arrays holding a random permutation of 0..n-1 for n = 40000, 70000 "
            "(thorough: also 33000, 66000, 140000; past the int16/uint16/… ranges a rank counter could be stored in), flat or (n/100, 100), "
            "compared with numpy on the same numbers")
def large_extremes(inp):
    import numpoly
    rs = numpy.random.RandomState(inp["seed"])
    data = rs.permutation(inp["n"]).astype(inp["dtype"])
    if inp["shape"] == "2d":
        data = data.reshape(-1, 100)
    p = numpoly.polynomial(data)
    fn = inp["fn"]
    got = getattr(numpoly, fn)(p)
    want = getattr(numpy, fn)(data)
    got = got.tonumpy() if isinstance(got, numpoly.ndpoly) else numpy.asarray(got)
    if numpy.shape(got) != numpy.shape(want) or not numpy.array_equal(got, want):
        return f"{fn} of a permutation of 0..{inp['n'] - 1} ({inp['shape']}, {inp['dtype']}): {numpy.asarray(got).tolist()} instead of {numpy.asarray(want).tolist()}"
    return None
