"""Run-time side (executed by /venv/bin/python, where numpoly is importable from /repo).

Concrete interpretation of the contract clauses: each check is a function
    check(input) -> None | str          (None = clause holds, str = what was observed)
registered under (property, function, clause).  Inputs are JSON-serialisable so that a
failing one can be written to a replay file and re-run later.
"""
from __future__ import annotations
import hashlib
import json
import os
import random
import signal
import sys
import time
import traceback

REPO = os.environ.get("NUMPOLY_REPO", "/repo")
if REPO != "/repo" or True:
    # always import the tree under test first (scratch copies for self-tests set NUMPOLY_REPO)
    sys.path.insert(0, REPO)

VERIF = os.path.dirname(os.path.dirname(os.path.abspath(__file__)))
REPLAY_DIR = os.path.join(VERIF, "replays")

CHECKS = {}      # name -> Check
JOURNAL = os.environ.get("VERIF_JOURNAL")


class Check:
    def __init__(self, prop, name, fn, gen, functions=(), bounded=True, note=""):
        self.prop, self.name, self.fn, self.gen = prop, name, fn, gen
        self.functions, self.bounded, self.note = tuple(functions), bounded, note


def check(prop, name, gen, functions=(), note=""):
    """Register a concrete contract clause.  gen(tier, rng) yields inputs."""
    def deco(fn):
        CHECKS[f"{prop}:{name}"] = Check(prop, name, fn, gen, functions, note=note)
        return fn
    return deco


class Timeout(BaseException):
    """(not an Exception: `except Exception` in a check or in the code under test must not swallow it)"""


def _alarm(signum, frame):
    raise Timeout()


def run_one(chk, inp, limit_s=20):
    """Returns None or failure text.  A time-out is a failure only for checks that say so."""
    signal.signal(signal.SIGALRM, _alarm)
    # fires again every 5 s after the limit: a time-out swallowed by a bare `except:` somewhere is raised once more
    signal.setitimer(signal.ITIMER_REAL, limit_s, 5)
    try:
        return chk.fn(inp)
    except Timeout:
        return f"did not return within {limit_s}s"
    except AssertionError as e:
        return f"AssertionError in real code or check: {e!r}\n" + traceback.format_exc(limit=6)
    except Exception as e:
        return f"unexpected {type(e).__name__}: {e}\n" + traceback.format_exc(limit=6)
    finally:
        signal.setitimer(signal.ITIMER_REAL, 0)


def input_key(inp):
    return hashlib.sha1(json.dumps(inp, sort_keys=True, default=str).encode()).hexdigest()[:12]


def write_replay(chk, inp, observed):
    os.makedirs(REPLAY_DIR, exist_ok=True)
    key = input_key(inp)
    path = os.path.join(REPLAY_DIR, f"{chk.prop}-{chk.name.replace('/', '_')}-{key}.json")
    with open(path, "w") as fh:
        json.dump(dict(kind="concrete", property=chk.prop, check=f"{chk.prop}:{chk.name}", functions=chk.functions,
                       finding_key=f"{chk.prop}:{chk.name}:{key}", input=inp, observed=observed,
                       replay="./vcheck replay " + path), fh, indent=1, default=str)
    return path, key


def nontrivial_default(inp):
    return True


def run_checks(prop, tier, seed, focus=None, budget_s=None, only=None):
    """Run every registered check of a property.  Returns a JSON-able summary."""
    rng_seed = seed
    out = dict(property=prop, tier=tier, seed=seed, checks=[], failures=[], evaluations=0, distinct=0, wall_s=0.0)
    t0 = time.time()
    seen = set()
    for name, chk in sorted(CHECKS.items()):
        if chk.prop != prop:
            continue
        if only and chk.name not in only:
            continue
        rng = random.Random(f"{rng_seed}:{name}")
        deep = bool(focus) and any(f in focus for f in chk.functions)
        n = fails = timeouts = 0
        stopped = ""
        c0 = time.time()
        samples = []
        for inp in chk.gen("thorough" if deep else tier, rng):
            n += 1
            if JOURNAL:
                # crash journal: if the interpreter dies inside the code under test (segfault in a compiled kernel),
                # the parent finds the input that was being run
                with open(JOURNAL, "w") as jf:
                    json.dump(dict(check=name, input=inp), jf, default=str)
            k = input_key(inp)
            if (name, k) not in seen:
                seen.add((name, k))
            if len(samples) < 2:
                samples.append(inp)
            res = run_one(chk, inp)
            if res is not None and res.startswith("did not return within"):
                timeouts += 1
            if res is not None:
                fails += 1
                if fails <= 3:
                    path, key = write_replay(chk, inp, res)
                    out["failures"].append(dict(check=name, functions=chk.functions, replay=path,
                                                finding_key=f"{name}:{key}", observed=res[:600], input=inp))
            if budget_s and time.time() - c0 > budget_s:
                break
            if timeouts >= 3:
                # code under test that does not return costs the full per-input limit every time: three such inputs are reported,
                # the rest of this check's inputs is skipped (the check has failed anyway)
                stopped = f"stopped after {timeouts} inputs that did not return"
                break
        out["checks"].append(dict(name=name, functions=chk.functions, inputs=n, failures=fails,
                                  wall_s=round(time.time() - c0, 2), samples=samples, note=chk.note + (f" [{stopped}]" if stopped else "")))
        out["evaluations"] += n
    out["distinct"] = len(seen)
    out["wall_s"] = round(time.time() - t0, 2)
    return out
