"""Concrete interpretation of the well-formedness predicate WF (C03) and helpers shared by the checks."""
from __future__ import annotations
import re
import numpy
from .model import from_ndpoly, from_raw, same, describe

POISON = 0xA5


def install_poison():
    """Fill every freshly allocated ndpoly buffer with 0xA5 bytes so that an unwritten coefficient
    is a recognisable value and definedness checks are deterministic (harness-side wrapper)."""
    import numpoly
    cls = numpoly.ndpoly
    if getattr(cls, "_verif_poisoned", False):
        return
    orig = cls.__new__

    def patched(klass, *a, **k):
        obj = orig(klass, *a, **k)
        try:
            if obj.nbytes:
                numpy.ndarray(shape=(obj.nbytes,), dtype=numpy.uint8, buffer=obj.data).fill(POISON)
        except Exception:
            pass
        return obj
    cls.__new__ = staticmethod(patched)
    cls._verif_poisoned = True


def poison_values(dtype):
    """The value a fully poisoned cell of this dtype reads as."""
    n = numpy.dtype(dtype).itemsize
    return numpy.frombuffer(bytes([POISON]) * n, dtype=dtype)[0]


def has_poison(p):
    try:
        pv = poison_values(p.dtype)
    except Exception:
        return False
    for c in p.coefficients:
        c = numpy.asarray(c)
        if c.size and numpy.any(c == pv) and p.dtype != numpy.dtype(bool):
            return True
    return False


def wf(p, what="result"):
    """None or a description of the violated clause."""
    import numpoly
    if not isinstance(p, numpoly.ndpoly):
        return f"{what}: not an ndpoly but {type(p).__name__}"
    E = numpy.asarray(p.exponents)
    C = p.coefficients
    names = tuple(p.names)
    if E.ndim != 2:
        return f"{what}: exponents.ndim={E.ndim}"
    N, D = E.shape
    if N < 1 or D < 1:
        return f"{what}: exponents shape {E.shape}"
    if len({tuple(r) for r in E.tolist()}) != N:
        return f"{what}: duplicate exponent rows {E.tolist()}"
    if len(C) != N:
        return f"{what}: {len(C)} coefficient arrays for {N} exponent rows"
    for t, c in enumerate(C):
        c = numpy.asarray(c)
        if c.shape != tuple(p.shape):
            return f"{what}: coefficient {t} has shape {c.shape}, array shape {p.shape}"
        if c.dtype != p.dtype:
            return f"{what}: coefficient {t} has dtype {c.dtype}, array dtype {p.dtype}"
    if len(names) != D or len(set(names)) != D:
        return f"{what}: names {names} for exponent width {D}"
    filt = numpoly.get_options()["varname_filter"]
    for n in names:
        if not re.search(filt, n):
            return f"{what}: name {n!r} does not match {filt!r}"
    # raw structured view decodes to the same exponents
    raw = numpy.ndarray.view(p, numpy.ndarray)
    fields = [k for k in raw.dtype.names][:N]
    dec = []
    for k in fields:
        cps = [ord(ch) for ch in k] + [0] * (D - len(k))
        dec.append([(cp - 59) % 2 ** 32 for cp in cps])
    if dec != E.tolist():
        return f"{what}: field names decode to {dec}, exponents are {E.tolist()}"
    if has_poison(p):
        return f"{what}: contains coefficients that were never written (poison value)"
    return None


def denotes(p, model, what="result"):
    """p (ndpoly) denotes the object array `model` of MPoly: same shape and element-wise equal."""
    got = from_ndpoly(p)
    if got.shape != model.shape:
        return f"{what}: shape {got.shape}, expected {model.shape}"
    if not same(got, model):
        return f"{what}: denotes {describe(got)}, expected {describe(model)}"
    got2 = from_raw(p)
    if not same(got2, model):
        return f"{what}: raw structured view denotes {describe(got2)}, expected {describe(model)}"
    return None


def snapshot(x):
    """Byte-level snapshot of an argument (C17)."""
    import numpoly
    if isinstance(x, numpoly.ndpoly):
        raw = numpy.ndarray.view(x, numpy.ndarray)
        return ("poly", tuple(x.shape), str(x.dtype), tuple(x.names), tuple(raw.dtype.names), raw.tobytes(),
                tuple(map(tuple, numpy.asarray(x.exponents).tolist())))
    if isinstance(x, numpy.ndarray):
        return ("array", x.shape, str(x.dtype), x.tobytes())
    if isinstance(x, (list, tuple)):
        return (type(x).__name__,) + tuple(snapshot(v) for v in x)
    if isinstance(x, dict):
        return ("dict",) + tuple((k, snapshot(v)) for k, v in x.items())
    return ("scalar", repr(x))


def unchanged(before, x, what="argument"):
    if snapshot(x) != before:
        return f"{what} was modified by the call"
    return None


def double_through_a_view(p):
    """Multiply every coefficient of p by two IN PLACE, writing through another object over the same memory (the transposed view;
    a plain view for 0-d): afterwards p holds 2*p_old although no method of p itself was involved."""
    import numpy
    v = p.T if p.ndim else numpy.ndarray.view(p)
    raw = v.values
    for key in v.keys:
        raw[key] *= 2
    return p
