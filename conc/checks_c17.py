"""C17 run-time contracts: apart from explicit output targets, no call modifies its arguments
(byte-level snapshot of every polynomial / array argument before and after, on normal and
exceptional exits)."""
from __future__ import annotations
import numpy
from .common import check
from .gen import rand_poly, count, nested
from .model import operand
from .wf import snapshot

UNARY = ["negative", "positive", "absolute", "square", "sum", "prod", "cumsum", "mean", "transpose", "ravel_method", "T",
         "flatten", "copy", "isconstant", "lead_exponent", "lead_coefficient", "sortable_proxy", "argmax", "amax", "decompose",
         "gradient", "hessian", "derivative0", "str", "repr", "todict", "astype", "clean", "nonzero", "any", "all", "iter",
         "exponents_inplace", "coefficients_inplace", "set_dimensions", "tonumpy_or_raise", "diff", "ediff1d", "round",
         "reshape", "repeat", "tile", "expand_dims", "atleast_2d", "diag_or_raise", "pickle_roundtrip", "call_numeric",
         "call_bad_kw", "getitem", "str_suppress", "repr_suppress", "array_str_suppress", "array_repr_suppress", "to_string_suppress"]
BINARY = ["add", "subtract", "multiply", "poly_divmod", "truediv_op", "mod_op", "greater", "less_equal", "equal", "not_equal",
          "maximum", "minimum", "where", "concatenate", "stack", "outer", "inner", "matmul_or_raise", "isclose", "allclose",
          "align_polynomials", "align_exponents", "align_indeterminants", "align_shape", "call_poly", "logical_and",
          "true_divide_numeric_or_raise", "floor_divide_or_raise", "remainder_or_raise", "power_int", "broadcast_arrays", "full_like",
          "copyto_src", "poly_divmod_prealigned", "truediv_prealigned", "mod_prealigned", "add_prealigned", "multiply_prealigned",
          "greater_prealigned", "isclose_prealigned"]


DTYPES = ["int64", "float64", "bool", "uint32", "float32"]


def gen(tier, rng):
    # systematic: every operation x every coefficient dtype (an aliasing slip typically shows for ONE dtype only,
    # e.g. numpy.asarray(x, dtype=bool) is a view exactly for bool data), a few random operands each
    reps = count(tier, 4, 12)
    for op in UNARY + BINARY:
        for dt in DTYPES:
            for _ in range(reps):
                binary = op in BINARY
                shape = rng.choice([(2,), (2, 2), (3,), ()])
                pool = [0, 0, 1, 2] if dt in ("bool", "uint32") else [-1, 0, 1, 2]
                if dt.startswith("float") and rng.random() < 0.5:
                    # magnitudes that tolerance / suppression / negligibility tests treat specially
                    pool = pool + ([1e-12, -1e-30, 1e-40, 2.0 ** -30] if dt == "float64" else [1e-12, -1e-30, 2.0 ** -30])
                if dt.startswith("float"):
                    # negative zero: equal to zero, different bytes (a "tidying" write of 0 into the argument shows only here)
                    pool = pool + [-0.0, -0.0]
                inp = {"op": op, "a": rand_poly(rng, shape=shape, pool=pool, dtype=dt, maxterms=3), "view": rng.random() < 0.3}
                if binary:
                    r = rng.random()
                    inp["b"] = {"poly": rand_poly(rng, shape=rng.choice([shape, ()]), pool=[-1, 1, 2])} if r < 0.7 else \
                        ({"array": nested(rng, shape, [1, 2, 3]), "dtype": "int64"} if r < 0.9 else {"num": 2})
                yield inp


def gen_negligible(tier, rng):
    """division whose leading quotient candidate is negligible (the code treats |ratio| < 1e-30 as zero): operands given both as
    they come and already aligned with each other"""
    for op in ("poly_divmod", "truediv_op", "mod_op", "poly_divmod_prealigned", "truediv_prealigned", "mod_prealigned"):
        for _ in range(count(tier, 6, 40)):
            shape = rng.choice([(), (2,), (2, 2)])
            top = rng.choice([2, 3])
            tiny = rng.choice([1e-40, -1e-35, 1e-300])
            a = {"names": ["q0"], "exponents": [[0], [1], [top]], "dtype": "float64",
                 "coefficients": [nested(rng, shape, [2.0, -1.0, 3.0]), nested(rng, shape, [3.0, 1.0]), nested(rng, shape, [tiny])]}
            b = {"names": ["q0"], "exponents": [[0], [1]], "dtype": "float64",
                 "coefficients": [nested(rng, shape, [1.0, 2.0]), nested(rng, shape, [1.0, -2.0, 4.0])]}
            yield {"op": op, "a": a, "b": {"poly": b}, "view": False}


def unary(op, a, numpoly):
    f = {
        "ravel_method": lambda: a.ravel(), "T": lambda: a.T, "flatten": lambda: a.flatten(), "copy": lambda: a.copy(),
        "isconstant": lambda: a.isconstant(), "lead_exponent": lambda: numpoly.lead_exponent(a),
        "lead_coefficient": lambda: numpoly.lead_coefficient(a), "sortable_proxy": lambda: numpoly.sortable_proxy(a),
        "argmax": lambda: numpoly.argmax(a), "amax": lambda: numpoly.amax(a), "decompose": lambda: numpoly.decompose(a),
        "gradient": lambda: numpoly.gradient(a), "hessian": lambda: numpoly.hessian(a),
        "derivative0": lambda: numpoly.derivative(a, 0), "str": lambda: str(a), "repr": lambda: repr(a),
        "todict": lambda: a.todict(), "astype": lambda: a.astype(float), "clean": lambda: numpoly.clean_attributes(a),
        "nonzero": lambda: numpoly.nonzero(a), "any": lambda: numpoly.any(a), "all": lambda: numpoly.all(a),
        "iter": lambda: list(a) if a.shape else None, "set_dimensions": lambda: numpoly.set_dimensions(a, 4),
        "tonumpy_or_raise": lambda: a.tonumpy(), "diff": lambda: numpoly.diff(a) if a.shape else None,
        "ediff1d": lambda: numpoly.ediff1d(a) if a.size > 1 else None, "round": lambda: a.round(),
        "reshape": lambda: numpoly.reshape(a, (-1,)), "repeat": lambda: numpoly.repeat(a, 2, axis=0) if a.shape else None,
        "tile": lambda: numpoly.tile(a, 2), "expand_dims": lambda: numpoly.expand_dims(a, 0),
        "atleast_2d": lambda: numpoly.atleast_2d(a), "diag_or_raise": lambda: numpoly.diag(a),
        "call_numeric": lambda: a(*[2] * len(a.names)), "call_bad_kw": lambda: a(nonexistent=1),
        "getitem": lambda: a[..., None],
        "array_str_suppress": lambda: numpoly.array_str(a, precision=4, suppress_small=True),
        "array_repr_suppress": lambda: numpoly.array_repr(a, precision=4, suppress_small=True),
        "to_string_suppress": lambda: numpoly.array_function.array_repr.to_string(a, precision=4, suppress_small=True),
    }
    if op in ("str_suppress", "repr_suppress"):
        with numpy.printoptions(suppress=True, precision=4):
            return str(a) if op == "str_suppress" else repr(a)
    if op in f:
        return f[op]()
    if op == "exponents_inplace":
        e = a.exponents
        e += 5                      # mutating the returned copy must not touch the polynomial
        return e
    if op == "coefficients_inplace":
        c = a.coefficients
        for arr in c:
            arr += 7
        return c
    if op == "pickle_roundtrip":
        import pickle
        return pickle.loads(pickle.dumps(a))
    return getattr(numpoly, op)(a)


def binary(op, a, b, numpoly):
    f = {
        "poly_divmod": lambda: numpoly.poly_divmod(a, b), "truediv_op": lambda: a / b, "mod_op": lambda: a % b,
        "where": lambda: numpoly.where(numpy.ones(numpy.broadcast_shapes(numpy.shape(a), numpy.shape(b)), dtype=bool), a, b),
        "concatenate": lambda: numpoly.concatenate([numpoly.polynomial(a).ravel(), numpoly.polynomial(b).ravel()]),
        "stack": lambda: numpoly.stack([a, a]), "matmul_or_raise": lambda: numpoly.matmul(a, b),
        "call_poly": lambda: a(**{a.names[0]: b}), "true_divide_numeric_or_raise": lambda: numpoly.true_divide(a, b),
        "floor_divide_or_raise": lambda: numpoly.floor_divide(a, b), "remainder_or_raise": lambda: numpoly.remainder(a, b),
        "power_int": lambda: numpoly.power(a, 2), "broadcast_arrays": lambda: numpoly.broadcast_arrays(a, b),
        "full_like": lambda: numpoly.full_like(a, b if numpy.ndim(b) == 0 else 1),
    }
    if op in f:
        return f[op]()
    if op.endswith("_prealigned"):
        base = {"poly_divmod": numpoly.poly_divmod, "truediv": lambda x, y: x / y, "mod": lambda x, y: x % y, "add": numpoly.add,
                "multiply": numpoly.multiply, "greater": numpoly.greater, "isclose": numpoly.isclose}[op[:-len("_prealigned")]]
        return base(a, b)
    if op == "copyto_src":
        dst = numpoly.polynomial(a) * 0 + numpoly.polynomial(b) * 0
        return numpoly.copyto(dst, a + b * 0)
    return getattr(numpoly, op)(a, b)


def rng_choice(inp, options):
    return options[len(inp["route"]) % len(options)]


def gen_numeric(tier, rng):
    for _ in range(count(tier, 120, 1200)):
        spec = rand_poly(rng, shape=rng.choice([(2,), (2, 2), ()]), pool=[-1, 1, 2, 3])
        yield {"p": spec, "route": rng.choice(["ndpoly", "from_attributes_retain", "from_attributes", "polynomial_dict", "ndpoly_names",
                                               "multiply_where", "add_where", "call_arrays", "getitem_index", "where_cond",
                                               "choose_index", "repeat_counts", "monomial_bounds", "glexsort_keys", "savetxt_none",
                                               "glexindex_bounds", "bindex_bounds", "cross_truncate_args", "lead_sortable_args",
                                               "call_function_form", "polynomial_dict_kept", "list_arguments",
                                               "axis_arrays", "from_roots_array", "shape_arrays", "edge_arrays", "nonfinite_data_integer_target",
                                               "negative_zero_savetxt"]),
               "edtype": rng.choice(["uint32", "int64", "uint32", "int32"])}


@check("C17", "numeric_arguments.unchanged", gen_numeric, functions=("numpoly.ndpoly", "numpoly.polynomial_from_attributes", "numpoly.multiply"),
       note="bounded: plain numeric arrays handed to constructors and functions (exponent tables of dtype uint32/int32/int64, "
            "coefficient arrays, where= masks, index/count arrays, evaluation points) keep their bytes; containers handed over "
            "(the keyword mapping and argument tuple of numpoly.call(poly, args, kwargs), a dict of terms, lists of operands) keep "
            "their entries; integer arrays given as axis (negative entries), roots, repetition counts, target shape, to_begin/to_end/prepend/"
            "append keep their bytes; float data with nan / inf / -0.0 handed to constructors with an integer target dtype and a "
            "polynomial with negative-zero coefficients written with savetxt keep their bytes (the sign of zero included)")
def numeric_arguments(inp):
    import numpoly
    spec = inp["p"]
    E = numpy.array(spec["exponents"], dtype=inp["edtype"]).reshape(len(spec["coefficients"]), -1)
    C = [numpy.array(c, dtype=spec["dtype"]) for c in spec["coefficients"]]
    names = tuple(spec["names"])
    p = operand({"poly": spec})
    shape = C[0].shape
    mask = numpy.zeros(shape, dtype=bool)
    if mask.size:
        mask.reshape(-1)[0] = True
    pts = [numpy.array([1, 2, 3]) for _ in names]
    idx = numpy.array([0])
    lo, hi = numpy.array([-1, 0]), numpy.array([2, 3])          # index bounds, with a negative lower bound (clipped to 0 inside)
    grid = numpy.array([[0, 0], [1, 0], [0, 2], [3, 1]])
    kw = {names[-1]: numpy.array([4, 5, 6])}                   # the keyword mapping of the function form numpoly.call(poly, args, kwargs)
    pargs = tuple(pts[: len(names) - 1])
    terms = {tuple(int(x) for x in e): c for e, c in zip(E, C)}
    operands = [p, p + 1]
    axes = numpy.array([-1, 0])                                 # parameters given as integer arrays (negative entries, not sorted)
    axis1 = numpy.array([-1])
    roots = numpy.array([3.0, -1.0, 2.0])
    reps, newshape, edge = numpy.array([2, 1]), numpy.array([-1]), numpy.array([5, -4, 9])
    wild = [numpy.array([1.5, numpy.nan, numpy.inf, -numpy.inf, -0.0]), numpy.array([numpy.nan, 2.0, -0.0, 7.5, numpy.inf])]
    negz = numpoly.polynomial_from_attributes([[0], [1]], [numpy.array([-0.0, 1.0, -0.0]), numpy.array([2.0, -0.0, 0.0])], ("q0",), retain_coefficients=True)
    held = {"E": E, "C": C, "mask": mask, "pts": pts, "idx": idx, "p": p, "lo": lo, "hi": hi, "grid": grid, "wild": wild, "negz": negz,
            "kw": kw, "pargs": pargs, "terms": terms, "operands": operands, "axes": axes, "axis1": axis1, "roots": roots,
            "reps": reps, "newshape": newshape, "edge": edge}
    before = {k: snapshot(v) for k, v in held.items()}
    route = inp["route"]
    try:
        if route == "ndpoly":
            numpoly.ndpoly(exponents=E, shape=shape)
            numpoly.ndpoly(exponents=E, shape=shape)          # the table is reused by the caller
        elif route == "ndpoly_names":
            numpoly.ndpoly(exponents=E, shape=shape, names=names)
        elif route == "from_attributes_retain":
            numpoly.polynomial_from_attributes(E, C, names, retain_coefficients=True, retain_names=True)
        elif route == "from_attributes":
            numpoly.polynomial_from_attributes(E, C, names)
        elif route == "polynomial_dict":
            numpoly.polynomial({tuple(int(x) for x in e): c for e, c in zip(E, C)}, names=names)
        elif route == "multiply_where":
            numpoly.multiply(p, p + 1, where=mask)
        elif route == "add_where":
            numpoly.add(p, p, where=mask if mask.shape else True)
        elif route == "call_arrays":
            p(*pts)
        elif route == "getitem_index":
            p[idx] if p.shape else None
        elif route == "where_cond":
            numpoly.where(mask, p, p * 2)
        elif route == "choose_index":
            numpoly.choose(numpy.zeros(shape, dtype=int), [p, p + 1]) if p.shape else None
        elif route == "repeat_counts":
            numpoly.repeat(p, numpy.array([1] * p.shape[0]), axis=0) if p.shape else None
        elif route == "monomial_bounds":
            numpoly.monomial(numpy.array([0, 0]), numpy.array([2, 3]))
        elif route == "glexsort_keys":
            numpoly.glexsort(E.T, graded=True, reverse=True)
        elif route == "glexindex_bounds":
            numpoly.glexindex(lo, hi, cross_truncation=rng_choice(inp, [1.0, 0, 2.0]))
            numpoly.glexindex(lo, hi, graded=True, reverse=True)
        elif route == "bindex_bounds":
            numpoly.bindex(lo, hi, ordering="GR")
        elif route == "cross_truncate_args":
            numpoly.cross_truncate(grid, hi, 1.0)
            numpoly.cross_truncate(grid, lo, 0)
        elif route == "lead_sortable_args":
            numpoly.lead_exponent(p), numpoly.lead_coefficient(p), numpoly.sortable_proxy(p)
        elif route == "call_function_form":
            numpoly.call(p, pargs, kw)
            numpoly.call(p, pargs, kw)                          # the caller's mapping is reused
        elif route == "polynomial_dict_kept":
            numpoly.polynomial(terms, names=names)
            numpoly.polynomial(terms, names=names)
        elif route == "list_arguments":
            numpoly.concatenate(operands), numpoly.align_polynomials(*operands), numpoly.sum(operands, axis=0)
            numpoly.polynomial(operands)
        elif route == "axis_arrays":
            m = numpoly.polynomial([[p.ravel()[0] if p.size else 1, 2], [3, 4]])
            for f in ("prod", "sum", "mean"):
                for call in (lambda: getattr(numpoly, f)(m, axis=axes), lambda: getattr(numpy, f)(m, axis=tuple(axes)),
                             lambda: getattr(numpoly, f)(m, axis=axis1), lambda: getattr(m, f)(axis=axes)):
                    try:
                        call()
                    except Exception:
                        pass
        elif route == "from_roots_array":
            numpoly.polynomial_from_roots(roots)
            numpoly.polynomial_from_roots(roots.astype(int))
        elif route == "shape_arrays":
            m = numpoly.polynomial([[1, 2], [3, p.ravel()[0] if p.size else 4]])
            numpoly.tile(m, reps), numpoly.reshape(m, newshape), numpoly.repeat(m, reps, axis=0), numpoly.full(reps, m[0, 0])
        elif route == "edge_arrays":
            v = numpoly.polynomial([1, p.ravel()[0] if p.size else 2, 3])
            numpoly.ediff1d(v, to_end=edge, to_begin=edge), numpoly.diff(v, prepend=edge, append=edge)
            numpoly.concatenate([v, edge]), numpoly.where(edge > 0, v, edge), numpoly.outer(v, edge), numpoly.inner(v, edge)
        elif route == "nonfinite_data_integer_target":
            import warnings
            with warnings.catch_warnings(), numpy.errstate(all="ignore"):
                warnings.simplefilter("ignore")
                for call in (lambda: numpoly.polynomial(wild[0], dtype=int), lambda: numpoly.aspolynomial(wild[1], dtype="int32"),
                             lambda: numpoly.polynomial_from_attributes([[0], [1]], wild, ("q0",), dtype=int),
                             lambda: numpoly.polynomial({(0,): wild[0], (2,): wild[1]}, dtype="int64"),
                             lambda: numpoly.polynomial(wild[0]).astype(int)):
                    try:
                        call()
                    except Exception:
                        pass
        elif route == "negative_zero_savetxt":
            import io
            numpoly.savetxt(io.StringIO(), negz), numpy.savetxt(io.StringIO(), negz), numpoly.savetxt(io.StringIO(), -negz, fmt="%g")
            str(negz), repr(negz), numpoly.sum(negz), negz.round(2), numpoly.isclose(negz, 0), negz.tonumpy() if negz.isconstant() else None
        elif route == "savetxt_none":
            import io
            numpoly.savetxt(io.StringIO(), p)
    except Exception:
        pass
    for k, v in held.items():
        if snapshot(v) != before[k]:
            return f"argument `{k}` modified by route {route}"
    return None


def gen_all(tier, rng):
    yield from gen(tier, rng)
    yield from gen_negligible(tier, rng)


@check("C17", "arguments.unchanged", gen_all, functions=(),
       note="bounded: 54 unary and 40 binary public operations (incl. display with small-number suppression and operations on "
            "operands that are already aligned with each other; divisions with a negligible leading coefficient) (functions, operators, methods, properties) on polynomials, "
            "views of polynomials, plain arrays; byte-level snapshot before/after on normal and exceptional exits")
def arguments_unchanged(inp):
    import numpoly
    a = operand({"poly": inp["a"]})
    if inp["view"] and a.shape:
        a = a.T if a.ndim > 1 else a.ravel()          # numpy-level views sharing the original buffer
    b = operand(inp["b"]) if "b" in inp else None
    if inp["op"].endswith("_prealigned"):
        # operands that are ALREADY aligned with each other (same names, shape, exponent table): nothing needs to be copied to
        # align them, which is when a function is tempted to work on the caller's own object
        a, b = numpoly.align_polynomials(a, b)
    sa, sb = snapshot(a), (snapshot(b) if b is not None else None)
    exc = None
    try:
        if b is None:
            unary(inp["op"], a, numpoly)
        else:
            binary(inp["op"], a, b, numpoly)
    except Exception as e:      # exceptional exit: arguments must be intact as well
        exc = e
    how = f" (call raised {type(exc).__name__})" if exc is not None else ""
    if snapshot(a) != sa:
        return f"first argument modified by {inp['op']}{how}"
    if b is not None and snapshot(b) != sb:
        return f"second argument modified by {inp['op']}{how}"
    return None
