"""C02 run-time contracts: evaluation and substitution (`poly(...)`, `numpoly.call`) against exact
evaluation / substitution on the sparse-polynomial oracle.  Bounded stand-in: the dtype promotion of
numpy scalars and the outer/reshape shape algebra inside `call` are outside the prover's reach."""
from __future__ import annotations
from fractions import Fraction
import numpy
from .common import check
from .gen import rand_poly, nested, count
from .model import build, spec_model, from_any, same, describe
from .wf import wf, denotes, snapshot, unchanged, install_poison

# values whose powers up to 3 stay exactly representable in the carrying type
INT_POOL = {"int8": [-5, -2, -1, 0, 1, 2, 5], "int16": [-7, -1, 0, 2, 7], "int32": [-7, -1, 0, 3, 7],
            "int64": [-7, -2, -1, 0, 1, 3, 7], "uint8": [0, 1, 2, 6], "uint16": [0, 1, 3, 7], "uint32": [0, 1, 2, 7],
            "uint64": [0, 1, 2, 7]}
FLOAT_POOL = [-1.5, -1.0, -0.5, 0.0, 0.5, 1.0, 2.0]
FAMILIES = [[(), (1,), (3,), (2, 1), (1, 3), (2, 3), (2, 1, 3)], [(), (1,), (2,), (1, 2), (2, 1), (2, 2)]]
PSHAPES = [(), (1,), (2,), (2, 2), (1, 2), (2, 1, 2)]


# ------------------------------------------------------------------ argument specs
def rand_scalar(rng, complex_ok=False, wide=False):
    r = rng.random()
    if r < 0.3:
        return {"k": "py", "t": "int", "v": rng.choice(INT_POOL["int64"])}
    if r < 0.4:
        return {"k": "py", "t": "float", "v": rng.choice(FLOAT_POOL)}
    if r < 0.45:
        return {"k": "py", "t": "bool", "v": rng.random() < 0.5}
    if r < 0.5 and complex_ok:
        return {"k": "py", "t": "complex", "v": [rng.choice([-1, 0, 1, 2]), rng.choice([-2, 1])]}
    t = rng.choice(["int64", "float64"] if wide else list(INT_POOL) + ["float32", "float64"])
    return {"k": "np", "t": t, "v": rng.choice(INT_POOL.get(t, FLOAT_POOL))}


def rand_array(rng, shape):
    t = rng.choice(list(INT_POOL) + ["float32", "float64", "int64", "int64"])
    return {"k": "arr", "t": t, "v": nested(rng, tuple(shape), INT_POOL.get(t, FLOAT_POOL))}


def rand_numeric(rng, family, p_array=0.4, complex_ok=False):
    if rng.random() < p_array:
        return rand_array(rng, rng.choice(family))
    return rand_scalar(rng, complex_ok)


def mk(a):
    """The argument object of a JSON argument spec."""
    k = a["k"]
    if k == "none":
        return None
    if k == "py":
        return complex(*a["v"]) if a["t"] == "complex" else {"int": int, "float": float, "bool": bool}[a["t"]](a["v"])
    if k == "np":
        return numpy.dtype(a["t"]).type(a["v"])
    if k == "arr":
        return numpy.array(a["v"], dtype=a["t"])
    if k == "seq":
        def seq(v):
            return {"list": list, "tuple": tuple}[a["as"]](seq(x) for x in v) if isinstance(v, list) else \
                {"int64": int, "float64": float}[a["t"]](v)
        return seq(a["v"])
    return build(a["p"])


def arg_model(a):
    return spec_model(a["p"]) if a["k"] == "poly" else from_any(mk(a))


def place(rng, names, assign):
    """Distribute an assignment name -> argspec over positional (None placeholders) and keyword form."""
    k = rng.randint(0, len(names))
    pos = [assign.get(n, {"k": "none"}) for n in names[:k]]
    while pos and pos[-1]["k"] == "none" and rng.random() < 0.5:
        pos.pop()
    kw = {n: assign[n] for n in names[k:] if n in assign}
    return {"pos": pos, "kw": kw, "via": rng.choice(["call", "call", "numpoly.call"])}


def invoke(p, how):
    import numpoly
    pos = [mk(a) for a in how["pos"]]
    kw = {n: mk(a) for n, a in how["kw"].items()}
    return p(*pos, **kw) if how["via"] == "call" else numpoly.call(p, pos, kw)


def assignment(names, how):
    out = {n: a for n, a in zip(names, how["pos"]) if a["k"] != "none"}
    out.update(how["kw"])
    return out


def expected(pm, assign):
    """Oracle: element [i + j] = pm[i] with every supplied name replaced by its argument at broadcast index j."""
    ams = {n: arg_model(a) for n, a in assign.items()}
    bshape = numpy.broadcast_shapes(*[m.shape for m in ams.values()]) if ams else ()
    bc = {n: numpy.broadcast_to(m, bshape) for n, m in ams.items()}
    out = numpy.empty(pm.shape + bshape, dtype=object)
    for i in numpy.ndindex(*pm.shape):
        for j in numpy.ndindex(*bshape):
            out[i + j] = pm[i].subs({n: m[j] for n, m in bc.items()})
    return out


def plain_equals(r, want, what="result"):
    """r is a plain array / numpy scalar (not a polynomial) holding exactly the constants `want`."""
    import numpoly
    if isinstance(r, numpoly.ndpoly) or not isinstance(r, (numpy.ndarray, numpy.generic)):
        return f"{what}: {type(r).__name__} returned where a plain array is expected"
    if numpy.shape(r) != want.shape:
        return f"{what}: shape {numpy.shape(r)}, expected {want.shape}"
    if numpy.asarray(r).dtype != object and not numpy.all(numpy.isfinite(r)):
        return f"{what}: non-finite values {numpy.asarray(r).tolist()}"
    got = from_any(r)
    if not same(got, want):
        return f"{what}: values {describe(got)}, expected {describe(want)}"
    return None


def matches(r, want, what="result"):
    """Substituted polynomial (or, when nothing symbolic is left, possibly a plain array) denotes `want`."""
    import numpoly
    if isinstance(r, numpoly.ndpoly):
        return wf(r, what) or denotes(r, want, what)
    return plain_equals(r, want, what)


# ------------------------------------------------------------------ full numeric evaluation
def gen_numeric(tier, rng):
    for _ in range(count(tier, 250, 2500)):
        p = rand_poly(rng, shape=rng.choice(PSHAPES), dtype=rng.choice(["int64", "int64", "float64"]))
        fam = rng.choice(FAMILIES)
        assign = {n: rand_numeric(rng, fam, complex_ok=True) for n in p["names"]}
        yield {"p": p, "how": place(rng, p["names"], assign)}


@check("C02", "call.numeric_full", gen_numeric, functions=("numpoly.call", "numpoly.ndpoly.__call__"),
       note="bounded: polynomials with <=3 terms, <=3 indeterminates, exponents<=3, 6 shapes up to (2,1,2), int64/float64 "
            "coefficients; every indeterminate supplied (positional / keyword / None-padded mixes) as Python int/float/bool/"
            "complex, numpy int8..int64, uint8..uint64, float32/64 scalars, or arrays of those dtypes with shapes () .. (2,1,3) "
            "that broadcast; values chosen so that powers <=3 are exact in the carrying type; exact comparison")
def numeric_full(inp):
    install_poison()
    p = build(inp["p"])
    before = snapshot(p)
    r = invoke(p, inp["how"])
    want = expected(spec_model(inp["p"]), assignment(inp["p"]["names"], inp["how"]))
    return plain_equals(r, want) or unchanged(before, p, "polynomial")


# ------------------------------------------------------------------ array points spelled as Python sequences
def gen_sequences(tier, rng):
    for _ in range(count(tier, 120, 1200)):
        p = rand_poly(rng, shape=rng.choice(PSHAPES), dtype=rng.choice(["int64", "int64", "float64"]))
        fam = [s for s in rng.choice(FAMILIES) if s]
        assign, some = {}, False
        for n in p["names"]:
            if some and rng.random() < 0.4:
                assign[n] = rand_numeric(rng, fam + [()])
                continue
            t = rng.choice(["int64", "int64", "float64"])
            assign[n] = {"k": "seq", "t": t, "as": rng.choice(["list", "tuple"]),
                         "v": nested(rng, tuple(rng.choice(fam)), INT_POOL.get(t, FLOAT_POOL))}
            some = True
        yield {"p": p, "how": place(rng, p["names"], assign)}


@check("C02", "call.sequence_points", gen_sequences, functions=("numpoly.call", "numpoly.ndpoly.__call__"),
       note="bounded: polynomial space of call.numeric_full; at least one indeterminate is given an array point spelled as a "
            "(nested) Python list or tuple of ints or floats, shapes (1,) .. (2,1,3), the others likewise or numbers / numpy arrays; "
            "same oracle and exact comparison as call.numeric_full (the value of numpy.asarray(sequence) is the point)")
def sequence_points(inp):
    install_poison()
    p = build(inp["p"])
    before = snapshot(p)
    r = invoke(p, inp["how"])
    want = expected(spec_model(inp["p"]), assignment(inp["p"]["names"], inp["how"]))
    return plain_equals(r, want) or unchanged(before, p, "polynomial")


# ------------------------------------------------------------------ type independence
def gen_types(tier, rng):
    for _ in range(count(tier, 60, 600)):
        p = rand_poly(rng, shape=rng.choice(PSHAPES[:4]), dtype=rng.choice(["int64", "float64"]))
        vals = {n: rng.choice([-2, -1, -1, 0, 1, 2, 3]) for n in p["names"]}
        variants = [[{"k": "py", "t": "int", "v": vals[n]} for n in p["names"]],
                    [{"k": "np", "t": "int64", "v": vals[n]} for n in p["names"]],
                    [{"k": "py", "t": "float", "v": float(vals[n])} for n in p["names"]]]
        for _ in range(4):
            row = []
            for n in p["names"]:
                ts = [t for t in list(INT_POOL) + ["float32", "float64"] if vals[n] >= 0 or not t.startswith("u")]
                t = rng.choice(ts)
                row.append(rng.choice([{"k": "np", "t": t, "v": vals[n]}, {"k": "arr", "t": t, "v": vals[n]},
                                       {"k": "arr", "t": t, "v": [vals[n]]}]))
            variants.append(row)
        yield {"p": p, "variants": variants}


@check("C02", "call.type_independence", gen_types, functions=("numpoly.call",),
       note="bounded: same integer point (-2..3 per indeterminate) carried as Python int, numpy.int64, Python float and 4 random "
            "mixes of numpy scalar / 0-d / 1-element arrays of int8..uint64, float32/64; all results numerically equal to the "
            "oracle value and to each other")
def type_independence(inp):
    install_poison()
    p = build(inp["p"])
    pm, names = spec_model(inp["p"]), inp["p"]["names"]
    first = None
    for row in inp["variants"]:
        assign = dict(zip(names, row))
        r = p(*[mk(a) for a in row])
        what = "arguments " + ", ".join(f"{a['t']}:{a['v']}" for a in row)
        msg = plain_equals(r, expected(pm, assign), what)
        if msg:
            return msg
        flat = numpy.asarray(r).reshape(-1)
        if first is not None and not numpy.array_equal(flat, first):
            return f"{what}: values {flat.tolist()} differ from {first.tolist()} obtained with Python ints"
        first = flat if first is None else first
    return None


# ------------------------------------------------------------------ partial application / polynomial arguments
def rand_poly_arg(rng, names, shapes=((), (), (), (2,))):
    if rng.random() < 0.35:      # bare indeterminate: renamings and swaps q0 <-> q1
        n = rng.choice(names)
        return {"k": "poly", "p": {"names": [n], "exponents": [[1]], "coefficients": [1], "dtype": "int64"}}
    sub = sorted(rng.sample(names, rng.randint(1, min(2, len(names)))))
    return {"k": "poly", "p": rand_poly(rng, shape=rng.choice(shapes), names=sub, maxterms=2, maxexp=2,
                                        dtype=rng.choice(["int64", "int64", "float64"]))}


def gen_partial(tier, rng):
    for _ in range(count(tier, 200, 2000)):
        p = rand_poly(rng, shape=rng.choice(PSHAPES[:5]), dtype=rng.choice(["int64", "int64", "float64"]))
        fam = rng.choice([[(), (2,), (1,)], [(), (2,), (2, 1)]])
        assign = {}
        for n in p["names"]:
            r = rng.random()
            if r < 0.35:
                assign[n] = rand_poly_arg(rng, ["q0", "q1", "q2"])
            elif r < 0.7:
                assign[n] = rand_numeric(rng, fam, p_array=0.3)
        if len(assign) == len(p["names"]) and all(a["k"] != "poly" for a in assign.values()):
            del assign[rng.choice(p["names"])]
        if rng.random() < 0.15 and len(p["names"]) >= 2:     # swap of two indeterminates
            a, b = rng.sample(p["names"], 2)
            assign = {a: rand_poly_arg(rng, [b]), b: rand_poly_arg(rng, [a])}
        yield {"p": p, "how": place(rng, p["names"], assign)}


@check("C02", "call.partial_and_polynomial", gen_partial, functions=("numpoly.call", "numpoly.outer", "numpoly.align_indeterminants"),
       note="bounded: polynomial space of call.numeric_full with shapes up to (1,2); each indeterminate left out / None, given a "
            "number or array (shapes (),(1,),(2,),(2,1)) or a polynomial (<=2 terms, exponents<=2, shape () or (2,), including bare "
            "indeterminates and swaps); result compared with exact substitution on the oracle, shape poly.shape+broadcast(args)")
def partial_and_polynomial(inp):
    install_poison()
    p = build(inp["p"])
    before = snapshot(p)
    r = invoke(p, inp["how"])
    want = expected(spec_model(inp["p"]), assignment(inp["p"]["names"], inp["how"]))
    return matches(r, want) or unchanged(before, p, "polynomial")


# ------------------------------------------------------------------ staged evaluation
def gen_staged(tier, rng):
    for _ in range(count(tier, 180, 1800)):
        # (names whose numeric order is not their string order - q2 before q10 - in a third of the inputs)
        U = rng.choice([["q0", "q1", "q2"], ["q0", "q1", "q2"], ["q1", "q2", "q10"]])
        p = rand_poly(rng, shape=rng.choice(PSHAPES[:5]), dtype=rng.choice(["int64", "int64", "float64"]),
                      names=sorted(rng.sample(U, rng.choice([2, 2, 3])), key=lambda n: int(n[1:])))
        names = p["names"]
        first = rng.sample(names, rng.randint(1, len(names) - 1))
        arrays_in = rng.choice([0, 1, 2])         # which stage may carry arrays (shapes stay comparable)
        fam = rng.choice(FAMILIES)
        mode = rng.choice(["numeric", "numeric", "polynomial"])
        stage1 = {n: (rand_poly_arg(rng, U, [()]) if mode == "polynomial" and rng.random() < 0.7 else
                      rand_numeric(rng, fam, p_array=0.5 if arrays_in == 1 and mode == "numeric" else 0.0)) for n in first}
        stage2 = {n: (rand_numeric(rng, fam, p_array=0.5 if arrays_in == 2 and n in names and n not in first else 0.0)
                      if mode == "numeric" else rand_scalar(rng, wide=True)) for n in U}   # wide: degree grows
        if rng.random() < 0.15:
            # tiny non-constant coefficients: the intermediate result must stay a polynomial
            def scale(c):
                return [scale(x) for x in c] if isinstance(c, list) else c * 2.0 ** -30
            p["coefficients"] = [c if not any(e) else scale(c) for e, c in zip(p["exponents"], p["coefficients"])]
            p["dtype"] = "float64"
        yield {"p": p, "first": place(rng, names, stage1), "second": stage2, "positional": rng.random() < 0.4}


@check("C02", "call.staged", gen_staged, functions=("numpoly.call",),
       note="bounded: 2-3 indeterminates; stage 1 supplies a proper subset (numbers, arrays, or scalar polynomials), stage 2 supplies "
            "every indeterminate left in the intermediate result (keyword, or positional over its names); arrays in at most one "
            "stage; both stages compared with the oracle and the final values with the one-step evaluation poly(all at once)")
def staged(inp):
    import numpoly
    install_poison()
    p = build(inp["p"])
    pm, names = spec_model(inp["p"]), inp["p"]["names"]
    a1 = assignment(names, inp["first"])
    r1 = invoke(p, inp["first"])
    want1 = expected(pm, a1)
    msg = matches(r1, want1, "stage 1")
    if msg or not isinstance(r1, numpoly.ndpoly):
        return msg
    left = list(r1.names)
    a2 = {n: inp["second"][n] for n in left if n in inp["second"]}
    # positional arguments of the second stage are given in the order a user knows: the indeterminates that are left, in the
    # numeric order of the names (the order of the polynomial they came from) - not in whatever order the intermediate lists them
    left = sorted(left, key=lambda n: int(n[1:]))
    r2 = r1(*[mk(a2[n]) for n in left]) if inp["positional"] and len(a2) == len(left) else r1(**{n: mk(a) for n, a in a2.items()})
    want2 = expected(want1, a2)
    msg = matches(r2, want2, "stage 2")
    if msg:
        return msg
    if all(a["k"] != "poly" for a in a1.values()) and set(a2) >= set(names):
        once = p(**{n: mk(a1.get(n, a2.get(n))) for n in names})
        if numpy.shape(once) != numpy.shape(r2) or not numpy.array_equal(numpy.asarray(once), numpy.asarray(r2)):
            return f"staged values {numpy.asarray(r2).tolist()} differ from one-step values {numpy.asarray(once).tolist()}"
    return None


# ------------------------------------------------------------------ TypeError clauses
def gen_errors(tier, rng):
    for _ in range(count(tier, 60, 400)):
        p = rand_poly(rng, shape=rng.choice(PSHAPES[:4]))
        names = p["names"]
        if rng.random() < 0.5:
            unknown = rng.choice([n for n in ["q0", "q1", "q2", "q3", "q10"] if n not in names])
            k = rng.randint(0, len(names))
            yield {"p": p, "pos": [rand_scalar(rng) for _ in names[:k]], "kw": {unknown: rand_scalar(rng)}, "why": "unknown"}
        else:
            k = rng.randint(1, len(names))
            dup = rng.choice(names[:k])
            kw = {n: rand_scalar(rng) for n in names[k:] if rng.random() < 0.5}
            kw[dup] = rand_numeric(rng, FAMILIES[1], p_array=0.2)
            yield {"p": p, "pos": [rand_scalar(rng) for _ in names[:k]], "kw": kw, "why": "double"}


@check("C02", "call.type_errors", gen_errors, functions=("numpoly.call",),
       note="bounded: one unknown keyword name (q-name outside poly.names), or one name given positionally (non-None) and by "
            "keyword; exactly TypeError must be raised")
def type_errors(inp):
    p = build(inp["p"])
    try:
        r = p(*[mk(a) for a in inp["pos"]], **{n: mk(a) for n, a in inp["kw"].items()})
    except TypeError:
        return None
    except Exception as e:
        return f"{inp['why']} name: raised {type(e).__name__}: {e} instead of TypeError"
    return f"{inp['why']} name: no exception, returned {r!r}"


# ------------------------------------------------------------------ large Python ints
BIG = [2 ** 16 + 1, -70000, 2 ** 31, -2 ** 33, 2 ** 40, 2 ** 62, -2 ** 63, 2 ** 63 + 5]
I64 = (-2 ** 63, 2 ** 63 - 1)


def gen_bigint(want_range):
    """Python int arguments of magnitude > 2**16; `int64`: every term value and the result fit int64, `beyond`: not."""
    def gen(tier, rng):
        n = 0
        while n < count(tier, 60, 500):
            p = rand_poly(rng, shape=rng.choice(PSHAPES[:3]), names=["q0", "q1"][: rng.randint(1, 2)], maxexp=2)
            row = [{"k": "py", "t": "int", "v": rng.choice(BIG if rng.random() < 0.7 else INT_POOL["int64"])} for _ in p["names"]]
            if all(abs(a["v"]) < 2 ** 16 for a in row):
                continue
            vals = [a["v"] for a in row]
            sizes = [int(c) * int(numpy.prod([v ** e for v, e in zip(vals, es)], dtype=object))
                     for es, cs in zip(p["exponents"], p["coefficients"]) for c in numpy.ravel(cs)]
            sizes += [v ** max(es[i] for es in p["exponents"]) for i, v in enumerate(vals)]
            pm = expected(spec_model(p), dict(zip(p["names"], row)))
            sizes += [int(pm[idx].const_value()) for idx in numpy.ndindex(*pm.shape)]
            if all(I64[0] <= s <= I64[1] for s in sizes) == (want_range == "int64"):
                n += 1
                yield {"p": p, "args": row}
    return gen


def python_int(inp):
    p = build(inp["p"])
    want = expected(spec_model(inp["p"]), dict(zip(inp["p"]["names"], inp["args"])))
    try:
        r = p(*[a["v"] for a in inp["args"]])
    except Exception as e:
        return f"poly({', '.join(str(a['v']) for a in inp['args'])}) raised {type(e).__name__}: {e}"
    if numpy.asarray(r).dtype.kind != "f":
        return plain_equals(r, want)
    if numpy.shape(r) != want.shape:
        return f"shape {numpy.shape(r)}, expected {want.shape}"
    for idx in numpy.ndindex(*want.shape):
        w, g = want[idx].const_value(), Fraction(float(numpy.asarray(r)[idx]))
        if abs(g - w) > Fraction(1, 10 ** 12) * abs(w):
            return f"element {idx}: {float(g)!r}, exact value {w}"
    return None


check("C02", "call.python_int_large", gen_bigint("int64"), functions=("numpoly.call",),
      note="bounded: 1-2 indeterminates, exponents<=2, int64 coefficients, Python int arguments of magnitude 2**16 .. 2**63 "
           "with every power, term value and result inside int64; exact comparison")(python_int)

# (A check `call.python_int_beyond_int64` demanding exact results for values outside int64 was removed:
#  fixed-width machine arithmetic is numpy's documented behaviour and C02 does not promise more; see DESIGN.md.)
