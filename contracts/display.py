"""C16 (order clause only): static obligations on numpoly/array_function/array_repr.py::_to_string, decided from the
AST on every run.  The denotation clause of C16 ("the text reads back as the polynomial") depends on str(number),
numpy.array2string and a parser: no contract within the solver's reach expresses it, it is a bounded run-time check.

What is established: the terms are visited in the order numpoly.glexsort returns for the exponent rows with
graded=options["display_graded"], reverse=options["display_reverse"] (glexsort's contract is proved under C18),
reversed exactly when options["display_inverse"] is set, and the option map is the one returned by get_options().
"""
from __future__ import annotations
import ast
import os


def _is_opt(node, key, optvar="options"):
    return (isinstance(node, ast.Subscript) and isinstance(node.value, ast.Name) and node.value.id == optvar
            and isinstance(node.slice, ast.Constant) and node.slice.value == key)


def static_obligations(repo):
    rel = "numpoly/array_function/array_repr.py"
    out = []
    try:
        tree = ast.parse(open(os.path.join(repo, rel)).read())
    except (OSError, SyntaxError):
        return [("display.parse", False, rel, 0)]
    fn = next((n for n in tree.body if isinstance(n, ast.FunctionDef) and n.name == "_to_string"), None)
    if fn is None:
        return [("display._to_string_present", False, rel, 0)]
    body = fn.body
    # options = numpoly.get_options()
    opt_assign = [s for s in ast.walk(fn) if isinstance(s, ast.Assign) and len(s.targets) == 1 and isinstance(s.targets[0], ast.Name)
                  and s.targets[0].id == "options"]
    ok_opts = len(opt_assign) == 1 and isinstance(opt_assign[0].value, ast.Call) and ast.unparse(opt_assign[0].value.func) == "numpoly.get_options" \
        and not opt_assign[0].value.args and not opt_assign[0].value.keywords
    out.append(("display.options_are_the_current_global_options", ok_opts, rel, opt_assign[0].lineno if opt_assign else fn.lineno))
    # indices = numpoly.glexsort(exponents.T, graded=options["display_graded"], reverse=options["display_reverse"])
    sorts = [s for s in ast.walk(fn) if isinstance(s, ast.Call) and ast.unparse(s.func).endswith("glexsort")]
    ok_sort = False
    line = fn.lineno
    if len(sorts) == 1:
        c = sorts[0]
        line = c.lineno
        kw = {k.arg: k.value for k in c.keywords}
        ok_sort = (ast.unparse(c.func) == "numpoly.glexsort" and len(c.args) == 1 and ast.unparse(c.args[0]) == "exponents.T"
                   and set(kw) == {"graded", "reverse"} and _is_opt(kw["graded"], "display_graded") and _is_opt(kw["reverse"], "display_reverse"))
    out.append(("display.order_is_glexsort_with_the_display_options", ok_sort, rel, line))
    # exponents = poly.exponents(.copy())
    exps = [s for s in body if isinstance(s, ast.Assign) and isinstance(s.targets[0], ast.Name) and s.targets[0].id == "exponents"]
    ok_exp = len([s for s in ast.walk(fn) if isinstance(s, ast.Assign) and any(isinstance(t, ast.Name) and t.id == "exponents" for t in s.targets)]) == 1 \
        and exps and ast.unparse(exps[0].value) in ("poly.exponents.copy()", "poly.exponents")
    out.append(("display.sorted_rows_are_the_exponent_rows", bool(ok_exp), rel, exps[0].lineno if exps else fn.lineno))
    # the only other assignment to indices: `if options["display_inverse"]: indices = indices[::-1]`
    assigns = [s for s in ast.walk(fn) if isinstance(s, ast.Assign) and any(isinstance(t, ast.Name) and t.id == "indices" for t in s.targets)]
    ifs = [s for s in body if isinstance(s, ast.If) and _is_opt(s.test, "display_inverse")]
    ok_inv = (len(assigns) == 2 and len(ifs) == 1 and len(ifs[0].body) == 1 and not ifs[0].orelse
              and isinstance(ifs[0].body[0], ast.Assign) and ast.unparse(ifs[0].body[0]) == "indices = indices[::-1]")
    out.append(("display.reversed_exactly_when_display_inverse", ok_inv, rel, ifs[0].lineno if ifs else fn.lineno))
    # the term loop runs over indices, in that order, and appends one chunk per visited term
    loops = [s for s in body if isinstance(s, ast.For)]
    ok_loop = len(loops) == 1 and ast.unparse(loops[0].iter) == "indices" and isinstance(loops[0].target, ast.Name) and \
        any(isinstance(s, ast.Expr) and ast.unparse(s.value) == "output.append(out)" for s in loops[0].body) and \
        not any(isinstance(s, ast.Call) and ast.unparse(s.func) in ("output.insert", "output.sort", "output.reverse", "sorted", "reversed")
                for s in ast.walk(fn))
    out.append(("display.terms_emitted_in_sorted_order", ok_loop, rel, loops[0].lineno if loops else fn.lineno))
    # to_string joins the chunks in list order
    ts = next((n for n in tree.body if isinstance(n, ast.FunctionDef) and n.name == "to_string"), None)
    ok_join = ts is not None and any(isinstance(s, ast.Return) and s.value is not None and ast.unparse(s.value) == "''.join(output)"
                                     for s in ast.walk(ts))
    out.append(("display.chunks_joined_in_order", ok_join, rel, ts.lineno if ts else 0))
    return out


# ====================================================================== denotation of the text of ONE polynomial (C16)
import z3
from engine.contract import Contract, Case
from engine.sx import LoopSpec
from engine import values as V
from engine.values import U
from engine.logic import I, R, Name, expo
from engine.polymodel import Poly, Region, nat, shape_axioms, mono_axioms, the_idx, shp0
from engine.sortmodel import order_axioms, IntVec
from engine.textmodel import Text


class ScalarCoefs:
    """`poly.coefficients` of a 0-d polynomial: a list of 0-d arrays, each used as a number (truth value, ==, abs, <, str)"""

    def __init__(self, P):
        self.P = P

    def sx_getitem(self, ex, idx, node):
        if isinstance(idx, (int, z3.ArithRef)):
            ex.oblige(f"pre({ex.site('coefficient')}).term_exists", z3.And(0 <= idx, idx < self.P.N), "index", node)
            return self.P.C(idx, the_idx(self.P.shape))
        raise U("coefficient list index", node)


class Poly0d:
    """the `poly` argument of _to_string: one polynomial (0-d ndpoly); only the attributes the function reads"""

    def __init__(self, ex, P, names):
        self.P, self.names = P, names

    def sx_getattr(self, ex, attr, node):
        if attr == "exponents":
            return self.P.sx_getattr(ex, "exponents", node)
        if attr == "coefficients":
            return ScalarCoefs(self.P)
        if attr == "names":
            return self.names
        raise U(f"attribute {attr} of the polynomial in _to_string", node)


class ChunkList:
    """the list of text chunks (`output`): only its emptiness is read; every append is checked where it happens"""

    def __init__(self, ex, on_append):
        self.L = ex.ctx.int("chunks_so_far")
        ex.ctx.assume(self.L >= 0)
        self.on_append = on_append
        self.appended = []

    def sx_truth(self, ex):
        return self.L > 0

    def sx_getattr(self, ex, attr, node):
        return V.BoundMethod(self, attr)

    def sx_method(self, ex, attr, args, kw, node):
        if attr == "append" and len(args) == 1 and not kw:
            self.on_append(ex, self, args[0], node)
            self.appended.append(args[0])
            return None
        raise U(f"list.{attr} on the chunk list", node)


def read_chunk(x):
    """Independent reading of one chunk of text (token level): [+] [-] [number] then factors name[<exp>int] separated by <mul>.
    Returns dict(plus, minus, coef (z3 real or None), factors [(name term, exponent term or 1)], error)"""
    toks = list(x.toks) if isinstance(x, Text) else ([("lit", x)] if x else [])
    out = dict(plus=False, minus=False, coef=None, factors=[], error=None)
    if toks and toks[0][0] == "lit":
        s = toks[0][1]
        if s.startswith("+"):
            out["plus"], s = True, s[1:]
        if s.startswith("-"):
            out["minus"], s = True, s[1:]
        if s:
            out["error"] = f"unexpected literal text {s!r}"
            return out
        toks = toks[1:]
    if toks and toks[0][0] == "num":
        if out["minus"]:
            out["error"] = "a literal '-' in front of a printed number"
            return out
        out["coef"] = toks[0][1]
        toks = toks[1:]
        need_mul = True
    else:
        need_mul = False
    while toks:
        if need_mul:
            if toks[0] != ("opt", "display_multiply"):
                out["error"] = f"expected the multiplication sign, found {toks[0]}"
                return out
            toks = toks[1:]
        if not toks or toks[0][0] != "name":
            out["error"] = "expected an indeterminate name"
            return out
        name, e = toks[0][1], 1
        toks = toks[1:]
        if len(toks) >= 2 and toks[0] == ("opt", "display_exponent") and toks[1][0] == "int":
            e = toks[1][1]
            toks = toks[2:]
        out["factors"].append((name, e))
        need_mul = True
    return out


class ToStringBody(Contract):
    """_to_string(poly, precision, suppress_small) for ONE polynomial: every chunk appended to the output reads back (token
    level, reader above) as  sign * coefficient * prod name_d ** exponent_d  of the term it was emitted for; chunks after the
    first start with a sign; a term is skipped only if its coefficient is zero (or suppressed as small on request); every
    term is visited exactly once."""
    name = "numpoly.array_repr._to_string"
    relpath = "numpoly/array_function/array_repr.py"
    func = "_to_string"
    properties = ("C16",)
    positional = ("poly", "precision", "suppress_small")
    assumptions = ("text axioms (engine/textmodel.py): str(c) of a real number is never '', '+' or '-' and starts with '-' exactly when "
                   "c < 0; names are identifiers; A1 (real coefficients: complex and NaN coefficients are bounded only)",
                   "token-level reading: the option strings display_multiply / display_exponent are taken as separators that do not "
                   "occur inside numbers and names (the bounded check reads the real characters back)",
                   "coefficients of a 0-d polynomial behave as numbers (0-d arrays); number of indeterminates enumerated: 1, 2 (thorough tier: also 3; the loop over the indeterminates is unrolled; "
                   "more indeterminates repeat the body of the second: bounded check)")

    def _loops(self):
        def inv(ex, env, k):
            g = ex.ghost
            out = []
            cl = env.get("output")
            first_after_havoc = g.get("in_body") and not g.get("assumed")
            if first_after_havoc:
                g["assumed"] = True            # (the call that ASSUMES the invariant at the start of the arbitrary iteration)
            elif g.get("in_body"):
                # end of the iteration that visited term idx: either one chunk was appended, or the term may be left out
                idx = g["env"]["idx"]
                c = g["P"].C(idx, the_idx(g["P"].shape))
                n_app = len(cl.appended) if isinstance(cl, ChunkList) else -1
                small = z3.And(g["suppress_small"], z3.If(c >= 0, c, -c) < g["threshold"](ex)) if g["suppress_small"] is not False else z3.BoolVal(False)
                out.append(("term_left_out_only_if_zero_or_suppressed", z3.Or(z3.BoolVal(n_app == 1), z3.And(z3.BoolVal(n_app == 0), z3.Or(c == 0, small)))))
            out.append(("chunks_are_a_list", z3.BoolVal(isinstance(cl, (ChunkList, list)))))
            return out

        def havoc(ex, env, k):
            g = ex.ghost
            env["output"] = ChunkList(ex, g["on_append"])
            g["env"] = env
            g["in_body"], g["assumed"] = True, False

        def enter(ex, env, seq):
            g = ex.ghost
            P = g["P"]
            ctx = ex.ctx
            ok = isinstance(env.get("indices"), IntVec) and getattr(env["indices"], "inv", None) is not None
            ex.oblige("loop1.visits.order_is_a_permutation_from_glexsort", z3.BoolVal(ok), "post")
            if ok:
                iv = env["indices"]
                ex.oblige("loop1.visits.every_term_exactly_once", z3.And(iv.n == P.N, ctx.forall_range(0, P.N, lambda t: z3.And(
                    0 <= iv.inv(t), iv.inv(t) < P.N, iv.at(iv.inv(t)) == t))), "post",
                    note="the order visits every stored term (inverse permutation as witness)")
        return {1: LoopSpec(inv, havoc, modifies=("idx", "out", "exps_and_names", "exponent", "indeterminant"), enter=enter)}

    def cases(self):
        from engine.contract import deep
        for D in ((1, 2, 3) if deep() else (1, 2)):
            for ss in ("off", "symbolic"):
                def make_env(ex, D=D, ss=ss):
                    ctx = ex.ctx
                    for a in shape_axioms(ctx) + mono_axioms(ctx) + order_axioms(ctx):
                        ctx.assume(a)
                    P = Poly(ctx, "poly", D=D, shape=shp0, region=Region("caller", "poly"))
                    ctx.assume(P.wf(ctx))
                    from contracts.construct import keyok, eok_axioms
                    for a in eok_axioms():
                        ctx.assume(a)
                    ctx.assume(ctx.forall_range(0, P.N, lambda t: keyok(P.row(t), P.D)))       # stored exponents are >= 0
                    names = tuple(nat(P.names, d) for d in range(D))
                    precision = ctx.int("precision")
                    suppress = False if ss == "off" else ctx.bool("suppress_small")
                    ex.ghost = dict(P=P, names=names, D=D, suppress_small=suppress, on_append=self._on_append, in_body=False,
                                    threshold=lambda ex_: V.binop(ex_, "Pow", 10, -precision, None))
                    ex.hooks = {}
                    return {"poly": Poly0d(ex, P, names), "precision": precision, "suppress_small": suppress}

                def check(out):
                    ex = out.ex
                    ex.oblige(f"raises.nothing[{out.exc}]" if out.kind == "raise" else "raises.nothing", z3.BoolVal(out.kind == "return"), "post")
                    if out.kind != "return":
                        return
                    ex.oblige("post.returns_the_chunk_list", z3.BoolVal(isinstance(out.value, (ChunkList, list))), "post")
                yield Case(f"D={D},suppress_small={ss}", make_env, check, loops=self._loops())

    @staticmethod
    def _on_append(ex, cl, x, node):
        g = ex.ghost
        P, names = g["P"], g["names"]
        ctx = ex.ctx
        idx = g["env"].get("idx")
        g["idx"] = idx
        ok = isinstance(idx, z3.ArithRef) and isinstance(x, (Text, str))
        ex.oblige("chunk.is_text_for_the_visited_term", z3.BoolVal(ok), "post", node)
        if not ok:
            return
        ex.oblige("chunk.one_per_term", z3.BoolVal(len(cl.appended) == 0), "post", node)
        rd = read_chunk(x)
        ex.oblige("chunk.reads_back" + (f"[{rd['error']}]" if rd["error"] else ""), z3.BoolVal(rd["error"] is None), "post", node,
                  note="sign, optional number, then name[exponent] factors separated by the multiplication sign")
        if rd["error"]:
            return
        c = P.C(idx, the_idx(P.shape))
        if rd["coef"] is not None:
            value = rd["coef"]
        else:
            value = z3.RealVal(-1 if rd["minus"] else 1)
        ex.oblige("chunk.denotes.coefficient", value == c, "post", node,
                  note="the number printed (or the elided 1 / -1) is exactly the coefficient of the term")
        ex.oblige("chunk.denotes.not_empty", z3.BoolVal(rd["coef"] is not None or bool(rd["factors"])), "post", node,
                  note="an elided coefficient needs at least one indeterminate after it")
        for d in range(g["D"]):
            es = [e for (n, e) in rd["factors"] if z3.eq(n, names[d])]
            ex.oblige(f"chunk.denotes.at_most_one_factor[{d}]", z3.BoolVal(len(es) <= 1), "post", node)
            tot = sum([e if isinstance(e, z3.ExprRef) else z3.IntVal(e) for e in es], z3.IntVal(0))
            ex.oblige(f"chunk.denotes.exponent[{d}]", tot == expo(P.row(idx), d), "post", node,
                      note="the d-th indeterminate appears with exactly the stored exponent (absent iff the exponent is 0)")
        foreign = [n for (n, e) in rd["factors"] if not any(z3.eq(n, m) for m in names)]
        ex.oblige("chunk.denotes.only_the_polynomial_s_names", z3.BoolVal(not foreign), "post", node)
        neg = (rd["coef"] < 0) if rd["coef"] is not None else z3.BoolVal(rd["minus"])
        signed = z3.Or(z3.BoolVal(rd["plus"]), neg)
        ex.oblige("chunk.separator.later_chunks_start_with_a_sign", z3.Implies(cl.L > 0, signed), "post", node,
                  note="the chunks are joined without separator: each but the first must begin with + or -")
        ex.oblige("chunk.separator.plus_only_before_a_non_negative_term", z3.Implies(z3.BoolVal(rd["plus"]), z3.Not(neg)), "post", node)


class ChunkResult:
    """what _to_string(poly, precision, suppress_small) returns at a call site (its contract above): the list of chunks"""

    def __init__(self, ex, P, precision, suppress):
        self.P, self.precision, self.suppress = P, precision, suppress
        self.nonempty = ex.ctx.bool("some_chunk")

    def sx_truth(self, ex):
        return self.nonempty

    def sx_joined(self, ex, sep, node):
        return JoinedChunks(sep, self)


class JoinedChunks:
    def __init__(self, sep, chunks):
        self.sep, self.chunks = sep, chunks


class PrintOptions:
    """numpy.get_printoptions(): the current print settings (opaque values)"""

    def __init__(self):
        from contracts.shapefn import Tok
        self.vals = {"precision": Tok("printoptions.precision"), "suppress": Tok("printoptions.suppress")}

    def sx_getitem(self, ex, idx, node):
        if idx in self.vals:
            return self.vals[idx]
        raise U(f"print option {idx!r}", node)


def install_axioms(reg):
    @reg.axiom("numpy.get_printoptions")
    def _gp(ex, args, kw, node):
        if args or kw:
            raise U("numpy.get_printoptions with arguments", node)
        po = getattr(ex, "printoptions", None)
        if po is None:
            po = ex.printoptions = PrintOptions()
        return po


def _to_string_apply(ex, args, kw, node):
    b = dict(zip(ToStringBody.positional, args))
    b.update(kw)
    P = b.get("poly")
    if not isinstance(P, Poly) or set(b) != set(ToStringBody.positional):
        raise U("_to_string at a call site in this form", node)
    from engine.logic import ndim
    ex.oblige(f"pre({ex.site('_to_string')}).one_polynomial", ndim(P.shape) == 0, "precondition", node,
              note="_to_string formats ONE polynomial (0-d)")
    return ChunkResult(ex, P, b["precision"], b["suppress_small"])


ToStringBody.apply = lambda self, ex, args, kw, node: _to_string_apply(ex, args, kw, node)


class ToString(Contract):
    """to_string(poly, precision, suppress_small) for ONE polynomial (0-d): missing precision / suppress_small are taken from
    numpy's current print options; the text is the chunks of _to_string(poly, <those>) joined without separator, or - when no
    chunk is emitted - str() of the zero of the coefficient dtype; the polynomial is only read (C17: frame obligations).
    (n-d arrays recurse element by element through iteration: bounded check.)"""
    name = "numpoly.array_repr.to_string"
    relpath = "numpoly/array_function/array_repr.py"
    func = "to_string"
    properties = ("C16", "C17")
    positional = ("poly", "precision", "suppress_small")
    assumptions = ("0-d operand (arrays: element-wise recursion, bounded); contract of _to_string (proved above); numpy.get_printoptions "
                   "returns the current settings (opaque)",)

    def cases(self):
        from contracts.shapefn import Tok
        for label, given in (("defaults", False), ("given", True)):
            def make_env(ex, given=given):
                from contracts.baseclass import own_poly
                P = own_poly(ex, "poly", allocation=False)
                ex.ctx.assume(P.shape == shp0)
                ex.P = P
                ex.toks = (Tok("precision"), Tok("suppress_small")) if given else (None, None)
                return {"poly": P, "precision": ex.toks[0], "suppress_small": ex.toks[1]}

            def check(out, given=given):
                ex = out.ex
                P = ex.P
                ex.oblige(f"raises.nothing[{out.exc}]" if out.kind == "raise" else "raises.nothing", z3.BoolVal(out.kind == "return"), "post")
                if out.kind != "return":
                    return
                r = out.value
                if isinstance(r, JoinedChunks):
                    c = r.chunks
                    ex.oblige("post.chunks_joined_without_separator", z3.BoolVal(r.sep == ""), "post")
                    ex.oblige("post.chunks_of_this_polynomial", z3.BoolVal(c.P is P), "post")
                    if given:
                        okp = c.precision is ex.toks[0] and c.suppress is ex.toks[1]
                    else:
                        po = getattr(ex, "printoptions", None)
                        okp = po is not None and c.precision is po.vals["precision"] and c.suppress is po.vals["suppress"]
                    ex.oblige("post.precision_and_suppression_" + ("forwarded" if given else "from_the_print_options"), z3.BoolVal(bool(okp)), "post")
                    ex.oblige("post.joined_only_if_some_chunk", c.nonempty, "post")
                    return
                ok = isinstance(r, Text) and len(r.toks) == 1 and r.toks[0][0] == "num"
                ex.oblige("post.zero_text_when_no_chunk", z3.BoolVal(ok), "post")
                if ok:
                    ex.oblige("post.zero_text_is_the_number_zero", r.toks[0][1] == 0, "post")
            yield Case(label, make_env, check)

    def apply(self, ex, args, kw, node):
        raise U("to_string as a callee", node)


CONTRACTS = [ToStringBody(), ToString()]
