"""C16 (order clause only): static obligations on numpoly/array_function/array_repr.py::_to_string, decided from the
AST on every run.  The denotation clause of C16 ("the text reads back as the polynomial") depends on str(number),
numpy.array2string and a parser: no contract within the solver's reach expresses it, it is a bounded run-time check.

What is established: the terms are visited in the order numpoly.glexsort returns for the exponent rows with
graded=options["display_graded"], reverse=options["display_reverse"] (glexsort's contract is proved under C18),
reversed exactly when options["display_inverse"] is set, and the option map is the one returned by get_options().
"""
from __future__ import annotations
import ast
import os


def _is_opt(node, key, optvar="options"):
    return (isinstance(node, ast.Subscript) and isinstance(node.value, ast.Name) and node.value.id == optvar
            and isinstance(node.slice, ast.Constant) and node.slice.value == key)


def static_obligations(repo):
    rel = "numpoly/array_function/array_repr.py"
    out = []
    try:
        tree = ast.parse(open(os.path.join(repo, rel)).read())
    except (OSError, SyntaxError):
        return [("display.parse", False, rel, 0)]
    fn = next((n for n in tree.body if isinstance(n, ast.FunctionDef) and n.name == "_to_string"), None)
    if fn is None:
        return [("display._to_string_present", False, rel, 0)]
    body = fn.body
    # options = numpoly.get_options()
    opt_assign = [s for s in ast.walk(fn) if isinstance(s, ast.Assign) and len(s.targets) == 1 and isinstance(s.targets[0], ast.Name)
                  and s.targets[0].id == "options"]
    ok_opts = len(opt_assign) == 1 and isinstance(opt_assign[0].value, ast.Call) and ast.unparse(opt_assign[0].value.func) == "numpoly.get_options" \
        and not opt_assign[0].value.args and not opt_assign[0].value.keywords
    out.append(("display.options_are_the_current_global_options", ok_opts, rel, opt_assign[0].lineno if opt_assign else fn.lineno))
    # indices = numpoly.glexsort(exponents.T, graded=options["display_graded"], reverse=options["display_reverse"])
    sorts = [s for s in ast.walk(fn) if isinstance(s, ast.Call) and ast.unparse(s.func).endswith("glexsort")]
    ok_sort = False
    line = fn.lineno
    if len(sorts) == 1:
        c = sorts[0]
        line = c.lineno
        kw = {k.arg: k.value for k in c.keywords}
        ok_sort = (ast.unparse(c.func) == "numpoly.glexsort" and len(c.args) == 1 and ast.unparse(c.args[0]) == "exponents.T"
                   and set(kw) == {"graded", "reverse"} and _is_opt(kw["graded"], "display_graded") and _is_opt(kw["reverse"], "display_reverse"))
    out.append(("display.order_is_glexsort_with_the_display_options", ok_sort, rel, line))
    # exponents = poly.exponents(.copy())
    exps = [s for s in body if isinstance(s, ast.Assign) and isinstance(s.targets[0], ast.Name) and s.targets[0].id == "exponents"]
    ok_exp = len([s for s in ast.walk(fn) if isinstance(s, ast.Assign) and any(isinstance(t, ast.Name) and t.id == "exponents" for t in s.targets)]) == 1 \
        and exps and ast.unparse(exps[0].value) in ("poly.exponents.copy()", "poly.exponents")
    out.append(("display.sorted_rows_are_the_exponent_rows", bool(ok_exp), rel, exps[0].lineno if exps else fn.lineno))
    # the only other assignment to indices: `if options["display_inverse"]: indices = indices[::-1]`
    assigns = [s for s in ast.walk(fn) if isinstance(s, ast.Assign) and any(isinstance(t, ast.Name) and t.id == "indices" for t in s.targets)]
    ifs = [s for s in body if isinstance(s, ast.If) and _is_opt(s.test, "display_inverse")]
    ok_inv = (len(assigns) == 2 and len(ifs) == 1 and len(ifs[0].body) == 1 and not ifs[0].orelse
              and isinstance(ifs[0].body[0], ast.Assign) and ast.unparse(ifs[0].body[0]) == "indices = indices[::-1]")
    out.append(("display.reversed_exactly_when_display_inverse", ok_inv, rel, ifs[0].lineno if ifs else fn.lineno))
    # the term loop runs over indices, in that order, and appends one chunk per visited term
    loops = [s for s in body if isinstance(s, ast.For)]
    ok_loop = len(loops) == 1 and ast.unparse(loops[0].iter) == "indices" and isinstance(loops[0].target, ast.Name) and \
        any(isinstance(s, ast.Expr) and ast.unparse(s.value) == "output.append(out)" for s in loops[0].body) and \
        not any(isinstance(s, ast.Call) and ast.unparse(s.func) in ("output.insert", "output.sort", "output.reverse", "sorted", "reversed")
                for s in ast.walk(fn))
    out.append(("display.terms_emitted_in_sorted_order", ok_loop, rel, loops[0].lineno if loops else fn.lineno))
    # to_string joins the chunks in list order
    ts = next((n for n in tree.body if isinstance(n, ast.FunctionDef) and n.name == "to_string"), None)
    ok_join = ts is not None and any(isinstance(s, ast.Return) and s.value is not None and ast.unparse(s.value) == "''.join(output)"
                                     for s in ast.walk(ts))
    out.append(("display.chunks_joined_in_order", ok_join, rel, ts.lineno if ts else 0))
    return out
