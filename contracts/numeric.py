"""Contracts for functions that reduce a polynomial array to a numeric / boolean array (properties C11, C17):

mask family    any, all, count_nonzero, nonzero, logical_and, logical_or
    proved: the numpy function of the same name is applied to the NON-ZERO MASK of each operand - mask[i] holds iff some
    coefficient of element i is non-zero, i.e. element i is not the zero polynomial (for a constant array: iff the
    number is non-zero, which is numpy's own truth value) - with every user parameter forwarded; no operand is written.
numeric division family    remainder, divmod, true_divide, floor_divide
    proved: FeatureNotSupported is raised exactly when the divisor (remainder/divmod: either operand) is not constant
    (after alignment; `isconstant` is the proved contract of C19), nothing else is raised; remainder/divmod return
    polynomial(numpy.f(x1.tonumpy(), x2.tonumpy(), ...)); true_divide/floor_divide fill EVERY coefficient column with
    numpy.f(column, divisor) (loop invariant: definedness), rows and names of the aligned dividend.
"""
from __future__ import annotations
import z3
from engine.contract import Contract, Case
from engine.sx import LoopSpec
from engine import values as V
from engine.values import U
from engine.logic import I, Idx, B, R, Shp, DT, mzero, bshape
from engine.polymodel import Poly, Arr, NamesV, Region, shape_axioms, mono_axioms, dt_bool
from contracts.align import sym_polys
from contracts.baseclass import own_poly
from contracts.leading import IsConstant
from contracts.shapefn import Tok


class CoefStack:
    """numpy.asarray(poly.coefficients): all coefficient arrays stacked along a new first axis"""

    def __init__(self, poly, C=None):
        self.poly, self.C = poly, C

    def sx_getitem(self, ex, idx, node):
        """stack[:, k]: for every term its coefficient array at index k of the first axis (a list-like of N arrays)"""
        from engine.polymodel import at0, drop_axis, extent
        from engine.logic import ndim
        if isinstance(idx, tuple) and len(idx) == 2 and idx[0] == slice(None, None, None) and isinstance(idx[1], (int, z3.ArithRef)) \
                and not isinstance(idx[1], bool) and self.C is not None:
            P, C, k = self.poly, self.C, idx[1]
            ex.oblige(f"pre({ex.site('stack_index')}).in_bounds", z3.And(ndim(P.shape) >= 1, 0 <= k, k < extent(P.shape, z3.IntVal(0))), "index", node)
            sub = drop_axis(P.shape, 0)
            sq = V.Seq(P.N, lambda t: Arr(sub, lambda j: C(t, at0(k, j)), "real", P.dtype, Region("fresh")), "list")
            sq.slice_of = (P, k)
            return sq
        raise U("index into the stacked coefficients", node)


class NumpyResult:
    """result of a numpy call whose value is not modelled: only which function was applied to what"""

    def __init__(self, fname, args, kw):
        self.fname, self.args, self.kw = fname, args, kw

    def sx_iter(self, ex):
        if self.fname == "numpy.divmod":
            return [NumpyResult("numpy.divmod[0]", self.args, self.kw), NumpyResult("numpy.divmod[1]", self.args, self.kw)]
        return None


def nonzero_mask(ex, p):
    i0 = z3.Const(ex.ctx.fresh("i"), Idx)
    C = p.frozenC()
    t = z3.Int(ex.ctx.fresh("t"))
    m = Arr(p.shape, lambda i: z3.Exists([t], z3.And(0 <= t, t < p.N, C(t, i) != 0)), "bool", dt_bool, Region("fresh"))
    m.nonzero_mask_of = p
    return m


def install_axioms(reg):
    prev_asarray = reg.fn["numpy.asarray"]
    prev_array = reg.fn["numpy.array"]

    @reg.axiom("numpy.array")
    def array(ex, args, kw, node):
        a = args[0] if args else None
        src = getattr(a, "source", None)
        if isinstance(a, V.Seq) and src is not None and isinstance(src[0], Poly) and len(src) > 1 and len(args) == 1 and not kw:
            return CoefStack(src[0], src[1])           # numpy.array(list(poly.coefficients)): stacked copies
        return prev_array(ex, args, kw, node)
    prev_any = reg.fn["numpy.any"]
    prev_all = reg.fn["numpy.all"]

    @reg.axiom("numpy.asarray")
    def asarray(ex, args, kw, node):
        a = args[0]
        src = getattr(a, "source", None)
        if isinstance(a, V.Seq) and src is not None and isinstance(src[0], Poly) and len(args) == 1 and not kw:
            return CoefStack(src[0], src[1])
        if isinstance(a, Arr) and a.kind == "bool" and len(args) == 1 and set(kw) == {"dtype"} and \
                isinstance(kw["dtype"], V.BuiltinRef) and kw["dtype"].name == "bool":
            return a                     # already boolean: numpy returns the very same array
        if isinstance(a, Tok) and len(args) == 1 and not kw:
            return a                     # an opaque user argument (where=...): identity is all that matters
        return prev_asarray(ex, args, kw, node)

    def reducer(name, prev):
        @reg.axiom(f"numpy.{name}")
        def _r(ex, args, kw, node):
            a = args[0]
            axis = kw.get("axis", args[1] if len(args) > 1 else None)
            if isinstance(a, CoefStack) and axis == 0 and name == "any" and len(args) <= 2 and set(kw) <= {"axis"}:
                return nonzero_mask(ex, a.poly)
            if isinstance(a, Arr) and getattr(a, "nonzero_mask_of", None) is not None:
                return NumpyResult(f"numpy.{name}", list(args), dict(kw))
            return prev(ex, args, kw, node)
    reducer("any", prev_any)
    reducer("all", prev_all)

    def opaque(name):
        prev = reg.fn.get(f"numpy.{name}")

        @reg.axiom(f"numpy.{name}")
        def _o(ex, args, kw, node, prev=prev):
            if args and all((isinstance(a, Arr) and (getattr(a, "nonzero_mask_of", None) is not None or getattr(a, "tonumpy_of", None) is not None))
                            for a in args[:2] if not isinstance(a, Tok)):
                return NumpyResult(f"numpy.{name}", list(args), dict(kw))
            if prev is not None:
                return prev(ex, args, kw, node)
            raise U(f"numpy.{name} of these values", node)
    for f in ("count_nonzero", "nonzero", "logical_and", "logical_or", "remainder", "divmod"):
        opaque(f)
    install_close_axioms(reg)


class MaskFunction(Contract):
    properties = ("C11", "C17")

    def __init__(self, fname, arity, params):
        self.func, self.name = fname, f"numpoly.{fname}"
        self.relpath = f"numpoly/array_function/{fname}.py"
        self.arity, self.wparams = arity, tuple(params)

    def _argnames(self):
        from engine.extract import ModInfo
        fn = ModInfo(self.relpath).function(self.func)
        return [a.arg for a in (fn.args.posonlyargs + fn.args.args)][: self.arity]

    def cases(self):
        def make_env(ex):
            ps = sym_polys(ex, self.arity, same_shape=True)
            ex.inputs = ps
            ex.toks = {p: Tok(p) for p in self.wparams}
            env = dict(zip(self._argnames(), ps))
            env.update(ex.toks)
            env["kwargs"] = {}
            return env

        def check(out):
            ex = out.ex
            ex.oblige(f"raises.nothing[{out.exc}]" if out.kind == "raise" else "raises.nothing", z3.BoolVal(out.kind == "return"), "post")
            if out.kind != "return":
                return
            r = out.value
            ok = isinstance(r, NumpyResult)
            ex.oblige("post.result_of_a_numpy_call_on_the_masks", z3.BoolVal(ok), "post")
            if not ok:
                return
            ex.oblige("post.numpy_namesake_applied", z3.BoolVal(r.fname == f"numpy.{self.func}"), "post")
            masks = [a for a in r.args if isinstance(a, Arr)]
            ex.oblige("post.applied_to_the_nonzero_mask_of_every_operand_in_order", z3.BoolVal(
                len(masks) == self.arity and all(getattr(m, "nonzero_mask_of", None) is p for m, p in zip(masks, ex.inputs))), "post",
                note="mask[i] <=> some coefficient of element i is non-zero <=> element i is not the zero polynomial")
            for p in self.wparams:
                ex.oblige(f"post.parameter_forwarded[{p}]", z3.BoolVal(r.kw.get({"where": "where"}.get(p, p)) is ex.toks[p]), "post")
        yield Case("", make_env, check)

    def apply(self, ex, args, kw, node):
        raise U(f"{self.func} as a callee", node)


# ====================================================================== numeric division
def tonumpy_apply(ex, p, node):
    """contract of tonumpy at a call site (proved in contracts/leading.py): requires constant, returns the constant term"""
    ctx = ex.ctx
    src = getattr(p, "constant_of", None)
    if src is not None:
        # the constant polynomial built from a numeric array: tonumpy gives the numbers back (fresh copy)
        from engine.polymodel import _freeze
        a = Arr(src.shape, _freeze(src), src.kind, src.dtype, Region("fresh"))
        for attr in ("int_valued",):
            if hasattr(src, attr):
                setattr(a, attr, getattr(src, attr))
        return a
    ex.oblige(f"pre({ex.site('tonumpy')}).constant", IsConstant.spec(ctx, p), "precondition", node,
              note="tonumpy raises FeatureNotSupported for a non-constant polynomial")
    cf = ctx.func("constant_of", Idx, R)
    ctx.assume(ctx.forall_idx(lambda i: ctx.forall_range(0, p.N, lambda t: z3.Implies(mzero(p.row(t), p.D), cf(i) == p.C(t, i))), p.shape))
    a = Arr(p.shape, lambda i: cf(i), "real", p.dtype, Region("fresh"))
    a.tonumpy_of = p
    hook = getattr(ex, "hooks", {}).get("after_tonumpy") if isinstance(getattr(ex, "hooks", None), dict) else None
    if hook:
        hook(ex, a)
    return a


class BothConstant(Contract):
    """remainder / divmod: numeric only"""
    properties = ("C11",)

    def __init__(self, fname):
        self.func, self.name = fname, f"numpoly.{fname}"
        self.relpath = f"numpoly/array_function/{fname}.py"

    def cases(self):
        def make_env(ex):
            ps = sym_polys(ex, 2)
            ex.inputs = ps
            ex.ghost = {}
            ex.hooks = {"after_align": lambda ex_, res: ex_.ghost.update(aligned=list(res))}
            ex.where = Tok("where")
            return {"x1": ps[0], "x2": ps[1], "out": None, "where": ex.where, "kwargs": {}}

        def check(out):
            ex, ctx = out.ex, out.ctx
            al = ex.ghost.get("aligned")
            if al is None:
                ex.oblige("post.operands_aligned_first", z3.BoolVal(False), "post")
                return
            both = z3.And(IsConstant.spec(ctx, al[0]), IsConstant.spec(ctx, al[1]))
            if out.kind == "raise":
                ex.oblige(f"raises.only_FeatureNotSupported[{out.exc}]", z3.BoolVal(out.exc == "FeatureNotSupported"), "post")
                ex.oblige("raises.only_when_an_operand_is_not_constant", z3.Not(both), "post")
                return
            ex.oblige("post.both_operands_constant", both, "post",
                      note="numeric remainder of a non-constant polynomial must raise FeatureNotSupported instead")
            r = out.value
            parts = list(r) if isinstance(r, tuple) else [r]
            want = {"remainder": ["numpy.remainder"], "divmod": ["numpy.divmod[0]", "numpy.divmod[1]"]}[self.func]
            ok = len(parts) == len(want) and all(isinstance(p, Poly) and isinstance(getattr(p, "of_numeric", None), NumpyResult) for p in parts)
            ex.oblige("post.polynomial_of_the_numpy_result", z3.BoolVal(ok), "post")
            if not ok:
                return
            for p, w in zip(parts, want):
                nr = p.of_numeric
                ex.oblige(f"post.numpy_namesake[{w}]", z3.BoolVal(nr.fname == w), "post")
                ex.oblige(f"post.on_the_constant_arrays_in_order[{w}]", z3.BoolVal(
                    len(nr.args) >= 2 and getattr(nr.args[0], "tonumpy_of", None) is al[0] and getattr(nr.args[1], "tonumpy_of", None) is al[1]), "post")
                ex.oblige(f"post.where_forwarded[{w}]", z3.BoolVal(nr.kw.get("where") is ex.where), "post")
        yield Case("", make_env, check)

    def apply(self, ex, args, kw, node):
        raise U(f"{self.func} as a callee", node)


class NumericDivide(Contract):
    """true_divide / floor_divide: coefficient-wise division by a CONSTANT divisor"""
    properties = ("C11", "C12", "C17")
    assumptions = ("out=None, where=True, no extra keywords", "A1 (real division; floor division uninterpreted)")

    def __init__(self, fname):
        self.func, self.name = fname, f"numpoly.{fname}"
        self.relpath = f"numpoly/array_function/{fname}.py"

    def _loops(self):
        def inv(ex, env, k):
            g = ex.ghost
            out_ = env[g["outvar"]]
            ctx = ex.ctx
            if not isinstance(out_, Poly) or "aligned" not in g:
                return [("state", z3.BoolVal(False))]
            x1 = g["aligned"][0]
            return [("columns_written_so_far", ctx.forall_range(0, k, lambda t: ctx.forall_idx(
                lambda i: z3.And(out_.init(t, i), out_.C(t, i) == g["quot"](x1.C(t, i), g["divisor"].elem(i))), x1.shape)))]

        def havoc(ex, env, k):
            out_ = env[ex.ghost["outvar"]]
            cf, inf = ex.ctx.func("C_h", I, Idx, R), ex.ctx.func("init_h", I, Idx, B)
            out_._C = lambda t, i: cf(t, i)
            out_._init = lambda t, i: inf(t, i)
        return {1: LoopSpec(inv, havoc, modifies=("key",))}

    def cases(self):
        def make_env(ex):
            ps = sym_polys(ex, 2)
            ex.inputs = ps
            fd = z3.Function("floor_div", R, R, R)
            ex.ghost = {"outvar": "out_" if self.func == "true_divide" else "out",
                        "quot": (lambda a, b: a / b) if self.func == "true_divide" else (lambda a, b: fd(a, b))}

            def after_align(ex_, res):
                ex_.ghost.setdefault("aligned", list(res))
            ex.hooks = {"after_align": after_align, "after_tonumpy": lambda ex_, arr: ex_.ghost.update(divisor=arr)}
            return {"x1": ps[0], "x2": ps[1], "out": None, "where": True, "kwargs": {}}

        def check(out):
            ex, ctx = out.ex, out.ctx
            g = ex.ghost
            al = g.get("aligned")
            if al is None:
                ex.oblige("post.operands_aligned_first", z3.BoolVal(False), "post")
                return
            const = IsConstant.spec(ctx, al[1])
            if out.kind == "raise":
                ex.oblige(f"raises.only_FeatureNotSupported[{out.exc}]", z3.BoolVal(out.exc == "FeatureNotSupported"), "post")
                ex.oblige("raises.only_for_a_non_constant_divisor", z3.Not(const), "post")
                return
            ex.oblige("post.divisor_constant", const, "post",
                      note="a polynomial divisor must raise FeatureNotSupported instead of being divided coefficient-wise")
            r = out.value
            ok = isinstance(r, Poly) and hasattr(r, "from_attrs") and "divisor" in g
            ex.oblige("post.cleaned_result", z3.BoolVal(ok), "post")
            if not ok:
                return
            fa = r.from_attrs
            src = getattr(fa["E"], "source", None)
            x1 = al[0]
            okc = isinstance(src, Poly) and getattr(fa["C"], "source", (None,))[0] is src
            ex.oblige("post.result_is_cleaning_of_the_filled_polynomial", z3.BoolVal(okc), "post")
            if not okc:
                return
            ex.oblige("post.rows_and_names_of_the_aligned_dividend", z3.And(src.N == x1.N, src.D == x1.D, src.names == x1.names,
                                                                            ctx.forall_range(0, x1.N, lambda t: src.row(t) == x1.row(t))), "post")
            Cs = V.as_seq(ex, fa["C"])
            ex.oblige("post.every_column_is_the_quotient_by_the_constant", ctx.forall_range(0, x1.N, lambda t: ctx.forall_idx(
                lambda i: z3.And(Cs.item(t).init(i), Cs.item(t).elem(i) == g["quot"](x1.C(t, i), g["divisor"].elem(i))), x1.shape)), "post",
                note="every coefficient divided by the divisor's value at the same position; no column left unwritten (C12)")
            ex.oblige("post.fresh", z3.BoolVal(r.region.owner == "fresh"), "post")
        yield Case("", make_env, check, loops=self._loops())

    def apply(self, ex, args, kw, node):
        raise U(f"{self.func} as a callee", node)


np_isclose = z3.Function("np_isclose", R, R, R, R, B)     # numpy.isclose(a, b, rtol, atol) on numbers: |a-b| <= atol + rtol*|b| (b is the reference)


def _notify(ex, kw, node):
    hook = getattr(ex, "hooks", {}).get("on_close_call") if isinstance(getattr(ex, "hooks", None), dict) else None
    if hook:
        hook(ex, kw, node)


def install_close_axioms(reg):
    prev_allclose = reg.fn.get("numpy.allclose")

    def tol(ex, kw, args, node):
        rtol = kw.get("rtol", args[2] if len(args) > 2 else None)
        atol = kw.get("atol", args[3] if len(args) > 3 else None)
        if not (isinstance(rtol, z3.ArithRef) and isinstance(atol, z3.ArithRef)):
            return None
        return rtol, atol

    @reg.axiom("numpy.isclose")
    def isclose(ex, args, kw, node):
        t = tol(ex, kw, args, node)
        if len(args) >= 2 and isinstance(args[0], Arr) and isinstance(args[1], Arr) and t is not None and set(kw) <= {"rtol", "atol", "equal_nan"}:
            from engine.polymodel import elementwise, _num
            rtol, atol = t
            r = elementwise(ex, lambda a, b: np_isclose(_num(a), _num(b), rtol, atol), [args[0], args[1]], "bool", node)
            _notify(ex, dict(kw), node)
            return r
        num = (int, float, z3.ArithRef)
        if len(args) == 2 and not kw and all(isinstance(a, num) and not isinstance(a, (bool, z3.BoolRef)) for a in args):
            # two numbers, numpy's default tolerances: |a - b| <= 1e-8 + 1e-5*|b|  (a tolerance test, NOT equality)
            a, b = (x if isinstance(x, z3.ArithRef) else z3.RealVal(x) for x in args)
            a, b = (z3.ToReal(x) if x.is_int() else x for x in (a, b))
            d = z3.If(a - b >= 0, a - b, b - a)
            return d <= z3.RealVal("1e-8") + z3.RealVal("1e-5") * z3.If(b >= 0, b, -b)
        raise U("numpy.isclose in this form", node)

    @reg.axiom("numpy.allclose")
    def allclose(ex, args, kw, node):
        t = tol(ex, kw, args, node)
        if len(args) >= 2 and isinstance(args[0], Arr) and isinstance(args[1], Arr) and t is not None and set(kw) <= {"rtol", "atol", "equal_nan"}:
            from engine.polymodel import _num, elemfn
            rtol, atol = t
            a, b = args[0], args[1]
            ex.oblige(f"pre({ex.site('numpy.allclose')}).same_shape", a.shape == b.shape, "precondition", node)
            _notify(ex, dict(kw), node)
            return ex.ctx.forall_idx(lambda i: np_isclose(_num(a.elem(i)), _num(b.elem(i)), rtol, atol), a.shape)
        if prev_allclose is not None:
            return prev_allclose(ex, args, kw, node)
        raise U("numpy.allclose in this form", node)


class Close(Contract):
    """isclose / allclose: numpy's closeness test on every coefficient of the aligned operands, `a` against the reference `b`"""
    properties = ("C11", "C17")
    assumptions = ("A1; numpy.isclose on numbers is the uninterpreted predicate np_isclose(a, b, rtol, atol): what is proved is which "
                   "coefficients are compared, in which operand order, with which tolerances",)

    def __init__(self, fname):
        self.func, self.name = fname, f"numpoly.{fname}"
        self.relpath = f"numpoly/array_function/{fname}.py"

    def _loops(self):
        def close_t(ex, t, i):
            A, Bq = ex.ghost["aligned"]
            return np_isclose(A.C(t, i), Bq.C(t, i), ex.rtol, ex.atol)

        if self.func == "isclose":
            def inv(ex, env, k):
                out = env["out"]
                if not isinstance(out, Arr) or "aligned" not in ex.ghost:
                    return [("accumulator", z3.BoolVal(False))]
                A = ex.ghost["aligned"][0]
                return [("shape", out.shape == A.shape),
                        ("close_in_every_term_so_far", ex.ctx.forall_idx(lambda i: out.elem(i) == ex.ctx.forall_range(
                            0, k, lambda t: close_t(ex, t, i)), A.shape))]

            def havoc(ex, env, k):
                f = ex.ctx.func("out_h", Idx, B)
                env["out"] = Arr(ex.ghost["aligned"][0].shape, lambda i: f(i), "bool")
            return {1: LoopSpec(inv, havoc, modifies=("out", "key"))}

        def inv2(ex, env, k):
            if "aligned" not in ex.ghost:
                return [("aligned", z3.BoolVal(False))]
            A = ex.ghost["aligned"][0]
            return [("every_term_so_far_is_close_everywhere", ex.ctx.forall_range(0, k, lambda t: ex.ctx.forall_idx(
                lambda i: close_t(ex, t, i), A.shape)))]
        return {1: LoopSpec(inv2, lambda ex, env, k: None, modifies=("coeff1", "coeff2"))}

    def cases(self):
        def make_env(ex):
            ps = sym_polys(ex, 2)
            ex.inputs = ps
            ex.ghost = {}
            ex.rtol, ex.atol, ex.eqnan = ex.ctx.real("rtol"), ex.ctx.real("atol"), Tok("equal_nan")
            ex.hooks = {"after_align": lambda ex_, res: ex_.ghost.update(aligned=list(res)),
                        "on_close_call": lambda ex_, kw, node: ex_.oblige(ex_.site("numpy_close") + ".equal_nan_forwarded",
                                                                         z3.BoolVal(kw.get("equal_nan") is ex_.eqnan), "post", node)}
            return {"a": ps[0], "b": ps[1], "rtol": ex.rtol, "atol": ex.atol, "equal_nan": ex.eqnan}

        def check(out):
            ex, ctx = out.ex, out.ctx
            ex.oblige(f"raises.nothing[{out.exc}:{out.value}]" if out.kind == "raise" else "raises.nothing", z3.BoolVal(out.kind == "return"), "post")
            if out.kind != "return" or "aligned" not in ex.ghost:
                return
            A, Bq = ex.ghost["aligned"]
            close = lambda t, i: np_isclose(A.C(t, i), Bq.C(t, i), ex.rtol, ex.atol)
            r = out.value
            if self.func == "isclose":
                ok = isinstance(r, Arr)
                ex.oblige("post.boolean_array", z3.BoolVal(ok), "post")
                if not ok:
                    return
                ex.oblige("post.shape", r.shape == A.shape, "post")
                ex.oblige("post.element_close_iff_every_coefficient_close", ctx.forall_idx(lambda i: r.elem(i) == ctx.forall_range(
                    0, A.N, lambda t: close(t, i)), A.shape), "post", note="a against the reference b (numpy.isclose is not symmetric), term by term")
            else:
                ok = isinstance(r, (bool, z3.BoolRef))
                ex.oblige("post.boolean", z3.BoolVal(ok), "post")
                if not ok:
                    return
                rb = z3.BoolVal(r) if isinstance(r, bool) else r
                ex.oblige("post.true_iff_every_coefficient_everywhere_close", rb == ctx.forall_range(0, A.N, lambda t: ctx.forall_idx(
                    lambda i: close(t, i), A.shape)), "post")
        yield Case("", make_env, check, loops=self._loops())

    def apply(self, ex, args, kw, node):
        raise U(f"{self.func} as a callee", node)


CONTRACTS = [Close("isclose"), Close("allclose"), NumericDivide("true_divide"), NumericDivide("floor_divide"), MaskFunction("any", 1, ("axis", "out", "keepdims")), MaskFunction("all", 1, ("axis", "out", "keepdims")),
             MaskFunction("count_nonzero", 1, ("axis",)), MaskFunction("nonzero", 1, ()),
             MaskFunction("logical_and", 2, ("out", "where")), MaskFunction("logical_or", 2, ("out", "where")),
             BothConstant("remainder"), BothConstant("divmod")]


class ResultType(Contract):
    """numpoly.result_type(*arrays_and_dtypes): numpy.result_type of the same arguments with every polynomial array replaced by its
    coefficient dtype, in order (so a polynomial takes part in type promotion exactly like a plain array of its coefficient dtype).
    numpy.result_type(poly, ...) dispatches here: this is what the dtype clauses of multiply and of the joins rest on."""
    name, func, relpath, properties = "numpoly.result_type", "result_type", "numpoly/array_function/result_type.py", ("C12", "C01")
    assumptions = ("arity 2 (every combination of polynomial / plain array / dtype) and arity 3 (polynomials) enumerated; "
                   "numpy.result_type of dtypes/arrays is the uninterpreted promotion function result_type(.,.) (numpy axiom)",)

    def cases(self):
        import itertools
        from engine.polymodel import DTypeV, result_type as rt
        kinds = list(itertools.product(("poly", "array", "dtype"), repeat=2)) + [("poly", "poly", "poly")]
        for ks in kinds:
            if "poly" not in ks:
                continue
            def make_env(ex, ks=ks):
                ctx = ex.ctx
                for a in shape_axioms(ctx) + mono_axioms(ctx):
                    ctx.assume(a)
                vals, dts = [], []
                for k, kind in enumerate(ks):
                    if kind == "poly":
                        P = Poly(ctx, f"p{k}", region=Region("caller", f"p{k}"))
                        ctx.assume(P.wf(ctx))
                        vals.append(P)
                        dts.append(P.dtype)
                    elif kind == "array":
                        f = ctx.func(f"a{k}", Idx, R)
                        a = Arr(ctx.const(f"shape{k}", Shp), lambda i, f=f: f(i), "real", ctx.const(f"dt{k}", DT), Region("caller", f"a{k}"))
                        vals.append(a)
                        dts.append(a.dtype)
                    else:
                        d = ctx.const(f"dt{k}", DT)
                        vals.append(DTypeV(d))
                        dts.append(d)
                ex.dts = dts
                return {"arrays_and_dtypes": tuple(vals)}

            def check(out, ks=ks):
                ex = out.ex
                ex.oblige(f"raises.nothing[{out.exc}]" if out.kind == "raise" else "raises.nothing", z3.BoolVal(out.kind == "return"), "post")
                if out.kind != "return":
                    return
                r = out.value
                ok = isinstance(r, DTypeV)
                ex.oblige("post.a_dtype", z3.BoolVal(ok), "post")
                if not ok:
                    return
                want = ex.dts[0]
                for d in ex.dts[1:]:
                    want = rt(want, d)
                ex.oblige("post.numpy_promotion_of_the_coefficient_dtypes_in_order", r.term == want, "post",
                          note="result_type(d1, d2, ...) with d_k the coefficient dtype of a polynomial argument, the dtype of an array, or the dtype given")
            yield Case("+".join(ks), make_env, check)

    def apply(self, ex, args, kw, node):
        raise U("result_type as a callee", node)


CONTRACTS = CONTRACTS + [ResultType()]


class CommonType(Contract):
    """numpoly.common_type(*arrays): numpy.common_type of one coefficient column per operand, in order - a polynomial array takes
    part like a plain array of its coefficient dtype.  (numpy.common_type(poly, ...) dispatches here: true_divide rests on it.)"""
    name, func, relpath, properties = "numpoly.common_type", "common_type", "numpoly/array_function/common_type.py", ("C12", "C11")
    assumptions = ("arity 2 with polynomial operands enumerated; numpy.common_type is the uninterpreted function common_type2 (numpy axiom)",)

    def cases(self):
        def make_env(ex):
            ctx = ex.ctx
            for a in shape_axioms(ctx) + mono_axioms(ctx):
                ctx.assume(a)
            ps = []
            for k in range(2):
                P = Poly(ctx, f"p{k}", region=Region("caller", f"p{k}"))
                ctx.assume(P.wf(ctx))
                ps.append(P)
            ex.inputs = ps
            return {"arrays": tuple(ps)}

        def check(out):
            from engine.polymodel import DTypeV
            ex = out.ex
            ex.oblige(f"raises.nothing[{out.exc}]" if out.kind == "raise" else "raises.nothing", z3.BoolVal(out.kind == "return"), "post")
            if out.kind != "return":
                return
            r = out.value
            ok = isinstance(r, DTypeV)
            ex.oblige("post.a_dtype", z3.BoolVal(ok), "post")
            if ok:
                ct = z3.Function("common_type2", DT, DT, DT)
                ex.oblige("post.numpy_common_type_of_the_coefficient_dtypes_in_order", r.term == ct(ex.inputs[0].dtype, ex.inputs[1].dtype), "post")
        yield Case("poly+poly", make_env, check)

    def apply(self, ex, args, kw, node):
        raise U("common_type as a callee", node)


CONTRACTS = CONTRACTS + [CommonType()]
