"""Contracts for numpoly/align.py (property C04; used by almost every other function)."""
from __future__ import annotations
import z3
from engine.contract import Contract, Case
from engine.logic import I, Mono, Idx, R, Shp, bshape, bok, proj, inshape
from engine.polymodel import Poly, Region, Names, nlen
from engine.values import U


def aligned_family(ex, polys, base="al", shape=None, same_shape=True):
    """Fresh-or-same results of an alignment: shared N, D, rows, names (and shape)."""
    ctx = ex.ctx
    N, D = ctx.int(f"N_{base}"), ctx.int(f"D_{base}")
    rf = ctx.func(f"row_{base}", I, Mono)
    names = ctx.const(f"names_{base}", Names)
    out = []
    for k, p in enumerate(polys):
        q = Poly(ctx, f"{base}{k}", N=N, D=D, row=(lambda t, rf=rf: rf(t)), shape=shape if same_shape else getattr(p, "shape", None),
                 names=names, region=Region("fresh", f"{base}{k}"),
                 dtype=getattr(p, "dtype", None))
        q.owndata = z3.BoolVal(True)       # align_exponents rebuilds every operand with from_attributes
        out.append(q)
    for q in out:
        q.aligned_with = out
    ctx.assume(out[0].wf(ctx))
    # each result denotes its input (broadcast to the common shape where shape is aligned)
    for p, q in zip(polys, out):
        if hasattr(p, "val"):
            ctx.assume(ctx.forall_idx(lambda i, p=p, q=q: q.val(i) == p.val(proj(i, q.shape, p.shape)), q.shape))
    return out


class AlignPolynomials(Contract):
    name = "numpoly.align_polynomials"
    relpath = "numpoly/align.py"
    func = "align_polynomials"
    properties = ("C04",)

    def cases(self):
        return iter(())          # verified through align_shape + align_exponents (see contracts below, later rounds)

    def apply(self, ex, args, kw, node):
        site = ex.site("align_polynomials")
        polys = list(args)
        if not all(isinstance(p, Poly) for p in polys):
            raise U("align_polynomials of non-ndpoly operands (input kinds are covered by aspolynomial's contract)", node)
        shape = polys[0].shape
        for p in polys[1:]:
            ex.oblige(f"pre({site}).shapes_broadcast", bok(shape, p.shape), "precondition", node)
            shape = bshape(shape, p.shape)
        res = aligned_family(ex, polys, base=ex.ctx.fresh("al"), shape=shape)
        hook = getattr(ex, "hooks", {}).get("after_align")
        if hook:
            hook(ex, res)
        return tuple(res)


class AlignExponents(Contract):
    name = "numpoly.align_exponents"
    relpath = "numpoly/align.py"
    func = "align_exponents"
    properties = ("C04",)

    def cases(self):
        return iter(())

    def apply(self, ex, args, kw, node):
        polys = list(args)
        if not all(isinstance(p, Poly) for p in polys):
            raise U("align_exponents of non-ndpoly operands", node)
        res = aligned_family(ex, polys, base=ex.ctx.fresh("ae"), same_shape=False)
        hook = getattr(ex, "hooks", {}).get("after_align")
        if hook:
            hook(ex, res)
        return tuple(res)


CONTRACTS = [AlignPolynomials(), AlignExponents()]
