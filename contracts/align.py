"""Contracts for numpoly/align.py (property C04; used by almost every other function).

Value-level statements use the abstract value val(p, i) of element i.  Bridge axioms (definition of
the abstract view, embodied by conc/model.py and listed as assumptions):
  B1  dropping all-zero terms / unused names does not change val          (from_attributes' cleaning)
  B2  if r has p's rows and names and C_r(t, i) = C_p(t, proj(i)) then val(r, i) = val(p, proj(i))   (broadcasting)
  B4  if every row of p occurs in r with the same coefficient and all other rows of r have coefficient 0,
      then val(r, i) = val(p, i)                                           (adding zero terms, reordering)
Each use of a bridge is preceded by obligations establishing its premises on the real code.
"""
from __future__ import annotations
import z3
from engine.contract import Contract, Case
from engine import values as V
from engine.logic import I, Mono, Idx, R, Shp, bshape, bok, proj, inshape, ndim
from engine.polymodel import (Poly, Arr, ExpMat, NamesV, Region, Names, nlen, shape_axioms, mono_axioms, names_distinct)
from engine.sortmodel import meq, order_axioms
from engine.values import U


def extra_shape_axioms(ctx):
    s, t, u = (z3.Const(ctx.fresh(n), Shp) for n in "stu")
    i = z3.Const(ctx.fresh("i"), Idx)
    return [
        # a position of the broadcast shape projects to a position of each operand
        z3.ForAll([s, t, i], z3.Implies(z3.And(bok(s, t), inshape(i, bshape(s, t))),
                                        z3.And(inshape(proj(i, bshape(s, t), s), s), inshape(proj(i, bshape(s, t), t), t))),
                  patterns=[proj(i, bshape(s, t), s), proj(i, bshape(s, t), t)]),
        z3.ForAll([s, t], z3.Implies(bok(s, t), z3.And(bok(s, bshape(s, t)), bok(t, bshape(s, t)),
                                                       bshape(s, bshape(s, t)) == bshape(s, t),
                                                       bshape(t, bshape(s, t)) == bshape(s, t)))),
        z3.ForAll([s, t, u], z3.Implies(z3.And(bok(s, t), bok(bshape(s, t), u)),
                                        z3.And(bok(s, bshape(bshape(s, t), u)), bok(t, bshape(bshape(s, t), u)),
                                               bok(u, bshape(bshape(s, t), u)),
                                               bshape(s, bshape(bshape(s, t), u)) == bshape(bshape(s, t), u),
                                               bshape(t, bshape(bshape(s, t), u)) == bshape(bshape(s, t), u),
                                               bshape(u, bshape(bshape(s, t), u)) == bshape(bshape(s, t), u)))),
    ]


def aligned_family(ex, polys, base="al", shape=None, same_shape=True, names_contain=None):
    """Fresh results of an alignment: shared N, D, rows, names (and shape).  names_contain: None (nothing said about the names),
    True (the common names contain every operand's names: proved for align_exponents) or a formula under which they do."""
    ctx = ex.ctx
    N, D = ctx.int(f"N_{base}"), ctx.int(f"D_{base}")
    rf = ctx.func(f"row_{base}", I, Mono)
    names = ctx.const(f"names_{base}", Names)
    out = []
    for k, p in enumerate(polys):
        q = Poly(ctx, f"{base}{k}", N=N, D=D, row=(lambda t, rf=rf: rf(t)), shape=shape if same_shape else getattr(p, "shape", None),
                 names=names, region=Region("fresh", f"{base}{k}"),
                 dtype=getattr(p, "dtype", None))
        q.owndata = z3.BoolVal(True)       # align_exponents rebuilds every operand with from_attributes
        out.append(q)
    for q in out:
        q.aligned_with = out
    ctx.assume(out[0].wf(ctx))
    from contracts.construct import keyok
    ctx.assume(ctx.forall_range(0, N, lambda t: keyok(rf(t), D)))
    if names_contain is not None:
        from engine.polymodel import nin, nat
        for p in polys:
            if hasattr(p, "names"):
                f = ctx.forall_range(0, p.D, lambda d, p=p: nin(names, nat(p.names, d)), pat=lambda d, p=p: nat(p.names, d))
                ctx.assume(f if names_contain is True else z3.Implies(names_contain, f))
    # each result denotes its input (broadcast to the common shape where shape is aligned)
    for p, q in zip(polys, out):
        if hasattr(p, "val"):
            ctx.assume(ctx.forall_idx(lambda i, p=p, q=q: q.val(i) == p.val(proj(i, q.shape, p.shape)), q.shape))
    return out


def sym_polys(ex, k, broadcast=True, same_shape=False):
    ctx = ex.ctx
    for a in shape_axioms(ctx) + extra_shape_axioms(ctx) + mono_axioms(ctx) + order_axioms(ctx):
        ctx.assume(a)
    from contracts.construct import keyok, eok_axioms
    for a in eok_axioms():
        ctx.assume(a)
    ps = []
    for j in range(k):
        p = Poly(ctx, f"x{j}", region=Region("caller", f"argument {j}"))
        ctx.assume(p.wf(ctx))
        ctx.assume(ctx.forall_range(0, p.N, lambda t, p=p: keyok(p.row(t), p.D)))
        ps.append(p)
    if same_shape:
        for p in ps[1:]:
            ctx.assume(p.shape == ps[0].shape)
    elif broadcast:
        s = ps[0].shape
        for p in ps[1:]:
            ctx.assume(bok(s, p.shape))
            s = bshape(s, p.shape)
    return ps


class AlignShape(Contract):
    name = "numpoly.align_shape"
    relpath = "numpoly/align.py"
    func = "align_shape"
    properties = ("C04", "C12", "C17")
    assumptions = ("B1, B2 (definition of the abstract view under cleaning and broadcasting)",
                   "arity 1..2 enumerated (thorough tier: 3; variadic *polys; arity 4: bounded check); operands given as ndpoly (other kinds: aspolynomial's contract)")

    def cases(self):
        from engine.contract import deep
        for k in ((1, 2, 3) if deep() else (1, 2)):           # arity 3 (many paths): thorough tier; arity 4: bounded check
            def make_env(ex, k=k):
                ps = sym_polys(ex, k)
                ex.inputs = ps
                return {"polys": tuple(ps)}

            def check(out, k=k):
                ex, ctx = out.ex, out.ctx
                ex.oblige("raises.nothing", z3.BoolVal(out.kind == "return"), "post")
                if out.kind != "return":
                    return
                res = out.value
                ok = isinstance(res, tuple) and len(res) == k and all(isinstance(r, Poly) for r in res)
                ex.oblige("post.one_result_per_argument_in_order", z3.BoolVal(ok), "post")
                if not ok:
                    return
                common = ex.inputs[0].shape
                for p in ex.inputs[1:]:
                    common = bshape(common, p.shape)
                for j, (r, p) in enumerate(zip(res, ex.inputs)):
                    ex.oblige(f"post.common_shape[{j}]", r.shape == common, "post")
                    ex.oblige(f"post.dtype_kept[{j}]", r.dtype == p.dtype, "post",
                              note="broadcasting must not promote the coefficient dtype")
                    ex.oblige(f"post.unchanged_when_already_of_the_common_shape[{j}]", z3.BoolVal(True) if r is p else z3.Not(p.shape == common), "post",
                              note="an operand that has the common shape comes back as the very same object (names and terms untouched)")
                    if r is p:
                        continue                 # returned unchanged: only legal when the shape already is the common one
                    fa = getattr(r, "from_attrs", None)
                    okp = fa is not None
                    ex.oblige(f"post.rebuilt_from_own_attributes[{j}]", z3.BoolVal(
                        okp and getattr(fa["E"], "source", None) is p and isinstance(fa["names"], Poly)
                        and getattr(fa["names"], "indeterminants_of", None) is p), "post")
                    if not okp:
                        continue
                    Cin = V.as_seq(ex, fa["C"])
                    ex.oblige(f"post.coefficients_are_broadcast_copies[{j}]", z3.And(Cin.n == p.N, ctx.forall_range(
                        0, p.N, lambda t: z3.And(Cin.item(t).shape == common, ctx.forall_idx(
                            lambda i: Cin.item(t).elem(i) == p.C(t, proj(i, common, p.shape)), common)))), "post")
                    # bridge B1+B2 (premises established just above)
                    ctx.assume(ctx.forall_idx(lambda i: r.val(i) == p.val(proj(i, common, p.shape)), common))
                    ex.oblige(f"post.denotes_broadcast_argument[{j}]", ctx.forall_idx(
                        lambda i: r.val(i) == p.val(proj(i, common, p.shape)), common), "post")
                    ex.oblige(f"post.fresh[{j}]", z3.BoolVal(r.region.owner == "fresh"), "post")
            yield Case(f"arity={k}", make_env, check)

    def apply(self, ex, args, kw, node):
        polys = list(args)
        if not all(isinstance(p, Poly) for p in polys):
            raise U("align_shape of non-ndpoly operands", node)
        ctx = ex.ctx
        site = ex.site("align_shape")
        shape = polys[0].shape
        for p in polys[1:]:
            ex.oblige(f"pre({site}).shapes_broadcast", bok(shape, p.shape), "precondition", node)
            shape = bshape(shape, p.shape)
        out = []
        from contracts.construct import keyok
        for k, p in enumerate(polys):
            q = Poly(ctx, ctx.fresh(f"as{k}"), shape=shape, dtype=p.dtype, region=Region("caller", "align_shape result (may be the argument)"))
            ctx.assume(q.wf(ctx))
            ctx.assume(ctx.forall_range(0, q.N, lambda t, q=q: keyok(q.row(t), q.D)))
            ctx.assume(ctx.forall_idx(lambda i, p=p, q=q: q.val(i) == p.val(proj(i, shape, p.shape)), shape))
            # an operand of the common shape comes back as it is (post.unchanged_when_already_of_the_common_shape)
            ctx.assume(z3.Implies(p.shape == shape, z3.And(q.names == p.names, q.D == p.D)))
            out.append(q)
        return tuple(out)


class AlignIndeterminants(Contract):
    name = "numpoly.align_indeterminants"
    relpath = "numpoly/align.py"
    func = "align_indeterminants"
    properties = ("C04", "C17", "C15")
    assumptions = ("B3: re-indexing the exponent columns by indeterminate name (zero exponent for names a polynomial does not "
                   "mention) does not change the polynomial denoted",
                   "A6: names are canonical (prefix + decimal index), so sorting by the numeric suffix is sorting by index",
                   "CPython set/sorted semantics for the union of the name tuples (axiom sorted_union); arity 1..2 enumerated (thorough tier: 3)")

    def cases(self):
        from engine.contract import deep
        for k in ((1, 2, 3) if deep() else (1, 2)):
            def make_env(ex, k=k):
                ps = sym_polys(ex, k, broadcast=False)
                ex.inputs = ps
                ex.pair_hints = [(lambda t, s, p=p: meq(p.row(t), p.row(s), p.D)) for p in ps]
                return {"polys": tuple(ps)}

            def check(out, k=k):
                self._check(out, k)
            yield Case(f"arity={k}", make_env, check)

    def _check(self, out, k):
        from engine.polymodel import nin, npos, nat
        from engine.logic import expo, rank
        ex, ctx = out.ex, out.ctx
        ex.oblige(f"raises.nothing[{out.exc}:{out.value}]" if out.kind == "raise" else "raises.nothing", z3.BoolVal(out.kind == "return"), "post")
        if out.kind != "return":
            return
        res = out.value
        ok = isinstance(res, tuple) and len(res) == k and all(isinstance(r, Poly) for r in res)
        ex.oblige("post.one_result_per_argument_in_order", z3.BoolVal(ok), "post")
        if not ok:
            return
        cnv = out.env.get("common_names")
        okc = isinstance(cnv, NamesV) and getattr(cnv, "union_of", None) is not None and \
            len(cnv.union_of) == k and all(z3.eq(t, p.names) for t, p in zip(cnv.union_of, ex.inputs))
        ex.oblige("post.common_names_are_the_sorted_union_of_all_operand_names", z3.BoolVal(bool(okc)), "post")
        if not okc:
            return
        cn = cnv.term
        ex.oblige("post.common_names.distinct", names_distinct(ctx, cn), "post")
        ex.oblige("post.common_names.in_index_order", ctx.forall_range2(0, nlen(cn), lambda e, f: rank(nat(cn, e)) <= rank(nat(cn, f))), "post")
        for j, (r, p) in enumerate(zip(res, ex.inputs)):
            ex.oblige(f"post.common_names.contain_operand_names[{j}]", ctx.forall_range(0, p.D, lambda d: nin(cn, nat(p.names, d))), "post")
            ex.oblige(f"post.shape_kept[{j}]", r.shape == p.shape, "post")
            ex.oblige(f"post.dtype_kept[{j}]", r.dtype == p.dtype, "post")
            if r is p:
                ex.oblige(f"post.unchanged_only_with_the_common_names[{j}]", p.names == cn, "post")
                continue
            fa = getattr(r, "from_attrs", None)
            okf = fa is not None and isinstance(fa["names"], NamesV) and z3.eq(fa["names"].term, cn)
            ex.oblige(f"post.rebuilt_on_the_common_names[{j}]", z3.BoolVal(bool(okf)), "post")
            if not okf:
                continue
            ex.oblige(f"post.nothing_pruned[{j}]", z3.BoolVal(fa["rc"] is True and fa["rn"] is True), "post",
                      note="alignment must keep every term and every (still unused) common name, whatever the options")
            ex.oblige(f"post.own_coefficients[{j}]", z3.BoolVal(getattr(fa["C"], "source", (None,))[0] is p), "post")
            E = fa["E"]
            ex.oblige(f"post.one_row_per_term_one_column_per_common_name[{j}]", z3.And(E.n == p.N, E.D == nlen(cn)), "post")
            ex.oblige(f"post.exponents_moved_to_the_column_of_their_name[{j}]", ctx.forall_range(0, p.N, lambda t: ctx.forall_range(
                0, p.D, lambda d: expo(E.row(t), npos(cn, nat(p.names, d))) == expo(p.row(t), d))), "post")
            ex.oblige(f"post.zero_exponent_for_names_not_mentioned[{j}]", ctx.forall_range(0, p.N, lambda t: ctx.forall_range(
                0, nlen(cn), lambda c: z3.Implies(z3.Not(nin(p.names, nat(cn, c))), expo(E.row(t), c) == 0))), "post")
            ex.oblige(f"post.fresh[{j}]", z3.BoolVal(r.region.owner == "fresh"), "post")
            # bridge B3 (premises just established)
            ctx.assume(ctx.forall_idx(lambda i, r=r, p=p: r.val(i) == p.val(i), p.shape))
            ex.oblige(f"post.denotes_argument[{j}]", ctx.forall_idx(lambda i, r=r, p=p: r.val(i) == p.val(i), p.shape), "post")

    def apply(self, ex, args, kw, node):
        from engine.polymodel import sorted_union
        polys = list(args)
        if not all(isinstance(p, Poly) for p in polys):
            raise U("align_indeterminants of non-ndpoly operands", node)
        ctx = ex.ctx
        cnv = sorted_union(ex, [p.names for p in polys])
        names = cnv.term
        D = nlen(names)
        ctx.assume(D >= 1)
        out = []
        from contracts.construct import keyok
        for k, p in enumerate(polys):
            q = Poly(ctx, ctx.fresh(f"ai{k}"), N=p.N, D=D, shape=p.shape, dtype=p.dtype, names=names,
                     C=p.frozenC(), region=Region("caller", "align_indeterminants result (may be the argument)"))
            ctx.assume(q.wf(ctx))
            ctx.assume(ctx.forall_range(0, q.N, lambda t, q=q: keyok(q.row(t), q.D)))
            ctx.assume(ctx.forall_idx(lambda i, p=p, q=q: q.val(i) == p.val(i), p.shape))
            out.append(q)
        hook = getattr(ex, "hooks", {}).get("after_align_indeterminants")
        if hook:
            hook(ex, out)
        return tuple(out)


class AlignExponents(Contract):
    name = "numpoly.align_exponents"
    relpath = "numpoly/align.py"
    func = "align_exponents"
    properties = ("C04", "C12", "C17")
    assumptions = ("B4 (adding all-zero terms / reordering terms does not change the abstract value)",
                   "arity 1..3 enumerated (thorough tier: 4); assumed contract of align_indeterminants on the different-names path")

    def cases(self):
        from engine.contract import deep
        for k in ((1, 2, 3, 4) if deep() else (1, 2, 3)):
            def make_env(ex, k=k):
                ps = sym_polys(ex, k, broadcast=False)
                ex.inputs = ps
                ex.hooks = {"after_align_indeterminants": lambda ex_, res: setattr(ex_, "aligned_inputs", list(res))}
                return {"polys": tuple(ps)}

            def check(out, k=k):
                self._check(out, k)
            yield Case(f"arity={k}", make_env, check)

    def _check(self, out, k):
        ex, ctx = out.ex, out.ctx
        ex.oblige("raises.nothing", z3.BoolVal(out.kind == "return"), "post")
        if out.kind != "return":
            return
        res = out.value
        ok = isinstance(res, tuple) and len(res) == k and all(isinstance(r, Poly) and hasattr(r, "from_attrs") for r in res)
        ex.oblige("post.one_rebuilt_result_per_argument_in_order", z3.BoolVal(ok), "post")
        if not ok:
            return
        r0 = res[0]
        for j, r in enumerate(res):
            fa = r.from_attrs
            ex.oblige(f"post.fresh[{j}]", z3.BoolVal(r.region.owner == "fresh"), "post")
            ex.oblige(f"post.retains_every_term_and_name[{j}]", z3.BoolVal(fa["rc"] is True and fa["rn"] is True), "post",
                      note="alignment must not prune: the results have to share rows and keys")
            ex.oblige(f"post.same_rows_as_first[{j}]", z3.And(r.N == r0.N, r.D == r0.D, ctx.forall_range(
                0, r0.N, lambda t: r.row(t) == r0.row(t))), "post")
            ex.oblige(f"post.same_names_as_first[{j}]", r.names == r0.names, "post")
        from engine.polymodel import nin, nat
        for j, x in enumerate(ex.inputs):
            ex.oblige(f"post.names_contain_the_names_of_argument[{j}]", ctx.forall_range(0, x.D, lambda d, x=x: nin(r0.names, nat(x.names, d))), "post",
                      note="no indeterminate of an operand is missing from the common names")
        # coefficient level: every term of operand j sits at its row with its coefficient; other rows are zero
        work = getattr(ex, "aligned_inputs", None) or ex.inputs
        for j, (r, p) in enumerate(zip(res, work)):
            ex.oblige(f"post.shape_kept[{j}]", r.shape == p.shape, "post")
            ex.oblige(f"post.dtype_kept[{j}]", r.dtype == p.dtype, "post")
            # witness for "term t of operand j is present": its position among the unique stacked rows
            lu = getattr(ex, "last_unique", None)
            if lu is not None and getattr(lu.unique_of[0], "stack_of", None):
                X, uq = lu.unique_of
                off = X.stack_of[1][j]
                where = (lambda t, off=off, uq=uq: uq.pos(t if (isinstance(off, int) and off == 0) else t + off))
                ex.oblige(f"post.terms_kept[{j}]", ctx.forall_range(0, p.N, lambda t: z3.And(
                    0 <= where(t), where(t) < r.N, meq(r.row(where(t)), p.row(t), p.D),
                    ctx.forall_idx(lambda i: r.C(where(t), i) == p.C(t, i), p.shape))), "post",
                    note="each term of the operand is present in the result with the same coefficient")
            else:
                ex.oblige(f"post.terms_kept[{j}]", z3.BoolVal(False), "post", note="no unique/vstack provenance found")
            ex.oblige(f"post.no_new_terms[{j}]", ctx.forall_range(0, r.N, lambda g: z3.Implies(
                ctx.forall_range(0, p.N, lambda t: z3.Not(meq(p.row(t), r.row(g), p.D))),
                ctx.forall_idx(lambda i: r.C(g, i) == 0, p.shape))), "post",
                note="rows that do not occur in the operand carry an all-zero coefficient")
            # bridge B4 (premises just established; rows of r are pairwise distinct by WF)
            ctx.assume(ctx.forall_idx(lambda i, r=r, p=p: r.val(i) == p.val(i), p.shape))
        # value relative to the arguments themselves
        for j, (r, x) in enumerate(zip(res, ex.inputs)):
            ex.oblige(f"post.denotes_argument[{j}]", ctx.forall_idx(lambda i, r=r, x=x: r.val(i) == x.val(i), x.shape), "post")

    def apply(self, ex, args, kw, node):
        polys = list(args)
        if not all(isinstance(p, Poly) for p in polys):
            # the first statement converts every operand with aspolynomial: a numeric array becomes the constant polynomial
            # array with that coefficient (input kind `array` of numpoly.polynomial, proved in contracts/polynomial.py)
            from engine.polymodel import Arr
            from contracts.polynomial import Polynomial
            conv = []
            for p in polys:
                if isinstance(p, Poly):
                    conv.append(p)
                elif isinstance(p, Arr) and p.kind == "real":
                    conv.append(Polynomial().apply(ex, [p], {}, node))
                else:
                    raise U("align_exponents of operands that are neither ndpoly nor numeric arrays", node)
            polys = conv
        res = aligned_family(ex, polys, base=ex.ctx.fresh("ae"), same_shape=False, names_contain=True)
        hook = getattr(ex, "hooks", {}).get("after_align")
        if hook:
            hook(ex, res)
        return tuple(res)


class AlignPolynomials(Contract):
    name = "numpoly.align_polynomials"
    relpath = "numpoly/align.py"
    func = "align_polynomials"
    properties = ("C04",)

    def cases(self):
        from engine.contract import deep
        for k in ((1, 2, 3, 4) if deep() else (1, 2, 3)):
            def make_env(ex, k=k):
                ps = sym_polys(ex, k)
                ex.inputs = ps
                ex.ghost = {}

                def after(ex_, res):
                    ex_.ghost["ae_result"] = res
                ex.hooks = {"after_align": after}
                return {"polys": tuple(ps)}

            def check(out, k=k):
                ex, ctx = out.ex, out.ctx
                ex.oblige("raises.nothing", z3.BoolVal(out.kind == "return"), "post")
                if out.kind != "return":
                    return
                res = out.value
                ok = isinstance(res, tuple) and len(res) == k and all(isinstance(r, Poly) for r in res)
                ex.oblige("post.one_result_per_argument_in_order", z3.BoolVal(ok), "post")
                if not ok:
                    return
                ex.oblige("post.is_result_of_align_exponents", z3.BoolVal(tuple(ex.ghost.get("ae_result", ())) == res), "post")
                common = ex.inputs[0].shape
                for p in ex.inputs[1:]:
                    common = bshape(common, p.shape)
                r0 = res[0]
                for j, (r, x) in enumerate(zip(res, ex.inputs)):
                    ex.oblige(f"post.common_shape[{j}]", r.shape == common, "post")
                    ex.oblige(f"post.shared_rows_names[{j}]", z3.And(r.N == r0.N, r.D == r0.D, r.names == r0.names,
                                                                     ctx.forall_range(0, r0.N, lambda t: r.row(t) == r0.row(t))), "post")
                    ex.oblige(f"post.denotes_broadcast_argument[{j}]", ctx.forall_idx(
                        lambda i, r=r, x=x: r.val(i) == x.val(proj(i, common, x.shape)), common), "post")
                    ex.oblige(f"post.dtype_kept[{j}]", r.dtype == x.dtype, "post")
                    from engine.polymodel import nin, nat
                    same = z3.And(*[y.shape == common for y in ex.inputs])
                    ex.oblige(f"post.names_contain_the_names_of_argument_when_no_shape_is_changed[{j}]", z3.Implies(same, ctx.forall_range(
                        0, x.D, lambda d, x=x: nin(r0.names, nat(x.names, d)))), "post",
                        note="(an operand that has to be broadcast is rebuilt under the retain_names option and may lose names it does not use)")
            yield Case(f"arity={k}", make_env, check)

    def apply(self, ex, args, kw, node):
        site = ex.site("align_polynomials")
        polys = list(args)
        if not all(isinstance(p, Poly) for p in polys):
            raise U("align_polynomials of non-ndpoly operands (input kinds are covered by aspolynomial's contract)", node)
        shape = polys[0].shape
        for p in polys[1:]:
            ex.oblige(f"pre({site}).shapes_broadcast", bok(shape, p.shape), "precondition", node)
            shape = bshape(shape, p.shape)
        res = aligned_family(ex, polys, base=ex.ctx.fresh("al"), shape=shape, names_contain=z3.And(*[p.shape == shape for p in polys]))
        hook = getattr(ex, "hooks", {}).get("after_align")
        if hook:
            hook(ex, res)
        return tuple(res)


CONTRACTS = [AlignPolynomials(), AlignExponents(), AlignShape(), AlignIndeterminants()]
