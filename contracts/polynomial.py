"""Contract for numpoly.construct.polynomial.polynomial (properties C03, C12): the input kinds
    dict {exponent tuple: coefficient}   -> one term per entry (todict() regenerates the polynomial: C03)
    ndpoly                                -> its own exponents, coefficients and (unless given) names
    number / numpy array                  -> the constant polynomial array with that coefficient
are proved from the real source to hand exactly those attributes, with names/dtype/allocation forwarded, to
polynomial_from_attributes (proved).
    raw structured array (poly.values)    -> one term per FIELD: the field names are decoded back to exponent rows with the same
                                             KEY_OFFSET that ndpoly.__new__ encoded them with (codec, C20), every field's
                                             array is a coefficient, in field order (C03: the raw view regenerates the polynomial)
Sympy objects and nested lists (compose_polynomial_array) are outside this proof: bounded run-time checks.
"""
from __future__ import annotations
import z3
from engine.contract import Contract, Case
from engine import values as V
from engine.values import U
from engine.logic import I, Idx, R, Shp, DT, Mono, PV
from engine.polymodel import (Poly, Arr, ExpMat, MonoRow, NamesV, DTypeV, SymDict, IndetElem, Region, Names, nlen, shape_axioms,
                              mono_axioms, mono_zero, shp0, dt_int)
from engine.sortmodel import order_axioms
from contracts.construct import keyok, eok_axioms
from contracts.baseclass import own_poly, own_attributes
from engine.codecmodel import StrVec, KeyStr, key_offset_of, prod_axioms
from engine.sortmodel import IntVec
from engine.logic import expo


class FieldNames:
    """`raw.dtype.names`: the tuple of field names of a structured array laid out like ndpoly storage - n strings of exactly D
    characters, character d of name t being the code point  E(t, d) + KEY_OFFSET  (representation invariant established by
    ndpoly.__new__: contracts/codec.py)"""

    def __init__(self, raw):
        self.raw = raw
        self.vec = StrVec(raw.P.N, raw.P.D, raw.cp)

    def sx_truth(self, ex):
        return self.raw.P.N >= 1

    def sx_len(self, ex):
        return self.raw.P.N

    def sx_seq(self, ex):
        return V.Seq(self.raw.P.N, lambda t: KeyStr(self.vec, t))

    def sx_iter(self, ex):
        return None


class RawDType:
    def __init__(self, raw):
        self.raw = raw

    def sx_getattr(self, ex, attr, node):
        if attr == "names":
            return FieldNames(self.raw)
        raise U(f"dtype.{attr} of a raw structured array", node)


class RawStructured:
    """a plain numpy structured array with the storage layout of the polynomial P (what `P.values` hands out)"""

    def __init__(self, ex, P, K):
        self.P, self.K = P, K
        ctx = ex.ctx
        cpf = ctx.func("cp", I, I, I)
        t, d = z3.Int(ctx.fresh("t")), z3.Int(ctx.fresh("d"))
        ctx.assume(z3.ForAll([t, d], z3.Implies(z3.And(0 <= t, t < P.N, 0 <= d, d < P.D), cpf(t, d) == expo(P.row(t), d) + K),
                             patterns=[cpf(t, d)]))
        self.cp = lambda t, d: cpf(t, d)

    def sx_isinstance(self, ex, name):
        return name == "numpy.ndarray"

    def sx_getattr(self, ex, attr, node):
        if attr == "dtype":
            return RawDType(self)
        raise U(f"raw structured array .{attr}", node)

    def sx_getitem(self, ex, idx, node):
        if isinstance(idx, KeyStr) and idx.vec.cp is self.cp:
            ex.oblige(f"pre({ex.site('field')}).field_exists", z3.And(0 <= idx.t, idx.t < self.P.N), "index", node)
            return self.P.column(ex, idx.t)
        raise U("raw structured array indexed by something that is not one of its own field names", node)


def install_axioms(reg):
    ax = reg.axiom
    prev_asarray = reg.fn["numpy.asarray"]
    prev_max = reg.fn["numpy.max"]

    @ax("numpy.asarray")
    def asarray(ex, args, kw, node):
        if len(args) == 1 and isinstance(args[0], FieldNames) and kw == {"dtype": "U"}:
            # numpy picks the width of the longest name; every name has exactly D characters (none of them NUL)
            return args[0].vec
        return prev_asarray(ex, args, kw, node)

    @ax("numpy.char.str_len")
    def str_len(ex, args, kw, node):
        a = args[0]
        if isinstance(a, StrVec) and len(args) == 1 and not kw and isinstance(a.extra, int) and a.extra == 0:
            ctx = ex.ctx
            ex.oblige(f"pre({ex.site('str_len')}).no_trailing_NUL", ctx.forall_range(0, a.n, lambda t: a.cp(t, a.w - 1) != 0),
                      "precondition", node, note="numpy strips trailing NULs: a key ending in NUL would read back shorter")
            return IntVec(a.n, lambda t: a.w)
        raise U("numpy.char.str_len of this value", node)

    @ax("numpy.max")
    def amax(ex, args, kw, node):
        a = args[0]
        if isinstance(a, IntVec) and len(args) == 1 and not kw:
            ctx = ex.ctx
            ex.oblige(f"pre({ex.site('max')}).nonempty", a.n >= 1, "precondition", node, note="numpy.max of an empty array raises")
            m, t0 = ctx.int("max"), ctx.int("t_max")
            ctx.assume(ctx.forall_range(0, a.n, lambda t: m >= a.at(t)))
            ctx.assume(z3.And(0 <= t0, t0 < a.n, m == a.at(t0)))
            return m
        return prev_max(ex, args, kw, node)


class Polynomial(Contract):
    name = "numpoly.polynomial"
    relpath = "numpoly/construct/polynomial.py"
    func = "polynomial"
    properties = ("C03", "C12")
    positional = ("poly_like", "names", "dtype", "allocation")
    assumptions = ("input kinds proved: dict, ndpoly, number/array, raw structured array; sympy, nested lists: bounded",
                   "raw structured array: field names follow the ndpoly storage invariant (name t = E(t, .) + KEY_OFFSET as code "
                   "points, proved for ndpoly.__new__ in contracts/codec.py); numpy string axioms of engine/codecmodel.py")

    def cases(self):
        for kind in ("ndpoly", "ndpoly_named", "dict", "array", "number", "structured"):
            def make_env(ex, kind=kind):
                ctx = ex.ctx
                P = own_poly(ex, "poly_like")
                ex.P, ex.kind = P, kind
                ex.nm = ctx.const("names_arg", Names)
                ctx.assume(nlen(ex.nm) >= 1)
                ex.dt = ctx.const("dtype_arg", DT)
                ex.alloc = ctx.int("allocation_arg")
                names = NamesV(ex.nm) if kind != "ndpoly" else None
                if kind in ("ndpoly", "ndpoly_named"):
                    src = P
                elif kind == "structured":
                    for a in prod_axioms(ctx) + eok_axioms():
                        ctx.assume(a)
                    ctx.assume(ctx.forall_range(0, P.N, lambda t: keyok(P.row(t), P.D)))
                    src = RawStructured(ex, P, key_offset_of(ex.mod.repo))
                elif kind == "dict":
                    # {tuple(exponent): coefficient}: n entries with pairwise different keys of one width
                    n, D = ctx.int("n"), ctx.int("D")
                    kf = ctx.func("key", I, Mono)
                    cf = ctx.func("C_dict", I, Idx, R)
                    shp = ctx.const("shape_dict", Shp)
                    dtf = ctx.func("dtype_dict", I, DT)
                    ctx.assume(z3.And(n >= 1, D >= 1))
                    ctx.assume(ctx.forall_range(0, n, lambda t: keyok(kf(t), D)))
                    ex.d = dict(n=n, D=D, kf=kf, cf=cf, shp=shp, dtf=dtf)
                    src = SymDict(ex, n, lambda t: kf(t), lambda t: Arr(shp, lambda i, t=t: cf(t, i), "real", dtf(t), Region("caller", "value")), D)
                elif kind == "array":
                    af = ctx.func("data", Idx, R)
                    ex.arr = Arr(ctx.const("shape_data", Shp), lambda i: af(i), "real", ctx.const("dtype_data", DT), Region("caller", "data"))
                    src = ex.arr
                else:
                    ex.num = ctx.real("number")
                    src = ex.num
                # precondition on the (rarely used) allocation argument: room for twice the terms handed in
                n_in = P.N if kind in ("ndpoly", "ndpoly_named", "structured") else (ex.d["n"] if kind == "dict" else 1)
                ctx.assume(ex.alloc >= 2 * n_in)
                ex.hooks = {}
                return {"poly_like": src, "names": names, "dtype": DTypeV(ex.dt), "allocation": ex.alloc}

            def check(out, kind=kind):
                self._check(out, kind)
            yield Case(kind, make_env, check)

    def _check(self, out, kind):
        ex, ctx = out.ex, out.ctx
        P = ex.P
        if out.kind == "raise":
            # validation inside polynomial_from_attributes (name count, duplicate rows/names) may reject the request
            ex.oblige(f"raises.only_PolynomialConstructionError[{out.exc}]", z3.BoolVal(out.exc == "PolynomialConstructionError"), "post")
            return
        r = out.value
        ok = isinstance(r, Poly) and hasattr(r, "from_attrs")
        ex.oblige("post.built_by_polynomial_from_attributes", z3.BoolVal(ok), "post")
        if not ok:
            return
        fa = r.from_attrs
        # C12: a requested dtype reaches the constructor for EVERY kind of input (an earlier version of this clause had been written
        # from the code, which ignored the request for a raw structured array - repaired in /repo, abfa666)
        ex.oblige("post.dtype_forwarded", (fa["dtype"].term == ex.dt) if isinstance(fa["dtype"], DTypeV) else z3.BoolVal(False), "post")
        ex.oblige("post.retain_flags_left_to_the_options", z3.BoolVal(fa["rc"] is None and fa["rn"] is None), "post")
        ex.oblige("post.allocation_forwarded", z3.BoolVal(fa.get("allocation") is ex.alloc), "post")
        nm = fa["names"]
        if kind == "ndpoly":
            ex.oblige("post.names_default_to_the_polynomial_own_names", z3.BoolVal(isinstance(nm, NamesV) and nm.term is P.names), "post")
        else:
            ex.oblige("post.names_forwarded", z3.BoolVal(isinstance(nm, NamesV) and nm.term is ex.nm), "post")
        E, C = fa["E"], fa["C"]
        if kind in ("ndpoly", "ndpoly_named"):
            ex.oblige("post.own_exponents_and_coefficients", z3.BoolVal(own_attributes(E, C, P)), "post")
        elif kind == "structured":
            okE = isinstance(E, ExpMat)
            ex.oblige("post.exponent_matrix", z3.BoolVal(okE), "post")
            Cs = V.as_seq(ex, C)
            if okE:
                ex.oblige("post.one_term_per_field", z3.And(E.n == P.N, Cs.n == P.N, E.D == P.D), "post",
                          note="no field skipped, none invented: every stored term comes back")
                ex.oblige("post.field_names_decode_to_the_stored_exponents", ctx.forall_range(0, P.N, lambda t: ctx.forall_range(
                    0, P.D, lambda d: expo(E.row(t), d) == expo(P.row(t), d))), "post",
                    note="decode(name) = name - KEY_OFFSET per character: the inverse of the encoding in ndpoly.__new__")
                ex.oblige("post.coefficient_t_is_field_t", ctx.forall_range(0, P.N, lambda t: z3.And(
                    Cs.item(t).shape == P.shape, Cs.item(t).dtype == P.dtype,
                    ctx.forall_idx(lambda i: Cs.item(t).elem(i) == P.C(t, i), P.shape))), "post")
        elif kind == "dict":
            d = ex.d
            Cs = V.as_seq(ex, C)
            okE = isinstance(E, ExpMat)
            ex.oblige("post.exponent_matrix", z3.BoolVal(okE), "post")
            if okE:
                ex.oblige("post.one_term_per_entry", z3.And(E.n == d["n"], Cs.n == d["n"], E.D == d["D"]), "post")
                ex.oblige("post.term_t_is_entry_t", ctx.forall_range(0, d["n"], lambda t: z3.And(
                    E.row(t) == d["kf"](t), Cs.item(t).shape == d["shp"],
                    ctx.forall_idx(lambda i: Cs.item(t).elem(i) == d["cf"](t, i), d["shp"]))), "post",
                    note="exponent tuple -> key, coefficient -> value, entry by entry")
        else:
            okE = isinstance(E, ExpMat)
            ex.oblige("post.exponent_matrix", z3.BoolVal(okE), "post")
            Cs = V.as_seq(ex, C)
            if okE:
                from engine.logic import mzero
                ex.oblige("post.single_constant_term", z3.And(E.n == 1, E.D == 1, mzero(E.row(0), 1), Cs.n == 1), "post")
                c0 = Cs.item(z3.IntVal(0))
                if kind == "array":
                    ex.oblige("post.coefficient_is_the_data", z3.And(c0.shape == ex.arr.shape, ctx.forall_idx(
                        lambda i: c0.elem(i) == ex.arr.elem(i), ex.arr.shape)), "post")
                else:
                    ex.oblige("post.coefficient_is_the_number", z3.And(c0.shape == shp0, ctx.forall_idx(
                        lambda i: c0.elem(i) == ex.num, shp0)), "post")

    def apply(self, ex, args, kw, node):
        v = args[0]
        from contracts.shapefn import MovedRaw, rewrap
        if isinstance(v, MovedRaw) and len(args) == 1 and "names" in kw and set(kw) <= {"names", "allocation"}:
            return rewrap(ex, v, kw["names"], node, kw.get("allocation"))
        if isinstance(v, Poly) and len(args) == 1 and set(kw) <= {"names", "dtype", "allocation"}:
            # ndpoly branch (proved above): own exponents and coefficients, names default to the polynomial's own
            from contracts.construct import PolynomialFromAttributes
            names = kw.get("names")
            return PolynomialFromAttributes().apply(ex, [], dict(
                exponents=v.sx_getattr(ex, "exponents", node), coefficients=v.sx_getattr(ex, "coefficients", node),
                names=NamesV(v.names) if names is None else names, dtype=kw.get("dtype"), allocation=kw.get("allocation")), node)
        if kw or len(args) != 1:
            raise U("polynomial(...) with keywords at a call site", node)
        from contracts.numeric import NumpyResult
        if isinstance(v, NumpyResult):
            r = Poly(ex.ctx, ex.ctx.fresh("numeric"), region=Region("fresh", "polynomial(numeric result)"))
            r.of_numeric = v
            return r
        if isinstance(v, IndetElem):
            return v
        if isinstance(v, Arr):
            # number/array input kind (proved above): the single constant term whose coefficient is the data; B10: it denotes
            # the constant with that value at every position
            from contracts.division import pconst
            from engine.polymodel import _num
            r = Poly(ex.ctx, ex.ctx.fresh("const"), shape=v.shape, region=Region("fresh", "polynomial(array)"))
            ex.ctx.assume(r.wf(ex.ctx))
            if v.kind == "real":
                ex.ctx.assume(ex.ctx.forall_idx(lambda i: r.val(i) == pconst(_num(v.elem(i))), v.shape))
            r.constant_of = v
            return r
        if isinstance(v, (int, float)) or (isinstance(v, z3.ArithRef)):
            return Poly(ex.ctx, ex.ctx.fresh("const"), shape=shp0, region=Region("fresh", "polynomial(number)"))
        raise U("polynomial(...) of this input kind", node)


class AsPolynomialBody(Contract):
    """aspolynomial(poly_like, names=None, dtype=None) for an ndpoly operand: the very same object is returned exactly when
    neither another dtype nor other names are requested; otherwise polynomial(poly_like, names=..., dtype=...)."""
    name = "numpoly.aspolynomial"
    relpath = "numpoly/construct/aspolynomial.py"
    func = "aspolynomial"
    properties = ("C03", "C17", "C12")
    positional = ("poly_like", "names", "dtype")

    def cases(self):
        for nk in ("none", "own_indeterminants", "own_tuple", "other_tuple"):
            for dk in ("none", "given"):
                def make_env(ex, nk=nk, dk=dk):
                    ctx = ex.ctx
                    P = own_poly(ex, "poly_like", allocation=False)
                    ex.P = P
                    ex.dt = ctx.const("dtype_arg", DT)
                    ex.nm = ctx.const("names_arg", Names)
                    ctx.assume(nlen(ex.nm) == P.D)          # (a single name for several indeterminates is expanded: not in this proof)
                    ctx.assume(P.D >= 2)
                    names = {"none": None, "own_indeterminants": P.sx_getattr(ex, "indeterminants", None),
                             "own_tuple": NamesV(P.names), "other_tuple": NamesV(ex.nm)}[nk]
                    return {"poly_like": P, "names": names, "dtype": None if dk == "none" else DTypeV(ex.dt)}

                def check(out, nk=nk, dk=dk):
                    ex, ctx = out.ex, out.ctx
                    P = ex.P
                    if out.kind == "raise":
                        ex.oblige(f"raises.only_PolynomialConstructionError[{out.exc}]",
                                  z3.BoolVal(out.exc == "PolynomialConstructionError" and nk == "other_tuple"), "post")
                        return
                    r = out.value
                    same_names = z3.BoolVal(True) if nk in ("none", "own_indeterminants", "own_tuple") else (ex.nm == P.names)
                    same_dtype = z3.BoolVal(True) if dk == "none" else (ex.dt == P.dtype)
                    if r is P:
                        ex.oblige("post.same_object_only_if_nothing_else_was_requested", z3.And(same_names, same_dtype), "post")
                        return
                    ex.oblige("post.rebuilt_only_if_something_else_was_requested", z3.Not(z3.And(same_names, same_dtype)), "post",
                              note="an ndpoly that already has the requested names and dtype must come back as the same object")
                    ok = isinstance(r, Poly) and hasattr(r, "from_attrs")
                    ex.oblige("post.rebuilt_by_polynomial", z3.BoolVal(ok), "post")
                    if not ok:
                        return
                    fa = r.from_attrs
                    ex.oblige("post.own_exponents_and_coefficients", z3.BoolVal(own_attributes(fa["E"], fa["C"], P)), "post")
                    if dk == "given":
                        ex.oblige("post.dtype_forwarded", (fa["dtype"].term == ex.dt) if isinstance(fa["dtype"], DTypeV) else z3.BoolVal(False), "post")
                    ex.oblige("post.fresh", z3.BoolVal(r.region.owner == "fresh"), "post")
                yield Case(f"names={nk},dtype={dk}", make_env, check)

    def apply(self, ex, args, kw, node):
        p = args[0]
        if isinstance(p, Poly) and len(args) == 1 and not kw:
            return p
        from contracts.shapefn import MovedRaw, rewrap
        if isinstance(p, MovedRaw) and len(args) == 1 and set(kw) == {"names"}:
            return rewrap(ex, p, kw["names"], node)
        if isinstance(p, Arr) and len(args) == 1 and not kw:
            # number/array input kind of polynomial() (proved above): the constant polynomial array with that coefficient
            r = Poly(ex.ctx, ex.ctx.fresh("const"), shape=p.shape, dtype=p.dtype, region=Region("fresh", "aspolynomial(array)"))
            ex.ctx.assume(r.wf(ex.ctx))
            r.constant_of = p
            return r
        raise U("aspolynomial of this input kind", node)


CONTRACTS = [Polynomial(), AsPolynomialBody()]
