"""Order-law lemmas of C07, posed once on the *specification* of the comparison contracts
(independent of the code): over operands sharing exponent rows (the situation
align_polynomials establishes) the six postconditions describe one strict total order.

  w_XY(i): largest differing term of X and Y at position i (or -1), as characterised by
           contracts.compare.spec_witness
  gt(X,Y)(i) := w != -1 and X.C(w,i) > Y.C(w,i)        ge := w == -1 or X.C(w,i) >= Y.C(w,i)
  lt, le symmetric;   eq := forall t. X.C(t,i) == Y.C(t,i);   ne := not eq
"""
from __future__ import annotations
import z3
from engine.logic import Ctx, I, Idx, Mono, R, inshape
from engine.polymodel import Poly, shape_axioms
from engine.sortmodel import order_axioms, glexle, meq
from contracts.compare import spec_witness


def _family(ctx, n):
    N, D = z3.Int("N"), z3.Int("D")
    rf = z3.Function("row", I, Mono)
    shape = None
    ps = []
    for k in range(n):
        p = Poly(ctx, "ABC"[k], N=N, D=D, row=lambda t: rf(t), shape=shape)
        shape = p.shape
        ps.append(p)
    ctx.assume(ps[0].wf(ctx))
    for a in order_axioms(ctx):
        ctx.assume(a)
    return ps


def _w(ctx, X, Y, name, shape, g, r):
    wf_ = z3.Function(name, Idx, I)
    w = lambda i: wf_(i)
    for _, f in spec_witness(ctx, X, Y, w, shape, g, r):
        ctx.assume(f)
    return w


def obligations():
    """Returns engine.logic.Obligation objects (function name `lemma.order`)."""
    out = []
    g, r = z3.Bool("graded"), z3.Bool("reverse")

    def gt(X, Y, w, i):
        return z3.And(w(i) != -1, X.C(w(i), i) > Y.C(w(i), i))

    def lt(X, Y, w, i):
        return z3.And(w(i) != -1, X.C(w(i), i) < Y.C(w(i), i))

    def ge(X, Y, w, i):
        return z3.Or(w(i) == -1, X.C(w(i), i) >= Y.C(w(i), i))

    def le(X, Y, w, i):
        return z3.Or(w(i) == -1, X.C(w(i), i) <= Y.C(w(i), i))

    def eq(ctx, X, Y, i):
        return ctx.forall_range(0, X.N, lambda t: X.C(t, i) == Y.C(t, i))

    # --- pairwise laws
    ctx = Ctx("lemma.order")
    A, Bp = _family(ctx, 2)
    S = A.shape
    w = _w(ctx, A, Bp, "w_AB", S, g, r)
    w2 = _w(ctx, A, Bp, "w_AB_other", S, g, r)      # any other witness function
    wr = _w(ctx, Bp, A, "w_BA", S, g, r)
    fa = lambda f: ctx.forall_idx(f, S)
    ctx.oblige("vacuity.pairwise", z3.BoolVal(False), "vacuity")
    ctx.oblige("witness_unique", fa(lambda i: w(i) == w2(i)), "lemma")
    ctx.oblige("witness_symmetric", fa(lambda i: w(i) == wr(i)), "lemma")
    ctx.assume(fa(lambda i: w(i) == wr(i)))
    ctx.oblige("trichotomy.at_least_one", fa(lambda i: z3.Or(lt(A, Bp, w, i), eq(ctx, A, Bp, i), gt(A, Bp, w, i))), "lemma")
    ctx.oblige("trichotomy.at_most_one", fa(lambda i: z3.And(
        z3.Not(z3.And(lt(A, Bp, w, i), gt(A, Bp, w, i))),
        z3.Not(z3.And(lt(A, Bp, w, i), eq(ctx, A, Bp, i))),
        z3.Not(z3.And(gt(A, Bp, w, i), eq(ctx, A, Bp, i))))), "lemma")
    ctx.oblige("complement.ge_is_not_lt", fa(lambda i: ge(A, Bp, w, i) == z3.Not(lt(A, Bp, w, i))), "lemma")
    ctx.oblige("complement.le_is_not_gt", fa(lambda i: le(A, Bp, w, i) == z3.Not(gt(A, Bp, w, i))), "lemma")
    ctx.oblige("antisymmetry.gt_swaps_to_lt", fa(lambda i: gt(A, Bp, w, i) == lt(Bp, A, wr, i)), "lemma")
    ctx.oblige("eq_iff_no_witness", fa(lambda i: eq(ctx, A, Bp, i) == (w(i) == -1)), "lemma")
    out.extend(ctx.obls)

    # --- transitivity over three operands sharing rows
    ctx = Ctx("lemma.order")
    A, Bp, C = _family(ctx, 3)
    S = A.shape
    wab = _w(ctx, A, Bp, "w_AB", S, g, r)
    wbc = _w(ctx, Bp, C, "w_BC", S, g, r)
    wac = _w(ctx, A, C, "w_AC", S, g, r)
    fa = lambda f: ctx.forall_idx(f, S)
    # case split on which of the two witnesses is larger (three lemma steps)
    i0 = z3.Const("i0", Idx)
    ctx.assume(inshape(i0, S))
    ctx.assume(lt(A, Bp, wab, i0))
    ctx.assume(lt(Bp, C, wbc, i0))
    t1, t2 = wab(i0), wbc(i0)
    big = z3.If(glexle(A.row(t1), A.row(t2), A.D, g, r), t2, t1)
    ctx.oblige("vacuity.transitivity", z3.BoolVal(False), "vacuity")
    ctx.oblige("transitivity.differs_at_larger_witness", A.C(big, i0) < C.C(big, i0), "lemma")
    ctx.assume(A.C(big, i0) < C.C(big, i0))
    ctx.oblige("transitivity.agree_above",
               ctx.forall_range(0, A.N, lambda u: z3.Implies(
                   z3.And(z3.Not(glexle(A.row(u), A.row(big), A.D, g, r))), A.C(u, i0) == C.C(u, i0))), "lemma")
    ctx.assume(ctx.forall_range(0, A.N, lambda u: z3.Implies(
        z3.Not(glexle(A.row(u), A.row(big), A.D, g, r)), A.C(u, i0) == C.C(u, i0))))
    ctx.oblige("transitivity.witness_is_larger_one", wac(i0) == big, "lemma")
    ctx.assume(wac(i0) == big)
    ctx.oblige("transitivity.lt", lt(A, C, wac, i0), "lemma")
    out.extend(ctx.obls)

    # --- constants order as numbers: a single constant row
    ctx = Ctx("lemma.order")
    A, Bp = _family(ctx, 2)
    S = A.shape
    ctx.assume(A.N == 1)
    w = _w(ctx, A, Bp, "w_AB", S, g, r)
    fa = lambda f: ctx.forall_idx(f, S)
    ctx.oblige("vacuity.constants", z3.BoolVal(False), "vacuity")
    ctx.oblige("constants.gt_is_numeric", fa(lambda i: gt(A, Bp, w, i) == (A.C(0, i) > Bp.C(0, i))), "lemma")
    ctx.oblige("constants.le_is_numeric", fa(lambda i: le(A, Bp, w, i) == (A.C(0, i) <= Bp.C(0, i))), "lemma")
    out.extend(ctx.obls)
    return out
