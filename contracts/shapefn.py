"""Contracts for the shape functions of numpoly/array_function/ (property C09; C11 for constants; C17 frames).

Family 1 - "raw movers": reshape, transpose, repeat, tile, expand_dims, atleast_1d/2d/3d, diag, diagonal, split,
array_split, hsplit, vsplit, dsplit, broadcast_arrays.  Each is proved (real source) to
    * hand the WHOLE raw structured storage `poly.values` of its operand to the numpy function of the same name
      (so every coefficient of an element moves together - numpy's movers are dtype-agnostic: axiom),
    * forward every user parameter to the numpy parameter of the same name, using only keywords/positions that the
      INSTALLED numpy accepts (signature read from the installed numpy on every run),
    * rebuild the result with the operand's own indeterminate names.
Family 2 - "column-wise joins": concatenate, stack, hstack, vstack, dstack.  Each is proved to align the operands'
exponents, apply the numpy namesake to the t-th coefficient columns of ALL operands in order for EVERY term t with
the axis forwarded, and to build the result from the aligned rows and names.

That numpy's function F moves records of a structured array exactly as it moves the elements of any other array,
and that a polynomial array rebuilt from moved records / from columns joined with one index map holds at position j
the polynomial numpy would have placed there, is bridge B6 (trusted; conformance = the bounded run-time check
against numpy on an object array of model polynomials, conc/checks_c09.py).
"""
from __future__ import annotations
import json
import os
import subprocess
import tempfile
import z3
from engine.contract import Contract, Case
from engine.sx import LoopSpec
from engine import values as V
from engine.values import U
from engine.logic import I, Idx, Shp
from engine.polymodel import Poly, Arr, NamesV, ValuesView, Region, shape_axioms, mono_axioms
from contracts.align import sym_polys
from contracts.baseclass import own_poly

_SIG = {}


def numpy_signatures():
    """parameter names of the installed numpy's callables (asked from the run-time interpreter once per process)"""
    if not _SIG:
        here = os.path.dirname(os.path.dirname(os.path.abspath(__file__)))
        with tempfile.NamedTemporaryFile("r", suffix=".json", delete=False) as fh:
            out = fh.name
        try:
            subprocess.run(["/venv/bin/python", os.path.join(here, "conc", "host.py"), "signatures", "--out", out],
                           capture_output=True, text=True, timeout=120, cwd=here)
            _SIG.update(json.load(open(out)))
        finally:
            if os.path.exists(out):
                os.unlink(out)
    return _SIG


class Tok:
    """an opaque user argument (axis, shape, repeats, ...): only its identity matters"""

    def __init__(self, name):
        self.name = name

    def __repr__(self):
        return f"<argument {self.name}>"


class MovedRaw:
    """numpy.F(poly.values, ...): the raw structured result of a numpy mover"""

    def __init__(self, src, fname, bound, piece=None):
        self.src, self.fname, self.bound, self.piece = src, fname, bound, piece


class MovedPieces:
    """list returned by the numpy split family / broadcast_arrays"""

    def __init__(self, ex, moved):
        self.moved = moved
        self.n = ex.ctx.int("pieces")
        ex.ctx.assume(self.n >= 0)

    def sx_seq(self, ex):
        m = self.moved
        return V.Seq(self.n, lambda k: MovedRaw(m.src, m.fname, m.bound, piece=k))

    def sx_iter(self, ex):
        return None


RAW_MOVERS = ["reshape", "transpose", "repeat", "tile", "expand_dims", "atleast_1d", "atleast_2d", "atleast_3d", "diag",
              "diagonal", "split", "array_split", "hsplit", "vsplit", "dsplit"]
LIST_MOVERS = {"split", "array_split", "hsplit", "vsplit", "dsplit"}
JOINERS = ["concatenate", "stack", "hstack", "vstack", "dstack"]


def bind_numpy(ex, fname, args, kw, node):
    """bind a call of numpy.<fname> against the signature of the installed numpy; obligations for what it rejects"""
    sig = numpy_signatures().get(f"numpy.{fname}")
    site = ex.site(f"numpy.{fname}")
    if sig is None:
        ex.oblige(f"pre({site}).signature_known", z3.BoolVal(False), "precondition", node)
        return {}
    has_var = any(p.startswith("*") for p in sig)
    names = [p for p in sig if not p.startswith("*")]
    kws = {k: v for k, v in kw.items() if k != "**"}
    ex.oblige(f"pre({site}).keywords_accepted_by_installed_numpy", z3.BoolVal(all(k in names for k in kws) or has_var),
              "precondition", node, note=f"numpy {numpy_signatures().get('__numpy_version__')}: numpy.{fname}({', '.join(sig)})")
    ex.oblige(f"pre({site}).positional_count", z3.BoolVal(len(args) <= len(names) or has_var), "precondition", node)
    bound = dict(zip(names, args))
    ex.oblige(f"pre({site}).no_parameter_given_twice", z3.BoolVal(not (set(bound) & set(kws))), "precondition", node)
    bound.update(kws)
    return bound


def install_axioms(reg):
    def mover(fname):
        prev = reg.fn.get(f"numpy.{fname}")

        @reg.axiom(f"numpy.{fname}")
        def _m(ex, args, kw, node, fname=fname, prev=prev):
            raws = [a for a in args if isinstance(a, ValuesView)]
            if len(raws) != 1 or not isinstance(args[0], ValuesView):
                if prev is not None:
                    return prev(ex, args, kw, node)
                raise U(f"numpy.{fname} of this operand", node)
            bound = bind_numpy(ex, fname, args, kw, node)
            m = MovedRaw(args[0].poly, fname, bound)
            return MovedPieces(ex, m) if fname in LIST_MOVERS else m
    for f in RAW_MOVERS:
        mover(f)

    # numpy.choose(a, choices=<raw storage>, out=, mode=): the raw operand is the SECOND parameter
    @reg.axiom("numpy.choose")
    def _choose(ex, args, kw, node):
        bound = bind_numpy(ex, "choose", args, kw, node)
        raw = bound.get("choices")
        if not isinstance(raw, ValuesView):
            raise U("numpy.choose of these operands", node)
        return MovedRaw(raw.poly, "choose", bound)

    @reg.axiom("numpy.broadcast_arrays")
    def _broadcast_arrays(ex, args, kw, node):
        if not args or not all(isinstance(a, ValuesView) for a in args):
            raise U("numpy.broadcast_arrays of these operands", node)
        bound = dict(args=tuple(args))
        extra = kw.get("**")
        bound["kwargs"] = extra if extra is not None else {k: v for k, v in kw.items()}
        # one call on all raw storages: piece k is operand k stretched to the common shape
        return [MovedRaw(a.poly, "broadcast_arrays", bound, piece=k) for k, a in enumerate(args)]

    prev_asarray = reg.fn["numpy.asarray"]

    @reg.axiom("numpy.asarray")
    def _asarray(ex, args, kw, node):
        if len(args) == 1 and not kw and isinstance(args[0], (Tok, MovedRaw)):
            return args[0]          # conversion to ndarray: the same numbers / the same records
        return prev_asarray(ex, args, kw, node)

    def joiner(fname):
        prev = reg.fn.get(f"numpy.{fname}")

        @reg.axiom(f"numpy.{fname}")
        def _j(ex, args, kw, node, fname=fname, prev=prev):
            cols = args[0] if args else None
            if isinstance(cols, list) and cols and all(isinstance(c, Arr) and getattr(c, "colview", None) for c in cols):
                bound = bind_numpy(ex, fname, args, kw, node)
                # result shape: a function of the operand shapes (and of the axis argument, fixed within one call site)
                pair = z3.Function("shape_pair", Shp, Shp, Shp)
                shp = z3.Function(f"{fname}_shape", Shp, Shp)
                acc = cols[0].shape
                for c in cols[1:]:
                    acc = pair(acc, c.shape)
                from engine.polymodel import result_type
                dt = cols[0].dtype
                for c in cols[1:]:
                    dt = result_type(dt, c.dtype)        # numpy promotes the dtypes of the joined arrays
                out = Arr(shp(acc), lambda i: z3.RealVal(0), "real", dt, Region("fresh"))
                out.joined = dict(fname=fname, cols=[c.colview for c in cols], bound=bound)
                return out
            if prev is not None:
                return prev(ex, args, kw, node)
            raise U(f"numpy.{fname} of these operands", node)
    for f in JOINERS:
        joiner(f)
    install_diff_axiom(reg)


numpy_diff_column = z3.Function("numpy_diff_column", I, Idx, z3.RealSort())     # numpy.diff of the columns of term t


def install_diff_axiom(reg):
    @reg.axiom("numpy.diff")
    def _d(ex, args, kw, node):
        a = args[0] if args else None
        cv = getattr(a, "colview", None)
        if not isinstance(a, Arr) or cv is None or len(args) != 1:
            raise U("numpy.diff of this operand", node)
        bound = bind_numpy(ex, "diff", args, kw, node)
        t = cv[1]
        shp = z3.Function("diff_shape", Shp, Shp)
        from engine.polymodel import result_type
        dt = a.dtype                       # numpy concatenates prepend / a / append first: their dtypes are promoted
        for extra in ("prepend", "append"):
            if isinstance(bound.get(extra), Arr):
                dt = result_type(dt, bound[extra].dtype)
        out = Arr(shp(a.shape), lambda i: numpy_diff_column(t, i), "real", dt, Region("fresh"))
        hook = getattr(ex, "hooks", {}).get("on_numpy_diff") if isinstance(getattr(ex, "hooks", None), dict) else None
        if hook:
            hook(ex, dict(col=cv, bound=bound), node)        # the contract checks the call where it happens (also inside a cut loop)
        return out


def rewrap(ex, moved, names, node, allocation=None):
    """numpoly.polynomial / aspolynomial of a moved raw structured array plus names (ASSUMED input kind: decoding of the
    field names is the codec of C20; the result holds the moved records)"""
    ctx = ex.ctx
    r = Poly(ctx, ctx.fresh("moved"), dtype=moved.src.dtype, region=Region("fresh", f"rewrap({moved.fname})"))
    ctx.assume(r.wf(ctx))
    r.rewrap_of = moved
    r.rewrap_names = names
    r.rewrap_allocation = allocation
    return r


# ====================================================================== family 1
class RawWrapper(Contract):
    properties = ("C09", "C11", "C17")
    assumptions = ("B6: numpy movers are dtype-agnostic; polynomial(raw, names) decodes the moved records (codec: C20)",)

    def __init__(self, fname, params, variants=None, variadic=False):
        self.func, self.name = fname, f"numpoly.{fname}"
        self.relpath = f"numpoly/array_function/{fname}.py"
        self.wparams = tuple(params)            # user parameters after the array operand
        self.variants = variants or [dict()]    # extra environment settings per case
        self.variadic = variadic

    def _operand_name(self):
        from engine.extract import ModInfo
        fn = ModInfo(self.relpath).function(self.func)
        a = fn.args
        if a.vararg is not None and not (a.posonlyargs + a.args):
            return a.vararg.arg
        return (a.posonlyargs + a.args)[0].arg

    def cases(self):
        for vi, variant in enumerate(self.variants):
            def make_env(ex, variant=variant):
                P = own_poly(ex, "a")
                ex.P = P
                ex.toks = {p: Tok(p) for p in self.wparams}
                env = dict(ex.toks)
                env.update(variant.get("env", {}))
                for k, v in list(env.items()):
                    if v == "TOKEN":
                        env[k] = ex.toks.setdefault(k, Tok(k))
                opname = self._operand_name()
                env[opname] = (P,) if self.variadic else P
                return env

            def check(out, variant=variant):
                self._check(out, variant)
            yield Case(variant.get("label", ""), make_env, check)

    def _check(self, out, variant):
        ex = out.ex
        P = ex.P
        ex.oblige(f"raises.nothing[{out.exc}]" if out.kind == "raise" else "raises.nothing", z3.BoolVal(out.kind == "return"), "post")
        if out.kind != "return":
            return
        r = out.value
        if self.func in LIST_MOVERS:
            ok = isinstance(r, V.Seq)
            ex.oblige("post.list_of_rebuilt_pieces", z3.BoolVal(ok), "post")
            if not ok:
                return
            probe_k = z3.Int(ex.ctx.fresh("piece"))
            r0 = r.item(probe_k)
            okp = isinstance(r0, Poly) and getattr(r0, "rewrap_of", None) is not None and r0.rewrap_of.piece is probe_k
            ex.oblige("post.piece_k_is_rebuilt_from_piece_k", z3.BoolVal(bool(okp)), "post")
            if not okp:
                return
            r = r0
        ok = isinstance(r, Poly) and getattr(r, "rewrap_of", None) is not None
        ex.oblige("post.rebuilt_from_moved_raw_storage", z3.BoolVal(ok), "post")
        if not ok:
            return
        m = r.rewrap_of
        ex.oblige("post.numpy_namesake_applied", z3.BoolVal(m.fname == self.func), "post",
                  note=f"numpoly.{self.func} must move the elements with numpy.{self.func}")
        ex.oblige("post.whole_storage_of_the_operand_moved", z3.BoolVal(m.src is P), "post")
        nm = r.rewrap_names
        okn = (isinstance(nm, Poly) and getattr(nm, "indeterminants_of", None) is P) or (isinstance(nm, NamesV) and nm.term is P.names)
        ex.oblige("post.names_of_the_operand_kept", z3.BoolVal(bool(okn)), "post")
        expect = dict(variant.get("expect", {}))
        for p in self.wparams:
            if p in variant.get("skip", ()):
                continue
            want = expect.get(p, p)            # numpy parameter name that must receive this user argument
            tok = ex.toks.get(variant.get("source", {}).get(p, p))
            ex.oblige(f"post.parameter_forwarded[{p}]", z3.BoolVal(m.bound.get(want) is tok), "post",
                      note=f"user argument `{p}` must reach numpy.{self.func}'s parameter `{want}` unchanged")

    def apply(self, ex, args, kw, node):
        raise U(f"{self.func} as a callee", node)


class Choose(RawWrapper):
    """numpoly.choose(a, choices, out, mode) for a polynomial array of choices: numpy.choose on the whole raw storage of the
    choices with the selection array and mode forwarded, names kept.  (A list of choice arrays is first broadcast and stacked:
    bounded check.)"""

    def __init__(self):
        super().__init__("choose", ("a", "mode"))
        self.assumptions = self.assumptions + ("choices given as one polynomial array, out=None (list of choices: bounded)",)

    def cases(self):
        def make_env(ex):
            P = own_poly(ex, "choices")
            ex.P = P
            ex.toks = {p: Tok(p) for p in self.wparams}
            return {"a": ex.toks["a"], "choices": P, "out": None, "mode": ex.toks["mode"]}

        def check(out):
            self._check(out, {})
            r = out.value
            m = getattr(r, "rewrap_of", None)
            if out.kind == "return" and m is not None:
                out.ex.oblige("post.out_not_used", z3.BoolVal(m.bound.get("out") is None), "post")
        yield Case("", make_env, check)


class BroadcastArrays(Contract):
    """numpoly.broadcast_arrays(*args, **kwargs): ONE numpy.broadcast_arrays call on the raw storages of all operands in order
    (so all are stretched to the same common shape by numpy), result k rebuilt from piece k under operand k's own names."""
    name, func, relpath = "numpoly.broadcast_arrays", "broadcast_arrays", "numpoly/array_function/broadcast_arrays.py"
    properties = ("C09", "C17")
    assumptions = ("B6 (numpy.broadcast_arrays is dtype-agnostic: whole records are repeated); operands given as ndpoly; "
                   "arity 2 enumerated (thorough tier: 3)",)

    def cases(self):
        from engine.contract import deep
        for arity in ((2, 3) if deep() else (2,)):
            def make_env(ex, arity=arity):
                ps = sym_polys(ex, arity, broadcast=False)
                ex.inputs = ps
                ex.kwtok = Tok("kwargs")
                return {"args": tuple(ps), "kwargs": {"subok": ex.kwtok}}

            def check(out, arity=arity):
                ex = out.ex
                ex.oblige(f"raises.nothing[{out.exc}]" if out.kind == "raise" else "raises.nothing", z3.BoolVal(out.kind == "return"), "post")
                if out.kind != "return":
                    return
                r = out.value
                ok = isinstance(r, list) and len(r) == arity and all(isinstance(x, Poly) and getattr(x, "rewrap_of", None) is not None for x in r)
                ex.oblige("post.one_rebuilt_array_per_operand", z3.BoolVal(ok), "post")
                if not ok:
                    return
                for k, (x, P) in enumerate(zip(r, ex.inputs)):
                    m = x.rewrap_of
                    ex.oblige(f"post[{k}].numpy_namesake_applied", z3.BoolVal(m.fname == "broadcast_arrays"), "post")
                    ex.oblige(f"post[{k}].piece_k_of_the_call_is_operand_k", z3.BoolVal(m.src is P and m.piece == k), "post")
                    raws = m.bound.get("args", ())
                    ex.oblige(f"post[{k}].one_call_on_all_operands_in_order", z3.BoolVal(
                        len(raws) == arity and all(isinstance(a, ValuesView) and a.poly is Q for a, Q in zip(raws, ex.inputs))), "post",
                        note="broadcasting each operand on its own would not give a common shape")
                    nm = x.rewrap_names
                    okn = (isinstance(nm, Poly) and getattr(nm, "indeterminants_of", None) is P) or (isinstance(nm, NamesV) and nm.term is P.names)
                    ex.oblige(f"post[{k}].names_of_operand_k_kept", z3.BoolVal(bool(okn)), "post")
                    kwb = m.bound.get("kwargs")
                    ex.oblige(f"post[{k}].keywords_forwarded", z3.BoolVal(isinstance(kwb, dict) and kwb.get("subok") is ex.kwtok), "post")
            yield Case(f"arity={arity}", make_env, check)

    def apply(self, ex, args, kw, node):
        raise U("broadcast_arrays as a callee", node)


# ====================================================================== family 2
class Joiner(Contract):
    properties = ("C09", "C17")
    assumptions = ("B6 (column-wise joins with one index map move whole elements)", "arity 1 and 2 enumerated (thorough tier: also 3); out=None")

    def __init__(self, fname, seqname, has_axis):
        self.func, self.name = fname, f"numpoly.{fname}"
        self.relpath = f"numpoly/array_function/{fname}.py"
        self.seqname, self.has_axis = seqname, has_axis

    def cases(self):
        from engine.contract import deep
        for arity in ((1, 2, 3) if deep() else (1, 2)):
            yield from self._cases(arity)

    def _cases(self, arity):
        def make_env(ex):
            ps = sym_polys(ex, arity, broadcast=False)
            ex.inputs = ps
            ex.ghost = {}
            ex.hooks = {"after_align": lambda ex_, res: ex_.ghost.update(aligned=list(res))}
            env = {self.seqname: tuple(ps)}
            if self.has_axis:
                ex.axis = Tok("axis")
                env.update(axis=ex.axis, out=None)
            return env

        def check(out):
            ex, ctx = out.ex, out.ctx
            ex.oblige(f"raises.nothing[{out.exc}]" if out.kind == "raise" else "raises.nothing", z3.BoolVal(out.kind == "return"), "post")
            if out.kind != "return":
                return
            r = out.value
            ok = isinstance(r, Poly) and hasattr(r, "from_attrs") and "aligned" in ex.ghost
            ex.oblige("post.built_from_aligned_operands", z3.BoolVal(ok), "post")
            if not ok:
                return
            al = ex.ghost["aligned"]
            fa = r.from_attrs
            ex.oblige("post.rows_and_names_of_the_aligned_operands", z3.BoolVal(
                getattr(fa["E"], "source", None) is al[0] and isinstance(fa["names"], NamesV) and fa["names"].term is al[0].names), "post")
            Cs = V.as_seq(ex, fa["C"])
            ex.oblige("post.one_joined_column_per_term", Cs.n == al[0].N, "post")
            t = z3.Int(ctx.fresh("t"))
            col = Cs.item(t)
            j = getattr(col, "joined", None)
            okj = j is not None and j["fname"] == self.func
            ex.oblige("post.numpy_namesake_joins_the_columns", z3.BoolVal(okj), "post")
            if not okj:
                return
            same = len(j["cols"]) == len(al) and all(p is q and (tt is t) for (p, tt), q in zip(j["cols"], al))
            ex.oblige("post.term_t_joins_column_t_of_every_operand_in_order", z3.BoolVal(bool(same)), "post",
                      note="the same join, on the same term, for all operands: whole polynomial elements are placed")
            if self.has_axis:
                ex.oblige("post.axis_forwarded", z3.BoolVal(j["bound"].get("axis") is ex.axis), "post")
            from engine.polymodel import result_type
            want = al[0].dtype
            for q in al[1:]:
                want = result_type(want, q.dtype)
            ex.oblige("post.dtype_is_numpy_promotion_of_the_operand_dtypes", r.dtype == want, "post",
                      note="the coefficient dtype of the join is that of the joined columns, not of the first operand")
            ex.oblige("post.fresh", z3.BoolVal(r.region.owner == "fresh"), "post")
        yield Case(f"arity={arity}", make_env, check)

    def apply(self, ex, args, kw, node):
        """concatenate(list of x_d[numpy.newaxis], axis=0) for a list of symbolic length: stacking.  Element (d, i) of the
        result is element i of x_d (numpy: concatenation along the new first axis; value level through B6)."""
        from engine.polymodel import prepend, at0, first0, rest0, index_newaxis
        from engine.logic import PV, inshape
        arrays = args[0] if args else kw.get("arrays")
        axis = kw.get("axis", args[1] if len(args) > 1 else 0)
        if self.func != "concatenate" or not isinstance(arrays, V.Seq) or axis != 0 or kw.get("out") is not None:
            raise U(f"{self.func} as a callee in this form", node)
        ctx = ex.ctx
        site = ex.site("concatenate")
        ex.oblige(f"pre({site}).at_least_one_array", arrays.n >= 1, "precondition", node)
        dq = ctx.int("piece")
        ctx.assume(z3.And(0 <= dq, dq < arrays.n))
        piece = arrays.item(dq)
        io = getattr(piece, "item_of", None)
        if not isinstance(piece, Poly) or io is None or not z3.eq(io[1].term, index_newaxis):
            raise U("concatenate of a symbolic list whose items are not x[numpy.newaxis]", node)
        s0 = io[0].shape
        if dq.sexpr() in s0.sexpr():
            raise U("pieces of different shapes", node)
        r = Poly(ctx, ctx.fresh("stacked"), shape=prepend(arrays.n, s0), region=Region("fresh", "concatenate"))
        r.owndata = z3.BoolVal(True)
        ctx.assume(r.wf(ctx))
        from contracts.construct import keyok
        ctx.assume(ctx.forall_range(0, r.N, lambda t: keyok(r.row(t), r.D)))
        part = ctx.func("part", I, Idx, PV)
        j = z3.Const(ctx.fresh("j"), Idx)
        ctx.assume(z3.ForAll([j], z3.Implies(inshape(j, r.shape), r.val(j) == part(first0(j), rest0(j))), patterns=[r.val(j)]))

        def link(d0):
            """facts about piece d0 (an arbitrary but fixed position): part(d0, .) is the value of the array that was wrapped"""
            pc = arrays.item(d0)
            src = pc.item_of[0]
            ctx.assume(ctx.forall_idx(lambda i: part(d0, i) == src.val(i), s0))
            return src
        r.pieces = dict(seq=arrays, part=part, shape=s0, link=link, n=arrays.n)
        return r


class Diff(Contract):
    name, func, relpath = "numpoly.diff", "diff", "numpoly/array_function/diff.py"
    properties = ("C10", "C12", "C17")
    positional = ("a", "n", "axis", "prepend", "append")
    assumptions = ("B5: numpy.diff is linear, so differencing every coefficient column differences the polynomial elements",)

    def _loops(self):
        def inv(ex, env, k):
            out = env.get("out")
            if not isinstance(out, Poly):
                return [("output_allocated_in_the_first_iteration", z3.BoolVal(False))]
            return [("columns_written_so_far", ex.ctx.forall_range(0, k, lambda t: ex.ctx.forall_idx(
                lambda i: z3.And(out.init(t, i), out.C(t, i) == numpy_diff_column(t, i)), out.shape)))]

        def havoc(ex, env, k):
            out = env["out"]
            cf, inf = ex.ctx.func("C_h", I, Idx, z3.RealSort()), ex.ctx.func("init_h", I, Idx, z3.BoolSort())
            out._C = lambda t, i: cf(t, i)
            out._init = lambda t, i: inf(t, i)
        return {1: LoopSpec(inv, havoc, modifies=("key", "kwargs", "tmp", "out"), peel=1)}

    def cases(self):
        for label, with_app, with_pre in (("plain", False, False), ("append", True, False), ("prepend", False, True), ("both", True, True)):
            def make_env(ex, with_app=with_app, with_pre=with_pre):
                n_ops = 1 + with_app + with_pre
                ps = sym_polys(ex, n_ops, broadcast=False)
                ex.inputs = ps
                ex.ghost = {}
                ex.n, ex.axis = Tok("n"), Tok("axis")
                it = iter(ps[1:])
                app = next(it) if with_app else None
                pre = next(it) if with_pre else None
                ex.app, ex.pre = app, pre

                def on_diff(ex_, c, node, with_app=with_app, with_pre=with_pre):
                    al = ex_.ghost.get("aligned")
                    if with_app or with_pre:
                        A = al[0] if al else None
                        APP = al[1] if (al and with_app) else None
                        PRE = al[1 + with_app] if (al and with_pre) else None
                    else:
                        A, APP, PRE = ex_.inputs[0], None, None
                    p_, t_ = c["col"]
                    b = c["bound"]
                    good = A is not None and p_ is A and b.get("n") is ex_.n and b.get("axis") is ex_.axis
                    ap, pr = b.get("append"), b.get("prepend")
                    good = good and ((ap is None) if APP is None else (getattr(ap, "colview", (None, None))[0] is APP and getattr(ap, "colview")[1] is t_))
                    good = good and ((pr is None) if PRE is None else (getattr(pr, "colview", (None, None))[0] is PRE and getattr(pr, "colview")[1] is t_))
                    ex_.oblige(ex_.site("numpy.diff") + ".gets_the_columns_of_one_term_and_the_user_arguments", z3.BoolVal(bool(good)), "post", node,
                               note="column t of a (and of append / prepend, aligned to the same terms) with n and axis forwarded")
                ex.hooks = {"after_align": lambda ex_, res: ex_.ghost.update(aligned=list(res)), "on_numpy_diff": on_diff}
                return {"a": ps[0], "n": ex.n, "axis": ex.axis, "prepend": pre, "append": app}

            def check(out, with_app=with_app, with_pre=with_pre):
                ex, ctx = out.ex, out.ctx
                ex.oblige(f"raises.nothing[{out.exc}:{out.value}]" if out.kind == "raise" else "raises.nothing", z3.BoolVal(out.kind == "return"), "post")
                if out.kind != "return":
                    return
                r = out.value
                ok = isinstance(r, Poly) and hasattr(r, "from_attrs")
                ex.oblige("post.cleaned_filled_polynomial", z3.BoolVal(ok), "post")
                if not ok:
                    return
                al = ex.ghost.get("aligned")
                if with_app or with_pre:
                    ex.oblige("post.operands_aligned", z3.BoolVal(al is not None and len(al) == 1 + with_app + with_pre), "post")
                    if al is None:
                        return
                    A = al[0]
                    APP = al[1] if with_app else None
                    PRE = al[1 + with_app] if with_pre else None
                else:
                    A, APP, PRE = ex.inputs[0], None, None
                fa = r.from_attrs
                src = getattr(fa["E"], "source", None)
                okc = isinstance(src, Poly) and getattr(fa["C"], "source", (None,))[0] is src
                ex.oblige("post.result_is_cleaning_of_the_filled_polynomial", z3.BoolVal(okc), "post")
                if not okc:
                    return
                ex.oblige("post.rows_and_names_of_the_operand", z3.And(src.N == A.N, src.D == A.D, src.names == A.names,
                                                                      ctx.forall_range(0, A.N, lambda t: src.row(t) == A.row(t))), "post")
                Cs = V.as_seq(ex, fa["C"])
                ex.oblige("post.every_column_is_numpy_diff_of_the_columns_of_its_term", ctx.forall_range(0, A.N, lambda t: ctx.forall_idx(
                    lambda i: z3.And(Cs.item(t).init(i), Cs.item(t).elem(i) == numpy_diff_column(t, i)), src.shape)), "post")
                from engine.polymodel import result_type
                want = A.dtype
                for q in (PRE, APP):
                    if q is not None:
                        want = result_type(want, q.dtype)
                ex.oblige("post.dtype_is_that_of_the_differenced_columns", src.dtype == want, "post",
                          note="with prepend/append of another dtype numpy promotes; the result must carry that dtype")
                ex.oblige("post.fresh", z3.BoolVal(r.region.owner == "fresh"), "post")
            yield Case(label, make_env, check, loops=self._loops())

    def apply(self, ex, args, kw, node):
        raise U("diff as a callee", node)


class Full(Contract):
    """full(shape, fill_value, ...) / full_like(a, fill_value, ...): every coefficient column of the fill polynomial is
    broadcast into the new array - no term skipped, none left unwritten (C12) - with its rows, names and the dtype rule."""
    properties = ("C09", "C12", "C17")
    assumptions = ("B2 (broadcasting every coefficient column broadcasts the polynomial)", "precondition: fill_value broadcasts to the shape")

    def __init__(self, fname):
        self.func, self.name = fname, f"numpoly.{fname}"
        self.relpath = f"numpoly/array_function/{fname}.py"

    def _loops(self):
        def inv(ex, env, k):
            out, F, S = env["out"], ex.F, ex.S
            if not isinstance(out, Poly):
                return [("output_allocated", z3.BoolVal(False))]
            from engine.logic import proj
            return [("columns_written_so_far", ex.ctx.forall_range(0, k, lambda t: ex.ctx.forall_idx(
                lambda i: z3.And(out.init(t, i), out.C(t, i) == F.C(t, proj(i, S, F.shape))), S)))]

        def havoc(ex, env, k):
            out = env["out"]
            cf, inf = ex.ctx.func("C_h", I, Idx, z3.RealSort()), ex.ctx.func("init_h", I, Idx, z3.BoolSort())
            out._C = lambda t, i: cf(t, i)
            out._init = lambda t, i: inf(t, i)
        return {1: LoopSpec(inv, havoc, modifies=("key",))}

    def cases(self):
        variants = [("dtype_given", True), ("dtype_default", False)]
        for label, dt_given in variants:
            def make_env(ex, dt_given=dt_given):
                from engine.logic import DT, bshape, bok
                from engine.polymodel import ShapeV, DTypeV
                ctx = ex.ctx
                n_ops = 1 if self.func == "full" else 2
                ps = sym_polys(ex, n_ops, broadcast=False)
                F = ps[-1]
                ex.F = F
                ex.dt = ctx.const("dtype_arg", DT)
                if self.func == "full":
                    S = ctx.const("shape_arg", Shp)
                    env = {"shape": ShapeV(S), "fill_value": F, "dtype": DTypeV(ex.dt) if dt_given else None, "order": "C"}
                else:
                    A = ps[0]
                    ex.A = A
                    S = A.shape
                    env = {"a": A, "fill_value": F, "dtype": DTypeV(ex.dt) if dt_given else None, "order": "K", "subok": True, "shape": None}
                ex.S = S
                ctx.assume(z3.And(bok(F.shape, S), bshape(F.shape, S) == S))      # precondition: the fill value broadcasts into the shape
                return env

            def check(out, dt_given=dt_given):
                from engine.logic import proj
                ex, ctx = out.ex, out.ctx
                F, S = ex.F, ex.S
                ex.oblige(f"raises.nothing[{out.exc}:{out.value}]" if out.kind == "raise" else "raises.nothing", z3.BoolVal(out.kind == "return"), "post")
                if out.kind != "return":
                    return
                r = out.value
                ok = isinstance(r, Poly)
                ex.oblige("post.polynomial", z3.BoolVal(ok), "post")
                if not ok:
                    return
                ex.oblige("post.rows_and_names_of_the_fill_value", z3.And(r.N == F.N, r.D == F.D, r.names == F.names,
                                                                         ctx.forall_range(0, F.N, lambda t: r.row(t) == F.row(t))), "post")
                ex.oblige("post.shape", r.shape == S, "post")
                want = ex.dt if dt_given else (F.dtype if self.func == "full" else ex.A.dtype)
                ex.oblige("post.dtype", r.dtype == want, "post", note="requested dtype, else that of the fill value (full) / of the prototype (full_like)")
                ex.oblige("post.every_column_is_the_broadcast_fill_column", ctx.forall_range(0, F.N, lambda t: ctx.forall_idx(
                    lambda i: z3.And(r.init(t, i), r.C(t, i) == F.C(t, proj(i, S, F.shape))), S)), "post",
                    note="no term skipped, none left unwritten (C12)")
                ex.oblige("post.fresh", z3.BoolVal(r.region.owner == "fresh"), "post")
            yield Case(label, make_env, check, loops=self._loops())

    def apply(self, ex, args, kw, node):
        raise U(f"{self.func} as a callee", node)


CONTRACTS = [
    Full("full"), Full("full_like"),
    Diff(),
    RawWrapper("reshape", ("shape", "order"), variants=[dict(label="shape", env={"newshape": None}),
                                                        dict(label="newshape", env={"shape": None, "newshape": "TOKEN"},
                                                             source={"shape": "newshape"})]),
    RawWrapper("transpose", ("axes",)), RawWrapper("repeat", ("repeats", "axis")), RawWrapper("tile", ("reps",)),
    RawWrapper("expand_dims", ("axis",)), RawWrapper("diag", ("k",)), RawWrapper("diagonal", ("offset", "axis1", "axis2")),
    RawWrapper("atleast_1d", (), variadic=True), RawWrapper("atleast_2d", (), variadic=True), RawWrapper("atleast_3d", (), variadic=True),
    RawWrapper("split", ("indices_or_sections", "axis")), RawWrapper("array_split", ("indices_or_sections", "axis")),
    RawWrapper("hsplit", ("indices_or_sections",)), RawWrapper("vsplit", ("indices_or_sections",)),
    RawWrapper("dsplit", ("indices_or_sections",)), Choose(), BroadcastArrays(),
    Joiner("concatenate", "arrays", True), Joiner("stack", "arrays", True), Joiner("hstack", "tup", False),
    Joiner("vstack", "tup", False), Joiner("dstack", "tup", False),
]
