"""Contracts for numpoly/utils/glexsort.py (properties C18, C07, C19, C16 depend on it)."""
from __future__ import annotations
import z3
from engine.contract import Contract, Case
from engine.logic import Mono, I
from engine.sortmodel import KeyMat, IntVec, glexle, meq, order_axioms, is_perm
from engine.values import U


class Glexsort(Contract):
    name = "numpoly.glexsort"
    relpath = "numpoly/utils/glexsort.py"
    func = "glexsort"
    positional = ("keys", "graded", "reverse")
    properties = ("C18", "C07", "C19", "C16")
    assumptions = ("pigeonhole: an injective map from {0..n-1} into {0..n-1} is a permutation",
                   "keys is a 2-d integer array (the 1-d form is the D=1 instance after numpy.atleast_2d)")

    def cases(self):
        def make_env(ex):
            ctx = ex.ctx
            D, n = z3.Int("D"), z3.Int("n")
            colf = z3.Function("key_col", I, Mono)
            ctx.assume(D >= 1)
            ctx.assume(n >= 0)
            keys = KeyMat(D, n, lambda c: colf(c), "caller")
            ex.in_keys = keys
            return {"keys": keys, "graded": z3.Bool("graded"), "reverse": z3.Bool("reverse")}

        def check(out):
            ex, ctx = out.ex, out.ctx
            ex.oblige("raises.nothing", z3.BoolVal(out.kind == "return"), "post")
            if out.kind != "return":
                return
            rho = out.value
            ok = isinstance(rho, IntVec)
            ex.oblige("post.is_index_vector", z3.BoolVal(ok), "post")
            if not ok:
                return
            K = ex.in_keys
            g, r = out.env["graded"], out.env["reverse"]
            for name, f in self.post(ctx, K, g, r, rho):
                ex.oblige(f"post.{name}", f, "post")
        yield Case("", make_env, check)

    @staticmethod
    def post(ctx, K, graded, reverse, rho):
        n, D = K.n, K.D
        return [
            ("length", rho.n == n),
            ("range", ctx.forall_range(0, n, lambda p: z3.And(0 <= rho.at(p), rho.at(p) < n))),
            ("injective", ctx.forall_range2(0, n, lambda p, q: rho.at(p) != rho.at(q))),
            ("sorted", ctx.forall_range2(0, n, lambda p, q: glexle(K.col(rho.at(p)), K.col(rho.at(q)), D, graded, reverse))),
            ("ties_by_index", ctx.forall_range2(0, n, lambda p, q: z3.Implies(
                meq(K.col(rho.at(p)), K.col(rho.at(q)), D), rho.at(p) < rho.at(q)))),
        ]

    def apply(self, ex, args, kw, node):
        K = args[0] if args else kw["keys"]
        if not isinstance(K, KeyMat):
            raise U("glexsort of non-matrix", node)
        graded = kw.get("graded", args[1] if len(args) > 1 else False)
        reverse = kw.get("reverse", args[2] if len(args) > 2 else False)
        ctx = ex.ctx
        f = ctx.func("glexperm", I, I)
        rho = IntVec(K.n, lambda k: f(k))
        permf, inv = is_perm(ctx, rho, K.n)          # injective + range => permutation (pigeonhole)
        ctx.assume(permf)
        rho.inv = inv
        for a in order_axioms(ctx):
            ctx.assume(a)
        for name, fml in self.post(ctx, K, graded, reverse, rho):
            ctx.assume(fml)
        rho.sorted_keys = (K, graded, reverse)
        hook = getattr(ex, "hooks", {}).get("after_glexsort")
        if hook:
            hook(ex, rho)
        return rho


CONTRACTS = [Glexsort()]
